#!/venv/bin/python
"""pgv -- static checks of parglare properties C01..C20 (see DESIGN.md).

    pgv.py check C06 [--tier quick|thorough] [--root /repo]
    pgv.py replay evidence/violations/C06-1.json
    pgv.py selfcheck [C06 ...] [-j 16] [--id substring]
Exit codes: 0 held / only known findings, 1 unlisted violation, 2 analysis could not run.
"""
import os
import sys

sys.path.insert(0, os.path.dirname(os.path.abspath(__file__)))

from pgv import runner  # noqa: E402

runner.DOC = __doc__

if __name__ == "__main__":
    try:
        code = runner.main(sys.argv)
    except SystemExit:
        raise
    except BaseException as e:  # noqa: BLE001
        import traceback

        traceback.print_exc()
        print(f"ANALYSIS-ERROR internal: {type(e).__name__}: {e}")
        code = 2
    sys.exit(code)
