"""E2 driver -- decision-tree exploration of a region against a finite valuation space.

`explore(run, space, classify)`:
    * `space`     list of valuations (dicts) -- the complete, finite input space of the
                  decision (weak orders of the compared quantities x enum domains x flags);
    * `classify(expr, interp)` maps an (already copy-propagated) atomic condition to a
                  Python predicate over a valuation (it may look at the effects emitted so
                  far), or raises AnalysisError for an unknown atom;
    * `run(atom)` interprets the region once, asking `atom(expr, interp)` for every
                  atomic condition it meets, and returns an abstract result.
The driver re-runs the region once per *distinct path the code distinguishes*; at every
atom the current set of valuations is partitioned by the atom's truth value, so each
leaf is the exact set of valuations that take this path.  The caller compares the
leaf's abstract result with spec(v) for every v in the leaf.
"""
from __future__ import annotations

import re

from .core import AnalysisError, UnknownAtom, strip_at, unparse


class Leaf:
    def __init__(self, valuations, result, decisions, free=()):
        self.valuations = valuations
        self.result = result
        self.decisions = decisions  # [(atom text, truth)]
        self.free = list(free)  # [(atom text, truth)] undocumented conditions on this path

    def guards(self, last=4):
        return " & ".join(("" if t else "not ") + "(" + a[:70] + ")" for a, t in self.decisions[-last:])

    def free_text(self):
        if not self.free:
            return ""
        return "; depends on undocumented condition(s): " + ", ".join(
            f"{a[:80]} = {t}" for a, t in self.free
        )


def explore(run, space, classify, max_paths=4000, allow_free=True):
    cache = {}

    def pred_of(expr, interp):
        text = unparse(expr)
        key = (text, repr(getattr(interp, "effects", None)))
        if key not in cache:
            cache[key] = classify(expr, interp)
        return cache[key], text

    leaves = []
    pending = [[]]
    n = 0
    while pending:
        prefix = pending.pop()
        n += 1
        if n > max_paths:
            raise AnalysisError("decision tree too large")
        state = {"cur": space, "i": 0, "dec": [], "free": []}

        def atom(expr, interp, state=state, prefix=prefix):
            try:
                pred, key = pred_of(expr, interp)
            except UnknownAtom:
                if not allow_free:
                    raise
                key = unparse(expr)
                i = state["i"]
                if i < len(prefix):
                    d = prefix[i]
                else:
                    pending.append(prefix[:i] + [False])
                    d = True
                    prefix.append(d)
                state["i"] = i + 1
                state["dec"].append((key, d))
                state["free"].append((key, d))
                return d
            cur = state["cur"]
            tset, fset = [], []
            for v in cur:
                (tset if pred(v) else fset).append(v)
            i = state["i"]
            if i < len(prefix):
                d = prefix[i]
            else:
                if tset and fset:
                    pending.append(prefix[:i] + [False])
                    d = True
                else:
                    d = bool(tset)
                prefix.append(d)
            state["i"] = i + 1
            state["cur"] = tset if d else fset
            state["dec"].append((key, d))
            return d

        result = run(atom)
        leaves.append(Leaf(state["cur"], result, state["dec"], state["free"]))
    return leaves


def describe(v, keys=None):
    keys = keys or sorted(v)
    return ", ".join(f"{k}={v[k]}" for k in keys if k in v)


def discover(run, max_paths=20000):
    """Enumerate every syntactic path (both outcomes at every atom) -- used to list
    the atoms and effects of a region for evidence and diagnostics."""
    leaves = []
    pending = [[]]
    n = 0
    while pending:
        prefix = pending.pop()
        n += 1
        if n > max_paths:
            raise AnalysisError("too many syntactic paths")
        state = {"i": 0, "dec": []}

        def atom(expr, interp, state=state, prefix=prefix):
            i = state["i"]
            if i < len(prefix):
                d = prefix[i]
            else:
                pending.append(prefix[:i] + [False])
                d = True
                prefix.append(d)
            state["i"] = i + 1
            state["dec"].append((unparse(expr), d))
            return d

        try:
            result = run(atom)
        except AnalysisError as e:
            result = ("analysis-error", str(e))
        leaves.append(Leaf(None, result, state["dec"]))
    return leaves


def norm_cmp(text):
    """canonical comparison spelling: `is` == `==`, `is not` == `!=`"""
    return text.replace(" is not ", " != ").replace(" is ", " == ")


class Atoms:
    """Table-driven atom classifier: (regex over the canonical text) -> predicate(v, match)."""

    def __init__(self):
        self.rules = []

    def add(self, pattern, fn):
        self.rules.append((re.compile(pattern + r"\Z"), fn))
        return self

    def flag(self, text, key, negate=False):
        return self.add(re.escape(text), (lambda v, m, k=key, n=negate: (not v[k]) if n else bool(v[k])))

    def const(self, text, value):
        return self.add(re.escape(text), lambda v, m, c=value: c)

    def enum(self, lhs, key, names):
        """`lhs == NAME` / `lhs != NAME` / `lhs in (A, B)` over an enum-valued valuation key"""
        alt = "|".join(map(re.escape, names))
        self.add(re.escape(lhs) + r" == (" + alt + ")", lambda v, m, k=key: v[k] == m.group(1))
        self.add(re.escape(lhs) + r" != (" + alt + ")", lambda v, m, k=key: v[k] != m.group(1))
        self.add(
            re.escape(lhs) + r" in [\[\(]((?:" + alt + r")(?:, (?:" + alt + r"))*),?[\]\)]",
            lambda v, m, k=key: v[k] in [x.strip() for x in m.group(1).split(",")],
        )
        self.add(
            re.escape(lhs) + r" not in [\[\(]((?:" + alt + r")(?:, (?:" + alt + r"))*),?[\]\)]",
            lambda v, m, k=key: v[k] not in [x.strip() for x in m.group(1).split(",")],
        )
        return self

    def __call__(self, expr, interp):
        e, _ = strip_at(expr)
        text = norm_cmp(unparse(e))
        for rx, fn in self.rules:
            m = rx.match(text)
            if m:
                return lambda v, fn=fn, m=m: fn(v, m)
        raise UnknownAtom(f"unknown condition atom: {text}")
