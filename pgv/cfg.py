"""E1 -- statement-level control-flow graph with short-circuit decomposition of
conditions, dominance-by-edge-removal and must-pass-through queries.

Nodes
    kind 'entry' | 'exit' (normal return / fall off the end) | 'raise' (explicit raise)
         'stmt'  simple statement (ast.stmt)
         'test'  an *atomic* condition (ast.expr, never BoolOp / Not): edges 'T' / 'F'
         'for'   loop header: edges 'iter' / 'done'
         'join'  synthetic
Edges carry a label: None, 'T', 'F', 'iter', 'done', 'exc', 'break', 'continue'.
Loop regions can be analysed on their own (`build_region`) with `continue`/`break`
/fall-through mapped to dedicated exit nodes.
"""
from __future__ import annotations

import ast

from .core import AnalysisError, unparse


class Node:
    __slots__ = ("idx", "kind", "ast", "succ", "pred", "tag")

    def __init__(self, idx, kind, node=None, tag=None):
        self.idx = idx
        self.kind = kind
        self.ast = node
        self.succ = []  # (label, Node)
        self.pred = []  # (label, Node)
        self.tag = tag

    @property
    def lineno(self):
        return getattr(self.ast, "lineno", None)

    def __repr__(self):
        t = unparse(self.ast)[:50] if self.ast is not None else (self.tag or "")
        return f"<{self.idx}:{self.kind} {t!r}>"


class CFG:
    def __init__(self):
        self.nodes = []
        self.entry = self.new("entry")
        self.exit = self.new("exit", tag="return")
        self.raise_exit = self.new("raise", tag="raise")
        self.extra_exits = {}
        self.loop_heads = {}  # ast.While/ast.For -> head node
        self.loop_afters = {}

    def new(self, kind, node=None, tag=None):
        n = Node(len(self.nodes), kind, node, tag)
        self.nodes.append(n)
        return n

    def edge(self, a, b, label=None):
        if (label, b) not in a.succ:
            a.succ.append((label, b))
            b.pred.append((label, a))

    # ---------------------------------------------------------------- queries
    def all_exits(self):
        return [self.exit, self.raise_exit] + list(self.extra_exits.values())

    def reach(self, sources, avoid_nodes=(), avoid_edges=(), forward=True):
        """Nodes reachable from `sources` without *entering* avoid_nodes and without
        using avoid_edges (iterable of (node, label))."""
        avoid_nodes = set(avoid_nodes)
        avoid_edges = set(avoid_edges)
        seen = set()
        todo = [s for s in sources if s not in avoid_nodes]
        while todo:
            n = todo.pop()
            if n in seen:
                continue
            seen.add(n)
            if forward:
                for lab, m in n.succ:
                    if (n, lab) in avoid_edges or m in avoid_nodes:
                        continue
                    todo.append(m)
            else:
                for lab, m in n.pred:
                    if (m, lab) in avoid_edges or m in avoid_nodes:
                        continue
                    todo.append(m)
        return seen

    def reach_ps(self, sources, avoid_nodes=(), avoid_edges=()):
        """Path-sensitive forward reachability: remembers the outcome of each atomic test
        (by its text) along a path and does not take the contradicting edge of a later test
        with the same text, unless an intervening node may have changed a name it mentions
        (any store to, or call involving, one of its names kills the fact)."""
        import re as _re

        avoid_nodes = set(avoid_nodes)
        avoid_edges = set(avoid_edges)
        seen = set()
        out = set()
        todo = [(s, frozenset()) for s in sources if s not in avoid_nodes]
        while todo:
            n, facts = todo.pop()
            if (n, facts) in seen:
                continue
            seen.add((n, facts))
            out.add(n)
            if len(seen) > 200000:
                raise AnalysisError("path-sensitive reachability: state space too large")
            allowed = None
            nfacts = facts
            if n.kind == "test" and n.ast is not None:
                t = unparse(n.ast)
                known = dict(facts).get(t)
                if known is not None:
                    allowed = "T" if known else "F"
            elif n.ast is not None and n.kind in ("stmt", "for"):
                killed = _kill_names(n)
                if killed:
                    nfacts = frozenset(
                        (t, v) for t, v in facts
                        if not any(_re.search(rf"\b{_re.escape(k)}\b", t) for k in killed)
                    )
            for lab, m in n.succ:
                if (n, lab) in avoid_edges or m in avoid_nodes:
                    continue
                if allowed is not None and lab in ("T", "F") and lab != allowed:
                    continue
                f2 = nfacts
                if n.kind == "test" and n.ast is not None and lab in ("T", "F"):
                    f2 = frozenset(set(nfacts) | {(unparse(n.ast), lab == "T")})
                todo.append((m, f2))
        return out

    def reachable(self):
        return self.reach([self.entry])

    def dominated_by_nodes(self, target, doms):
        """Every path entry -> target passes through a node in doms."""
        doms = set(doms)
        if target in doms:
            return True
        return target not in self.reach([self.entry], avoid_nodes=doms)

    def dominated_by_edges(self, target, edges, start=None):
        """Every path start(entry) -> target uses one of `edges` [(node,label)]."""
        return target not in self.reach([start or self.entry], avoid_edges=edges)

    def dominating_tests(self, target, skip=lambda e: False):
        """{(text of the atomic test, 'T'|'F')} of all test edges every path entry -> target
        takes (the guard of the node as the code states it, whatever the nesting / and-chain)."""
        out = set()
        for n in self.nodes:
            if n.kind != "test" or skip(n.ast):
                continue
            for lab in ("T", "F"):
                if any(l == lab for l, _ in n.succ) and self.dominated_by_edges(target, [(n, lab)]):
                    out.add((unparse(n.ast), lab))
        return out

    def must_pass(self, sources, through, exits=None, escape_edges=(), escape_nodes=()):
        """Return list of exit nodes reachable from `sources` (after leaving them)
        without passing `through` nodes, ignoring escape edges/nodes.  Empty list
        = every path passes through."""
        through = set(through)
        exits = set(exits if exits is not None else self.all_exits())
        starts = []
        for s in sources:
            for lab, m in s.succ:
                if (s, lab) in set(escape_edges):
                    continue
                starts.append(m)
        seen = self.reach(
            starts, avoid_nodes=through | set(escape_nodes), avoid_edges=escape_edges
        )
        return [e for e in exits if e in seen]

    def find_path(self, sources, targets, avoid_nodes=(), avoid_edges=()):
        """A witness path (list of nodes) from a source to a target, or None."""
        avoid_nodes = set(avoid_nodes)
        avoid_edges = set(avoid_edges)
        targets = set(targets)
        prev = {}
        todo = list(sources)
        for s in sources:
            prev[s] = None
        while todo:
            n = todo.pop(0)
            if n in targets and prev[n] is not None or (n in targets and n in sources):
                path = []
                while n is not None:
                    path.append(n)
                    n = prev[n]
                return list(reversed(path))
            for lab, m in n.succ:
                if (n, lab) in avoid_edges or m in avoid_nodes or m in prev:
                    continue
                prev[m] = n
                todo.append(m)
        return None

    # ---------------------------------------------------------------- lookup
    def nodes_where(self, pred, kinds=("stmt", "test", "for")):
        return [n for n in self.nodes if n.kind in kinds and n.ast is not None and pred(n)]

    def node_of(self, astnode):
        """CFG node whose ast *contains* astnode (innermost)."""
        best = None
        for n in self.nodes:
            if n.ast is None:
                continue
            if n.kind == "stmt" and isinstance(
                n.ast, (ast.FunctionDef, ast.AsyncFunctionDef, ast.ClassDef)
            ):
                if n.ast is astnode:
                    return n
                continue
            for sub in ast.walk(n.ast):
                if sub is astnode:
                    if best is None or _size(n.ast) < _size(best.ast):
                        best = n
                    break
        return best

    def nodes_calling(self, name):
        out = []
        for n in self.nodes:
            if n.ast is None or n.kind not in ("stmt", "test", "for"):
                continue
            for c in _own_calls(n):
                f = c.func
                nm = f.id if isinstance(f, ast.Name) else f.attr if isinstance(f, ast.Attribute) else None
                if nm == name:
                    out.append((n, c))
        return out

    def test_edges(self, pred, label):
        """[(node,label)] for test nodes whose atomic expression satisfies pred."""
        return [(n, label) for n in self.nodes if n.kind == "test" and pred(n.ast)]


def _kill_names(n):
    """names whose value (or the objects they refer to) node n may change"""
    a = n.ast
    out = set()
    roots = []
    if n.kind == "for":
        roots = [a.target]
        for x in ast.walk(a.target):
            if isinstance(x, ast.Name):
                out.add(x.id)
        calls = [c for c in ast.walk(a.iter) if isinstance(c, ast.Call)]
    else:
        if isinstance(a, (ast.FunctionDef, ast.ClassDef)):
            return {a.name}
        targets = []
        if isinstance(a, ast.Assign):
            targets = a.targets
        elif isinstance(a, (ast.AugAssign, ast.AnnAssign)):
            targets = [a.target]
        elif isinstance(a, ast.Delete):
            targets = a.targets
        for t in targets:
            for x in ast.walk(t):
                if isinstance(x, ast.Name):
                    out.add(x.id)
        calls = [c for c in ast.walk(a) if isinstance(c, ast.Call)]
    for c in calls:
        for arg in list(c.args) + [k.value for k in c.keywords]:
            for x in ast.walk(arg):
                if isinstance(x, ast.Name):
                    out.add(x.id)
        f = c.func
        while isinstance(f, (ast.Attribute, ast.Subscript)):
            f = f.value
        if isinstance(f, ast.Name) and isinstance(c.func, ast.Attribute):
            out.add(f.id)
    return out


def _size(a):
    return sum(1 for _ in ast.walk(a))


def _own_calls(n):
    """Calls evaluated *at* this CFG node (for compound headers only the header)."""
    a = n.ast
    if n.kind == "for":
        roots = [a.iter]
    elif n.kind == "stmt" and isinstance(a, (ast.FunctionDef, ast.AsyncFunctionDef, ast.ClassDef)):
        roots = []
    elif n.kind == "stmt" and isinstance(a, ast.With):
        roots = [i.context_expr for i in a.items]
    else:
        roots = [a]
    out = []
    for r in roots:
        todo = [r]
        while todo:
            x = todo.pop()
            if isinstance(x, ast.Call):
                out.append(x)
            if isinstance(x, (ast.Lambda, ast.FunctionDef)):
                continue
            todo.extend(ast.iter_child_nodes(x))
    return out


class _Builder:
    def __init__(self, cfg):
        self.g = cfg
        self.loops = []  # (continue_target, break_target)
        self.handlers = []  # stack of lists of handler entry nodes

    # each build_* takes list of (node,label) dangling "ins" and returns dangling outs
    def connect(self, ins, node):
        for n, lab in ins:
            self.g.edge(n, node, lab)

    def stmts(self, body, ins):
        for st in body:
            if not ins:
                # unreachable code: still build it so lookups work, but with no preds
                pass
            ins = self.stmt(st, ins)
        return ins

    def _exc_edges(self, node):
        if self.handlers:
            for h in self.handlers[-1]:
                self.g.edge(node, h, "exc")

    def cond(self, expr, ins):
        """Short-circuit decomposition. Returns (true_outs, false_outs)."""
        if isinstance(expr, ast.BoolOp):
            if isinstance(expr.op, ast.And):
                f_all = []
                cur = ins
                for v in expr.values:
                    t, f = self.cond(v, cur)
                    f_all += f
                    cur = t
                return cur, f_all
            else:
                t_all = []
                cur = ins
                for v in expr.values:
                    t, f = self.cond(v, cur)
                    t_all += t
                    cur = f
                return t_all, cur
        if isinstance(expr, ast.UnaryOp) and isinstance(expr.op, ast.Not):
            t, f = self.cond(expr.operand, ins)
            return f, t
        if isinstance(expr, ast.Constant):
            j = self.g.new("join", tag="const")
            self.connect(ins, j)
            if expr.value:
                return [(j, None)], []
            return [], [(j, None)]
        n = self.g.new("test", expr)
        self.connect(ins, n)
        self._exc_edges(n)
        return [(n, "T")], [(n, "F")]

    def stmt(self, st, ins):
        g = self.g
        if isinstance(st, ast.If):
            t, f = self.cond(st.test, ins)
            o1 = self.stmts(st.body, t)
            o2 = self.stmts(st.orelse, f) if st.orelse else f
            return o1 + o2
        if isinstance(st, ast.While):
            head = g.new("join", tag="while")
            head.ast = None
            g.loop_heads[st] = head
            self.connect(ins, head)
            t, f = self.cond(st.test, [(head, None)])
            after = g.new("join", tag="after-while")
            g.loop_afters[st] = after
            self.loops.append((head, after))
            o = self.stmts(st.body, t)
            self.loops.pop()
            self.connect(o, head)
            oe = self.stmts(st.orelse, f) if st.orelse else f
            self.connect(oe, after)
            return [(after, None)]
        if isinstance(st, (ast.For, ast.AsyncFor)):
            head = g.new("for", st)
            g.loop_heads[st] = head
            self.connect(ins, head)
            self._exc_edges(head)
            after = g.new("join", tag="after-for")
            g.loop_afters[st] = after
            self.loops.append((head, after))
            o = self.stmts(st.body, [(head, "iter")])
            self.loops.pop()
            self.connect(o, head)
            oe = self.stmts(st.orelse, [(head, "done")]) if st.orelse else [(head, "done")]
            self.connect(oe, after)
            return [(after, None)]
        if isinstance(st, ast.Try):
            hentries = []
            for h in st.handlers:
                hn = g.new("join", tag="except")
                hn.ast = h.type
                hentries.append(hn)
            # exceptions raised in body go to handlers (and may also propagate)
            self.handlers.append(hentries + (self.handlers[-1] if self.handlers else []))
            pre = g.new("join", tag="try")
            self.connect(ins, pre)
            o = self.stmts(st.body, [(pre, None)])
            self.handlers.pop()
            o = self.stmts(st.orelse, o) if st.orelse else o
            outs = list(o)
            for h, hn in zip(st.handlers, hentries):
                outs += self.stmts(h.body, [(hn, None)])
            if st.finalbody:
                outs = self.stmts(st.finalbody, outs)
            return outs
        if isinstance(st, (ast.With, ast.AsyncWith)):
            n = g.new("stmt", st)
            self.connect(ins, n)
            self._exc_edges(n)
            o = self.stmts(st.body, [(n, None)])
            # contextlib.suppress(...) may skip the rest of the body
            if any("suppress" in unparse(i.context_expr) for i in st.items):
                o = o + [(n, "suppressed")]
            return o
        if isinstance(st, ast.Return):
            n = g.new("stmt", st)
            self.connect(ins, n)
            self._exc_edges(n)
            g.edge(n, g.exit)
            return []
        if isinstance(st, ast.Raise):
            n = g.new("stmt", st)
            self.connect(ins, n)
            if self.handlers:
                self._exc_edges(n)
            g.edge(n, g.raise_exit)
            return []
        if isinstance(st, ast.Break):
            n = g.new("stmt", st)
            self.connect(ins, n)
            if not self.loops:
                ex = g.extra_exits.setdefault("break", g.new("exit", tag="break"))
                g.edge(n, ex, "break")
            else:
                g.edge(n, self.loops[-1][1], "break")
            return []
        if isinstance(st, ast.Continue):
            n = g.new("stmt", st)
            self.connect(ins, n)
            if not self.loops:
                ex = g.extra_exits.setdefault("continue", g.new("exit", tag="continue"))
                g.edge(n, ex, "continue")
            else:
                g.edge(n, self.loops[-1][0], "continue")
            return []
        if isinstance(st, ast.Match):
            raise AnalysisError("match statement not supported by the CFG builder")
        # simple statement (incl. nested def/class, assert, assignments, expr)
        n = g.new("stmt", st)
        self.connect(ins, n)
        self._exc_edges(n)
        return [(n, None)]


def build(stmts):
    """CFG of a function body (list of statements)."""
    g = CFG()
    b = _Builder(g)
    outs = b.stmts(stmts, [(g.entry, None)])
    for n, lab in outs:
        g.edge(n, g.exit, lab)
    return g


def build_func(func):
    return build(func.node.body)


def build_region(stmts):
    """CFG of a loop body analysed as a region: falling off the end goes to the
    'next' exit (= next iteration); `continue` -> 'continue' exit; `break` -> 'break'
    exit; return/raise as usual."""
    g = CFG()
    b = _Builder(g)
    nxt = g.extra_exits.setdefault("next", g.new("exit", tag="next"))
    outs = b.stmts(stmts, [(g.entry, None)])
    for n, lab in outs:
        g.edge(n, nxt, lab)
    return g
