"""Testing the checkers both ways (DESIGN section 8).

Each entry of pgv.mutants.MUTANTS is one small edit of the analysed source:
  kind 'fault'  -- must make rule `expect` report a violation (still compiles);
  kind 'benign' -- behaviour-preserving refactor: no violation, no analysis error.
Seeded changes kept under /verif/seeded/<id>/ (written by independent sub-agents,
confirmed by hand) are run the same way from their patch.diff.

The edit is applied to a scratch copy of /repo/parglare in a temp dir (removed
afterwards); the property's quick rules are run against the copy.  Nothing of the
copy is executed -- only `compile()` to make sure it is still valid Python.
"""
from __future__ import annotations

import json
import multiprocessing
import os
import shutil
import subprocess
import sys
import tempfile
import time

from .core import DEFAULT_ROOT, VERIF


# whole-tree behaviour-preserving transformations (tools/benign_rename.py, benign_transform.py)
WHOLE_TREE = ("rename-locals", "invert-if", "add-logging", "pass-stmts", "nest-and", "expand-aug", "rename-private", "annotate")


def _load_mutants():
    from . import mutants

    return mutants.MUTANTS


def _seeded():
    out = []
    d = os.path.join(VERIF, "seeded")
    if not os.path.isdir(d):
        return out
    for name in sorted(os.listdir(d)):
        meta_p = os.path.join(d, name, "meta.json")
        patch_p = os.path.join(d, name, "patch.diff")
        if os.path.exists(meta_p) and os.path.exists(patch_p):
            with open(meta_p) as f:
                meta = json.load(f)
            out.append(
                {
                    "id": f"seeded/{name}",
                    "prop": meta["property"],
                    "patch": patch_p,
                    "kind": "benign" if meta.get("now_benign") else ("fault" if meta.get("detected_by") else "missed"),
                    "expect": meta.get("detected_by"),
                    "also_props": meta.get("also_detected_by_properties", []),
                    "note": meta.get("summary", ""),
                }
            )
    return out


def _normalize(s):
    return " ".join(s.split())


def apply_edit(root, m):
    if m.get("transform") == "rename-locals":
        p = subprocess.run(
            [sys.executable, os.path.join(VERIF, "tools", "benign_rename.py"), root, "_rn", root],
            capture_output=True, text=True,
        )
        if p.returncode != 0:
            return f"rename transformation failed: {p.stderr[-200:]}"
        return None
    if m.get("transform") in WHOLE_TREE:
        p = subprocess.run(
            [sys.executable, os.path.join(VERIF, "tools", "benign_transform.py"), root, m["transform"], root],
            capture_output=True, text=True,
        )
        if p.returncode != 0:
            return f"{m['transform']} transformation failed: {p.stderr[-200:]}"
        return None
    if "lines" in m:
        rel, a, b, repl = m["lines"]
        path = os.path.join(root, rel)
        with open(path, encoding="utf-8") as f:
            src = f.read().split("\n")
        src[a - 1:b] = repl
        text = "\n".join(src)
        try:
            compile(text, path, "exec")
        except SyntaxError as e:
            return f"edit does not compile: {e}"
        with open(path, "w", encoding="utf-8") as f:
            f.write(text)
        return None
    if "patch" in m:
        p = subprocess.run(
            ["patch", "-p1", "-s", "--no-backup-if-mismatch", "-d", root, "-i", m["patch"]],
            capture_output=True,
            text=True,
        )
        if p.returncode != 0:
            return f"patch does not apply: {p.stdout.strip()} {p.stderr.strip()}"[:300]
        return None
    path = os.path.join(root, m["file"])
    with open(path, encoding="utf-8") as f:
        src = f.read()
    edits = m.get("edits") or [(m["old"], m["new"])]
    for old, new in edits:
        n = src.count(old)
        want = m.get("count", 1)
        if n != want:
            return f"locator no longer applies ({n} matches, expected {want}): {old[:60]!r}"
        src = src.replace(old, new)
    try:
        compile(src, path, "exec")
    except SyntaxError as e:
        return f"edit does not compile: {e}"
    with open(path, "w", encoding="utf-8") as f:
        f.write(src)
    return None


def run_one(m):
    """Returns dict(id, verdict, fired, errors, ...)"""
    from . import runner as pgvmain
    t0 = time.time()
    tmp = tempfile.mkdtemp(prefix="pgv-mut-")
    try:
        shutil.copytree(
            os.path.join(DEFAULT_ROOT, "parglare"),
            os.path.join(tmp, "parglare"),
            ignore=shutil.ignore_patterns("__pycache__", "*.pyc", "*.pgc"),
        )
        err = apply_edit(tmp, m)
        if not err and os.environ.get("PGV_SELFCHECK_RENAME") == "1" and not m.get("transform"):
            # experiment: every variant additionally has all its locals renamed
            err = apply_edit(tmp, {"transform": "rename-locals"})
        if err:
            return {"id": m["id"], "prop": m["prop"], "kind": m["kind"], "verdict": "skipped", "why": err}
        os.environ["PGV_EVIDENCE"] = os.path.join(tmp, "evidence.json")
        props = [m["prop"]] + list(m.get("also_props", []))
        fired, errors = [], []
        for prop in props:
            code, rep = pgvmain.run_check(prop, "quick", tmp, quiet=True)
            ledger_open = {
                (e.get("rule"), e.get("construct"))
                for e in rep.load_ledger().get("open", [])
                if e.get("property") == prop
            }
            for r in rep.rules:
                for v in r.violations:
                    if (v["rule"], v["construct"]) not in ledger_open:
                        fired.append((prop, v["rule"], v["construct"], v["message"][:200]))
                if r.error:
                    errors.append((prop, r.rule_id, r.error[:200]))
        res = {
            "id": m["id"],
            "prop": m["prop"],
            "kind": m["kind"],
            "expect": m.get("expect"),
            "fired": fired,
            "errors": errors,
            "wall_s": round(time.time() - t0, 2),
        }
        if m["kind"] == "fault":
            exp = m.get("expect")
            hit = [f for f in fired if exp is None or f[1] == exp or (isinstance(exp, list) and f[1] in exp)]
            res["verdict"] = "detected" if hit else ("analysis-error" if errors else "MISSED")
        elif m["kind"] == "benign":
            res["verdict"] = "silent" if not fired and not errors else (
                "FALSE-ALARM" if fired else "analysis-error"
            )
        else:  # 'missed': a seeded change known to be out of reach; just record
            res["verdict"] = "detected" if fired else "not-detected(documented)"
        return res
    finally:
        shutil.rmtree(tmp, ignore_errors=True)
        os.environ.pop("PGV_EVIDENCE", None)


def run_many(ms, jobs=None):
    jobs = jobs or min(16, max(1, len(ms)))
    if not ms:
        return []
    if jobs == 1 or len(ms) == 1:
        return [run_one(m) for m in ms]
    with multiprocessing.Pool(jobs) as pool:
        return pool.map(run_one, ms)


def summarize(results):
    bad = 0
    for r in results:
        v = r["verdict"]
        flag = ""
        if v in ("MISSED", "FALSE-ALARM") or (v == "analysis-error"):
            flag = "  <<<"
            bad += 1
        first = ""
        if r.get("fired"):
            f = r["fired"][0]
            first = f"{f[1]} {f[2]}"
        elif r.get("errors"):
            first = "ERR " + r["errors"][0][2][:100]
        elif r.get("why"):
            first = r["why"]
        print(f"  selfcheck {r['id']:<44} {r['kind']:<7} {v:<24} {first}{flag}")
    return bad


def run_for_property(prop, rep=None):
    """thorough tier: the property's seeded faults / benign refactors on top of the
    current tree.  Appends the outcome to the evidence file.  Returns 0, or 2 if a
    fault is not detected / a refactor is not silent (checker broken, never VIOLATION)."""
    ms = [m for m in _load_mutants() + _seeded() if m["prop"] == prop]
    for tr in WHOLE_TREE:
        ms.append({"id": f"{prop}.b-{tr}", "prop": prop, "kind": "benign", "transform": tr})
    clean_fires = rep is not None and any(r.violations or r.error for r in rep.rules)
    t0 = time.time()
    if clean_fires:
        ledger_open = {
            (e.get("rule"), e.get("construct"))
            for e in rep.load_ledger().get("open", [])
            if e.get("property") == prop
        }
        unlisted = [
            v for r in rep.rules for v in r.violations
            if (v["rule"], v["construct"]) not in ledger_open
        ] + [r for r in rep.rules if r.error]
        if unlisted:
            print(f"  selfcheck skipped for {prop}: the current tree already violates / cannot be analysed")
            _augment(prop, {"skipped": "current tree fires", "variants": 0})
            return 0
    results = run_many(ms)
    bad = summarize(results)
    n_fault = sum(1 for r in results if r["kind"] == "fault" and r["verdict"] != "skipped")
    n_ben = sum(1 for r in results if r["kind"] == "benign" and r["verdict"] != "skipped")
    print(
        f"  selfcheck {prop}: {len(results)} variants, faults detected "
        f"{sum(1 for r in results if r['verdict'] == 'detected' and r['kind'] == 'fault')}/{n_fault}, refactors silent "
        f"{sum(1 for r in results if r['verdict'] == 'silent')}/{n_ben}, "
        f"skipped {sum(1 for r in results if r['verdict'] == 'skipped')}, wall {time.time() - t0:.1f}s"
    )
    _augment(
        prop,
        {
            "variants": len(results),
            "faults": n_fault,
            "refactors": n_ben,
            "results": [
                {k: r.get(k) for k in ("id", "kind", "verdict", "expect", "why")}
                | {"fired": [f"{f[1]}:{f[2]}" for f in r.get("fired", [])][:3]}
                for r in results
            ],
            "wall_s": round(time.time() - t0, 2),
        },
    )
    if bad:
        print(f"ANALYSIS-ERROR property={prop}: self-validation of the checker failed for {bad} variant(s)")
        return 2
    return 0


def _augment(prop, data):
    path = os.path.join(VERIF, "evidence", f"{prop}.json")
    try:
        with open(path) as f:
            ev = json.load(f)
    except Exception:
        return
    ev["coverage"]["selfcheck"] = data
    ev["coverage"]["evaluations"] = ev["coverage"].get("evaluations", 0) + data.get("variants", 0)
    with open(path, "w") as f:
        json.dump(ev, f, indent=1)


def main(args):
    jobs = None
    props = []
    ids = []
    i = 0
    while i < len(args):
        if args[i] == "-j":
            jobs = int(args[i + 1])
            i += 2
        elif args[i] == "--id":
            ids.append(args[i + 1])
            i += 2
        else:
            props.append(args[i])
            i += 1
    ms = _load_mutants() + _seeded()
    ms += [
        {"id": f"C{i:02d}.b-{tr}", "prop": f"C{i:02d}", "kind": "benign", "transform": tr}
        for i in range(1, 21) for tr in WHOLE_TREE
    ]
    if props:
        ms = [m for m in ms if m["prop"] in props]
    if ids:
        ms = [m for m in ms if any(x in m["id"] for x in ids)]
    t0 = time.time()
    results = run_many(ms, jobs)
    bad = summarize(results)
    print(f"selfcheck: {len(results)} variants, {bad} problem(s), wall {time.time() - t0:.1f}s")
    return 2 if bad else 0
