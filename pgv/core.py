"""E0 -- source model, anchors, report / evidence / ledger plumbing.

Everything in pgv reads the *source text* of the analysed tree (default /repo) and
never imports or executes it.
"""
from __future__ import annotations

import ast
import copy
import json
import os
import sys
import time
import traceback
from contextlib import contextmanager

VERIF = os.path.dirname(os.path.dirname(os.path.abspath(__file__)))
DEFAULT_ROOT = os.environ.get("PGV_ROOT", "/repo")

PKG_FILES = [
    "parglare/__init__.py",
    "parglare/actions.py",
    "parglare/cli.py",
    "parglare/closure.py",
    "parglare/common.py",
    "parglare/exceptions.py",
    "parglare/export.py",
    "parglare/glr.py",
    "parglare/grammar.py",
    "parglare/parser.py",
    "parglare/termui.py",
    "parglare/trees.py",
    "parglare/tables/__init__.py",
    "parglare/tables/persist.py",
]


class AnalysisError(Exception):
    """The analysis could not be carried out (vanished anchor, unknown idiom,
    floor missed).  Never a verdict about the code."""


class _AtStripper(ast.NodeTransformer):
    def visit_Call(self, node):
        self.generic_visit(node)
        if isinstance(node.func, ast.Name) and node.func.id == "__at" and len(node.args) == 2:
            return node.args[1]
        return node


def strip_at_deep(expr):
    """copy of expr with every snapshot marker removed"""
    return _AtStripper().visit(clone(expr))


def plain(expr):
    """text of an expression without snapshot markers"""
    return unparse(strip_at_deep(expr))


class UnknownAtom(AnalysisError):
    """A condition the rule's classifier does not know.  Decision-table rules treat
    it as a *free* boolean: both outcomes are explored and each must agree with the
    specification (so a guard that does not change the outcome is harmless, one that
    does is reported as a dependency on an undocumented condition)."""


# --------------------------------------------------------------------------- AST helpers


def unparse(node):
    if node is None:
        return "None"
    if isinstance(node, list):
        return "; ".join(unparse(n) for n in node)
    try:
        return ast.unparse(node)
    except Exception:  # pragma: no cover
        return ast.dump(node)


def clone(node):
    """Structural copy of an AST (fields and positions only; no pgv annotations)."""
    if isinstance(node, list):
        return [clone(n) for n in node]
    if not isinstance(node, ast.AST):
        return node
    new = node.__class__()
    for f in node._fields:
        if hasattr(node, f):
            setattr(new, f, clone(getattr(node, f)))
    for a in ("lineno", "col_offset", "end_lineno", "end_col_offset"):
        if hasattr(node, a):
            setattr(new, a, getattr(node, a))
    org = getattr(node, "_pgv_origin", None) or (node if hasattr(node, "_pgv_module") else None)
    if org is not None:
        new._pgv_origin = org
    return new


def at_wrap(expr, epoch):
    """Mark `expr` as a snapshot taken after `epoch` effects (see interp)."""
    return ast.Call(
        func=ast.Name(id="__at", ctx=ast.Load()),
        args=[ast.Constant(value=epoch), expr],
        keywords=[],
    )


def strip_at(expr):
    """(expr, epoch or None) with a top-level snapshot marker removed."""
    if (
        isinstance(expr, ast.Call)
        and isinstance(expr.func, ast.Name)
        and expr.func.id == "__at"
        and len(expr.args) == 2
    ):
        inner, _ = strip_at(expr.args[1])
        return inner, expr.args[0].value
    return expr, None


def origin(node):
    """The node of the analysed source a (possibly cloned/substituted) node came from."""
    return getattr(node, "_pgv_origin", None) or node


def set_parents(tree):
    for node in ast.walk(tree):
        for child in ast.iter_child_nodes(node):
            child._pgv_parent = node
    tree._pgv_parent = None


def parent(node):
    return getattr(node, "_pgv_parent", None)


def ancestors(node):
    p = parent(node)
    while p is not None:
        yield p
        p = parent(p)


def walk_no_nested(node, include_self=True):
    """Pre-order walk that does not descend into nested def/class/lambda bodies
    (the nested node itself is yielded)."""
    todo = [node]
    while todo:
        n = todo.pop()
        if n is not node or include_self:
            yield n
        if n is not node and isinstance(
            n, (ast.FunctionDef, ast.AsyncFunctionDef, ast.ClassDef, ast.Lambda)
        ):
            continue
        todo.extend(reversed(list(ast.iter_child_nodes(n))))


def walk_stmts(stmts):
    for s in stmts:
        yield from walk_no_nested(s)


def calls_in(node, nested=False):
    it = ast.walk(node) if nested else walk_no_nested(node)
    return [n for n in it if isinstance(n, ast.Call)]


def call_name(call):
    """'f' for f(...), 'm' for x.m(...), else None."""
    f = call.func
    if isinstance(f, ast.Name):
        return f.id
    if isinstance(f, ast.Attribute):
        return f.attr
    return None


def dotted(node):
    """'a.b.c' for Name/Attribute chains, else None."""
    parts = []
    while isinstance(node, ast.Attribute):
        parts.append(node.attr)
        node = node.value
    if isinstance(node, ast.Name):
        parts.append(node.id)
        return ".".join(reversed(parts))
    return None


def is_name(node, name):
    return isinstance(node, ast.Name) and node.id == name


def is_self_attr(node, attr=None):
    return (
        isinstance(node, ast.Attribute)
        and isinstance(node.value, ast.Name)
        and node.value.id == "self"
        and (attr is None or node.attr == attr)
    )


def const_value(node, default=None):
    if isinstance(node, ast.Constant):
        return node.value
    return default


def names_in(node):
    return {n.id for n in ast.walk(node) if isinstance(n, ast.Name)}


def attrs_in(node):
    return {n.attr for n in ast.walk(node) if isinstance(n, ast.Attribute)}


def stmt_of(node):
    """Innermost enclosing statement of an expression node."""
    n = node
    while n is not None and not isinstance(n, ast.stmt):
        n = parent(n)
    return n


def enclosing_func(node):
    for a in ancestors(node):
        if isinstance(a, (ast.FunctionDef, ast.AsyncFunctionDef)):
            return a
    return None


def norm_text(node):
    """Normalised statement text used for keying findings (never line numbers)."""
    return " ".join(unparse(node).split())


# --------------------------------------------------------------------------- source model


class Func:
    def __init__(self, module, node, cls=None, outer=None):
        self.module = module
        self.node = node
        self.cls = cls  # Class or None
        self.outer = outer  # enclosing Func or None
        self.name = node.name
        q = node.name
        if cls is not None:
            q = f"{cls.name}.{q}"
        if outer is not None:
            q = f"{outer.qual_in_module}.<locals>.{node.name}"
        self.qual_in_module = q
        self.qual = f"{module.name}.{q}"

    @property
    def body(self):
        return self.node.body

    @property
    def params(self):
        a = self.node.args
        return [x.arg for x in a.posonlyargs + a.args + a.kwonlyargs]

    def loc(self, node=None):
        return self.module.loc(node or self.node)

    def __repr__(self):
        return f"<Func {self.qual}>"


class Class:
    def __init__(self, module, node):
        self.module = module
        self.node = node
        self.name = node.name
        self.qual = f"{module.name}.{node.name}"
        self.methods = {}
        self.base_names = [dotted(b) or unparse(b) for b in node.bases]
        self.bases = []  # resolved Class objects

    def mro(self):
        out, todo = [], [self]
        while todo:
            c = todo.pop(0)
            if c in out:
                continue
            out.append(c)
            todo.extend(c.bases)
        return out

    def find_method(self, name):
        for c in self.mro():
            if name in c.methods:
                return c.methods[name]
        return None

    def slots(self):
        for st in self.node.body:
            if isinstance(st, ast.Assign) and any(
                is_name(t, "__slots__") for t in st.targets
            ):
                if isinstance(st.value, (ast.List, ast.Tuple)):
                    return [const_value(e) for e in st.value.elts]
        return None


class Module:
    def __init__(self, repo, relpath):
        self.repo = repo
        self.relpath = relpath
        self.path = os.path.join(repo.root, relpath)
        name = relpath[:-3].replace("/", ".")
        if name.endswith(".__init__"):
            name = name[: -len(".__init__")]
        self.name = name
        with open(self.path, encoding="utf-8") as f:
            self.source = f.read()
        try:
            self.tree = ast.parse(self.source, filename=self.path)
        except SyntaxError as e:
            raise AnalysisError(f"{relpath} does not parse: {e}") from e
        from . import canon

        if getattr(repo, "private_map", None):
            from . import alpha as _alpha

            _alpha.apply_private_map(self.tree, repo.private_map)
        self.tree = canon.canonicalise(self.tree)
        if getattr(repo, "summaries", None) is not None and relpath in getattr(repo, "_ref_trees", {}):
            from . import equiv

            try:
                if not hasattr(repo, "_ref_canon"):
                    repo._ref_canon = {}
                if relpath not in repo._ref_canon:
                    repo._ref_canon[relpath] = canon.canonicalise(clone(repo._ref_trees[relpath]))
                ref = repo._ref_canon[relpath]
                rep_ = equiv.substitute_equivalents(self.tree, ref, repo.summaries, canon=lambda n: canon.canonicalise(n))
                repo.equivalence.update({f"{relpath}:{k}": v for k, v in rep_.items()})
            except Exception as e:  # noqa: BLE001 -- best effort: without it the function is analysed as written
                repo.equivalence[f"{relpath}:<error>"] = repr(e)[:200]
        self.alpha = {}
        if os.environ.get("PGV_NO_ALPHA") != "1":
            from . import alpha

            self.alpha = alpha.normalise_module(self.tree, relpath)
        set_parents(self.tree)
        for n in ast.walk(self.tree):
            n._pgv_module = self
        self.funcs = {}
        self.classes = {}
        self.imports = {}  # local name -> dotted origin
        self.globals_assigned = {}
        self._index()

    def _index(self):
        for st in self.tree.body:
            self._index_stmt(st)
        # imports anywhere (function-level imports matter for resolution too)
        for n in ast.walk(self.tree):
            if isinstance(n, ast.ImportFrom) and n.module:
                mod = n.module
                if n.level:
                    base = self.name.split(".")
                    if not self.relpath.endswith("__init__.py"):
                        base = base[:-1]
                    base = base[: len(base) - (n.level - 1)]
                    mod = ".".join(base + ([n.module] if n.module else []))
                for a in n.names:
                    self.imports[a.asname or a.name] = f"{mod}.{a.name}"
            elif isinstance(n, ast.Import):
                for a in n.names:
                    self.imports[a.asname or a.name.split(".")[0]] = a.name

    def _index_stmt(self, st, cls=None, outer=None):
        if isinstance(st, (ast.FunctionDef, ast.AsyncFunctionDef)):
            f = Func(self, st, cls=cls, outer=outer)
            if outer is None:
                if cls is not None:
                    cls.methods[st.name] = f
                else:
                    self.funcs[st.name] = f
            self.repo._all_funcs.append(f)
            st._pgv_func = f
            for n in walk_no_nested(st, include_self=True):
                if n is st:
                    continue
                if isinstance(n, (ast.FunctionDef, ast.AsyncFunctionDef)):
                    self._index_stmt(n, cls=None, outer=f)
        elif isinstance(st, ast.ClassDef) and outer is None and cls is None:
            c = Class(self, st)
            self.classes[st.name] = c
            for s in st.body:
                self._index_stmt(s, cls=c)
        elif isinstance(st, ast.Assign) and cls is None and outer is None:
            for t in st.targets:
                for n in ast.walk(t):
                    if isinstance(n, ast.Name):
                        self.globals_assigned[n.id] = st
        elif isinstance(st, (ast.If, ast.Try, ast.With)) and cls is None and outer is None:
            for s in ast.iter_child_nodes(st):
                if isinstance(s, ast.stmt):
                    self._index_stmt(s)

    def loc(self, node):
        return f"{self.relpath}:{getattr(node, 'lineno', '?')}"


class Repo:
    def __init__(self, root=None):
        self.root = root or DEFAULT_ROOT
        self._all_funcs = []
        self.consulted = set()  # functions the rules of this run asked for / located results in
        self.private_map = {}
        if os.environ.get("PGV_NO_ALPHA") != "1":
            from . import alpha

            cur = {}
            for rel in PKG_FILES:
                p = os.path.join(self.root, rel)
                if os.path.exists(p):
                    try:
                        with open(p, encoding="utf-8") as f:
                            cur[rel] = ast.parse(f.read())
                    except SyntaxError:
                        pass
            try:
                self._ref_trees = alpha.load_reference_trees()
                self.private_map = alpha.private_name_map(cur, self._ref_trees)
            except Exception:  # noqa: BLE001 -- normalisation is best effort, never a verdict
                self.private_map = {}
                self._ref_trees = {}
            self.summaries = None
            if os.environ.get("PGV_NO_EQUIV") != "1":
                try:
                    from . import equiv

                    self.summaries = equiv.Summaries(list(cur.values()))
                    # private methods that exist nowhere in the reference and whose name is unique in the package: a call
                    # `self.<name>(..)` reaches that definition from any module (a base-class helper used by a subclass)
                    ref_names = {n.name for t in self._ref_trees.values() for n in ast.walk(t) if isinstance(n, (ast.FunctionDef, ast.AsyncFunctionDef))}
                    count, where = {}, {}
                    for rel_, t in cur.items():
                        for c in t.body:
                            if isinstance(c, ast.ClassDef):
                                for m_ in c.body:
                                    if isinstance(m_, ast.FunctionDef):
                                        count[m_.name] = count.get(m_.name, 0) + 1
                                        where[m_.name] = (rel_, m_)
                            elif isinstance(c, ast.FunctionDef):
                                count[c.name] = count.get(c.name, 0) + 1
                    self.summaries.foreign_helpers = {
                        ("self", n): where[n] for n in where
                        if count[n] == 1 and n.startswith("_") and not n.endswith("__") and self.private_map.get(n, n) not in ref_names}
                except Exception:  # noqa: BLE001
                    self.summaries = None
            self.equivalence = {}
        self.modules = {}
        self.files = []
        for rel in PKG_FILES:
            p = os.path.join(self.root, rel)
            if not os.path.exists(p):
                if rel in ("parglare/cli.py", "parglare/export.py", "parglare/termui.py"):
                    continue
                raise AnalysisError(f"source file vanished: {rel}")
            m = Module(self, rel)
            self.modules[m.name] = m
            self.files.append(rel)
        # resolve bases
        for m in self.modules.values():
            for c in m.classes.values():
                for b in c.base_names:
                    rc = self.resolve_class(m, b)
                    if rc is not None:
                        c.bases.append(rc)

    # -- lookup
    def module(self, name):
        try:
            return self.modules[name]
        except KeyError:
            raise AnalysisError(f"module vanished: {name}") from None

    def resolve_class(self, module, name):
        if name is None:
            return None
        if name in module.classes:
            return module.classes[name]
        origin = module.imports.get(name.split(".")[0])
        if origin:
            parts = origin.split(".")
            for i in range(len(parts), 0, -1):
                modname = ".".join(parts[:i])
                if modname in self.modules:
                    rest = parts[i:] + name.split(".")[1:]
                    m2 = self.modules[modname]
                    if len(rest) == 1:
                        if rest[0] in m2.classes:
                            return m2.classes[rest[0]]
                        # re-exported (parglare/__init__.py)
                        if rest[0] in m2.imports and m2 is not module:
                            return self.resolve_class(m2, rest[0])
                    break
        return None

    def cls(self, qual):
        modname, _, cname = qual.rpartition(".")
        m = self.module(modname)
        if cname not in m.classes:
            raise AnalysisError(f"class vanished: {qual}")
        return m.classes[cname]

    def func(self, qual, required=True):
        """'parglare.glr.GLRParser._reduce' or 'parglare.tables.first'.  A method
        moved to a base class of the same hierarchy is still found (MRO)."""
        f = self._func(qual, required)
        if f is not None:
            self.consulted.add(f)
        return f

    def _func(self, qual, required=True):
        parts = qual.split(".")
        for i in range(len(parts) - 1, 0, -1):
            modname = ".".join(parts[:i])
            if modname in self.modules:
                m = self.modules[modname]
                rest = parts[i:]
                if len(rest) == 1 and rest[0] in m.funcs:
                    return m.funcs[rest[0]]
                if len(rest) == 2 and rest[0] in m.classes:
                    f = m.classes[rest[0]].find_method(rest[1])
                    if f is not None:
                        return f
                if len(rest) == 2 and rest[0] in m.funcs:
                    # nested function  outer.inner
                    outer = m.funcs[rest[0]]
                    for f in self._all_funcs:
                        if f.outer is outer and f.name == rest[1]:
                            return f
                if len(rest) == 3 and rest[0] in m.classes:
                    outer = m.classes[rest[0]].find_method(rest[1])
                    if outer is not None:
                        for f in self._all_funcs:
                            if f.outer is outer and f.name == rest[2]:
                                return f
                break
        if required:
            raise AnalysisError(f"anchor vanished: {qual}")
        return None

    def all_funcs(self):
        return list(self._all_funcs)

    def func_of(self, node):
        fn = enclosing_func(node) if not isinstance(node, ast.FunctionDef) else node
        return getattr(fn, "_pgv_func", None) if fn is not None else None

    def loc(self, node):
        m = getattr(node, "_pgv_module", None)
        if m is None:
            return "?:?"
        return m.loc(node)

    def global_const(self, modname, name):
        m = self.module(modname)
        st = m.globals_assigned.get(name)
        if st is None:
            raise AnalysisError(f"global vanished: {modname}.{name}")
        if isinstance(st.value, ast.Constant):
            return st.value.value
        return st.value


# --------------------------------------------------------------------------- report


class RuleCtx:
    def __init__(self, report, rule_id, desc):
        self.report = report
        self.rule_id = rule_id
        self.desc = desc
        self.obligations = 0
        self.discharged = 0
        self.samples = []
        self.violations = []
        self.notes = []
        self.error = None
        self.facts = {}

    def _consult(self, node):
        if node is not None and self.report.repo is not None:
            try:
                f = self.report.repo.func_of(node)
            except Exception:  # noqa: BLE001 -- synthetic nodes have no home
                f = None
            if f is not None:
                self.report.repo.consulted.add(f)

    def ok(self, instance, detail=None, node=None):
        self._consult(node)
        self.obligations += 1
        self.discharged += 1
        if len(self.samples) < 6:
            s = {"instance": instance, "verdict": "holds"}
            if detail is not None:
                s["detail"] = detail
            if node is not None:
                s["at"] = self.report.repo.loc(node)
            self.samples.append(s)

    def violation(self, construct, message, node=None, detail=None):
        """A definite violation, keyed by (rule, construct)."""
        self._consult(node)
        self.obligations += 1
        v = {
            "property": self.report.prop,
            "rule": self.rule_id,
            "construct": construct,
            "message": message,
            "at": self.report.repo.loc(node) if node is not None else None,
        }
        if detail is not None:
            v["detail"] = detail
        self.violations.append(v)

    def check(self, cond, instance, construct, message, node=None, detail=None):
        if cond:
            self.ok(instance, detail, node)
        else:
            self.violation(construct, message, node, detail)
        return cond

    def note(self, text, node=None):
        self.notes.append(
            {"note": text, "at": self.report.repo.loc(node) if node is not None else None}
        )

    def fact(self, key, value):
        self.facts[key] = value

    def floor(self, what, found, minimum):
        self.facts[f"floor:{what}"] = {"found": found, "minimum": minimum}
        if found < minimum:
            raise AnalysisError(
                f"instance floor missed for {what}: found {found}, confirmed by hand {minimum}"
            )

    def need(self, cond, msg):
        if not cond:
            raise AnalysisError(msg)


class Report:
    def __init__(self, prop, tier="quick", root=None):
        self.prop = prop
        self.tier = tier
        self.t0 = time.time()
        self.rules = []
        self.repo_error = None
        try:
            self.repo = Repo(root)
        except AnalysisError as e:
            self.repo = None
            self.repo_error = str(e)
        self.assumptions = []
        self.explanation = ""
        self.extra = {}

    @contextmanager
    def rule(self, rule_id, desc):
        ctx = RuleCtx(self, rule_id, desc)
        self.rules.append(ctx)
        try:
            yield ctx
        except AnalysisError as e:
            ctx.error = str(e)
        except Exception as e:  # internal error => analysis error, never a verdict
            ctx.error = f"internal error: {type(e).__name__}: {e}"
            ctx.trace = traceback.format_exc()

    # -- ledger
    @staticmethod
    def load_ledger():
        p = os.path.join(VERIF, "known_findings.json")
        if not os.path.exists(p):
            return {"open": [], "fixed": []}
        with open(p) as f:
            return json.load(f)

    def finish(self, quiet=False):
        ledger = self.load_ledger()
        open_entries = [e for e in ledger.get("open", []) if e.get("property") == self.prop]
        seen_open = set()
        seen_unlisted = set()
        unlisted = []
        known = []
        out = []
        P = out.append
        n_obl = n_dis = 0
        errors = []
        if self.repo_error:
            errors.append(("source", self.repo_error))
        for r in self.rules:
            n_obl += r.obligations
            n_dis += r.discharged
            status = "ok"
            if r.error:
                status = "ANALYSIS-ERROR"
                errors.append((r.rule_id, r.error))
            elif r.violations:
                status = "FIRES"
            P(f"[{self.prop}] {r.rule_id:<28} {status:<14} {r.discharged}/{r.obligations}  {r.desc}")
            if r.error:
                P(f"    ANALYSIS-ERROR rule={r.rule_id}: {r.error}")
                if getattr(r, "trace", None) and os.environ.get("PGV_TRACE"):
                    P(r.trace)
            for v in r.violations:
                key = (v["rule"], v["construct"])
                entry = next(
                    (
                        e
                        for e in open_entries
                        if e.get("rule") == v["rule"] and e.get("construct") == v["construct"]
                    ),
                    None,
                )
                if entry is not None:
                    if key not in seen_open:
                        seen_open.add(key)
                        known.append((v, entry))
                elif key not in seen_unlisted:
                    seen_unlisted.add(key)
                    unlisted.append(v)
                P(f"    {v['at'] or '-'}  {v['rule']}  {v['construct']}  {v['message']}")
            for n in r.notes:
                P(f"    note {n['at'] or '-'}: {n['note']}")
        for v, entry in known:
            P(f"KNOWN-FINDING: property={self.prop} {entry.get('what', v['message'])} "
              f"[rule={v['rule']} construct={v['construct']}]")
        for e in open_entries:
            if (e.get("rule"), e.get("construct")) not in seen_open and not errors:
                P(f"RESOLVED-FINDING: property={self.prop} rule={e.get('rule')} "
                  f"construct={e.get('construct')} is listed as open but was not observed")
        vdir = os.path.join(VERIF, "evidence", "violations")
        if os.environ.get("PGV_EVIDENCE"):
            vdir = os.environ["PGV_EVIDENCE"] + ".violations"
        replay_paths = []
        if unlisted:
            os.makedirs(vdir, exist_ok=True)
            for i, v in enumerate(unlisted):
                path = os.path.join(vdir, f"{self.prop}-{i + 1}.json")
                with open(path, "w") as f:
                    json.dump(v, f, indent=1, sort_keys=True)
                replay_paths.append(path)
                P(f"VIOLATION property={self.prop} replay={path}")
        for rid, e in errors:
            P(f"ANALYSIS-ERROR property={self.prop} rule={rid}: {e}")
        wall = time.time() - self.t0
        code = 1 if unlisted else (2 if errors else 0)
        self._write_evidence(n_obl, n_dis, unlisted, known, errors, wall)
        if not quiet:
            print("\n".join(out))
            print(
                f"[{self.prop}] tier={self.tier} rules={len(self.rules)} obligations={n_obl} "
                f"discharged={n_dis} violations={len(unlisted)} known={len(known)} "
                f"analysis_errors={len(errors)} wall={wall:.2f}s exit={code}"
            )
        return code

    def _write_evidence(self, n_obl, n_dis, unlisted, known, errors, wall):
        samples = []
        for r in self.rules:
            samples.append(
                {
                    "rule": r.rule_id,
                    "what": r.desc,
                    "obligations": r.obligations,
                    "discharged": r.discharged,
                    "status": "analysis-error" if r.error else ("fires" if r.violations else "holds"),
                    "facts": r.facts,
                    "instances": r.samples[:6],
                    "violations": r.violations[:10],
                    "notes": r.notes[:10],
                    **({"error": r.error} if r.error else {}),
                }
            )
        distinct = len({(r.rule_id, s.get("instance")) for r in self.rules for s in r.samples})
        ev = {
            "property_id": self.prop,
            "tier": self.tier,
            "seed": int(os.environ.get("VERIF_SEED", "0") or 0),
            "level": "other",
            "coverage": {
                "explanation": self.explanation
                or "static analysis of the source tree; see samples for the rules evaluated",
                "obligations": n_obl,
                "discharged": n_dis,
                "evaluations": max(n_obl, 1),
                "distinct_nontrivial": max(distinct, 0),
                "rule": "one evaluation = one rule instance (call site, path, table row, "
                "valuation) located in the current source of the analysed tree; distinct = "
                "distinct (rule, instance) pairs recorded",
                "samples": samples,
                "exhaustive": False,
                "analysed_root": self.repo.root if self.repo else None,
                "files_analysed": self.repo.files if self.repo else [],
                "functions_indexed": len(self.repo.all_funcs()) if self.repo else 0,
                "functions_consulted": sorted(f.qual for f in self.repo.consulted) if self.repo else [],
                "functions_analysed_through_their_reference_twin": sorted(
                    k for k, v in getattr(self.repo, "equivalence", {}).items() if v == "equivalent") if self.repo else [],
                "functions_that_differ_from_the_reference": sorted(
                    k for k, v in getattr(self.repo, "equivalence", {}).items() if v != "equivalent") if self.repo else [],
                "known_findings_observed": [
                    {"rule": v["rule"], "construct": v["construct"]} for v, _ in known
                ],
                "analysis_errors": [{"rule": a, "error": b} for a, b in errors],
                **self.extra,
            },
            "assumptions": self.assumptions,
            "wall_s": round(wall, 3),
            "violations": len(unlisted),
        }
        os.makedirs(os.path.join(VERIF, "evidence"), exist_ok=True)
        path = os.environ.get("PGV_EVIDENCE") or os.path.join(
            VERIF, "evidence", f"{self.prop}.json"
        )
        with open(path, "w") as f:
            json.dump(ev, f, indent=1, sort_keys=False, default=str)
