"""Semantics-preserving canonicalisation of the analysed AST, applied before any rule runs
(and to the reference copy used for alpha-normalisation), so that trivially equivalent
spellings give the same verdict:

* statements that cannot matter to any rule are dropped: `pass` next to other statements and
  pure logging / warning calls (`logging.*`, `logger.*`, `warnings.warn`, `…getLogger(…).x(…)`);
* `if not C: A else: B` (no elif chain) is oriented as `if C: B else: A`.
"""
from __future__ import annotations

import ast

_BLOCKS = ("body", "orelse", "finalbody")


def _is_log_call(st):
    if not (isinstance(st, ast.Expr) and isinstance(st.value, ast.Call)):
        return False
    f = st.value.func
    chain = []
    while isinstance(f, (ast.Attribute, ast.Call)):
        if isinstance(f, ast.Attribute):
            chain.append(f.attr)
            f = f.value
        else:
            f = f.func
    if isinstance(f, ast.Name):
        chain.append(f.id)
    chain = list(reversed(chain))
    if not chain:
        return False
    if chain[0] in ("logging", "logger", "log", "_logger", "LOGGER") and len(chain) >= 2:
        return True
    if chain[0] == "warnings" and chain[-1] == "warn":
        return True
    return False


class _Canon(ast.NodeTransformer):
    def generic_visit(self, node):
        super().generic_visit(node)
        for field in _BLOCKS:
            blk = getattr(node, field, None)
            if isinstance(blk, list) and blk and all(isinstance(s, ast.stmt) for s in blk):
                new = [s for s in blk if not _is_log_call(s)]
                if len(new) > 1:
                    new = [s for s in new if not isinstance(s, ast.Pass)] or [ast.Pass()]
                if not new and field == "body":
                    new = [ast.Pass()]
                setattr(node, field, new)
        return node

    def visit_If(self, node):
        self.generic_visit(node)
        t = node.test
        if (
            node.orelse
            and not (len(node.orelse) == 1 and isinstance(node.orelse[0], ast.If))
            and isinstance(t, ast.UnaryOp) and isinstance(t.op, ast.Not)
        ):
            node.test = t.operand
            node.body, node.orelse = node.orelse, node.body
        return node


def canonicalise(tree):
    tree = _Canon().visit(tree)
    ast.fix_missing_locations(tree)
    return tree
