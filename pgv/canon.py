"""Semantics-preserving canonicalisation of the analysed AST, applied before any rule runs
(and to the reference copy used for alpha-normalisation), so that trivially equivalent
spellings give the same verdict:

* statements that cannot matter to any rule are dropped: `pass` next to other statements and
  pure logging / warning calls (`logging.*`, `logger.*`, `warnings.warn`, `…getLogger(…).x(…)`);
* `if not C: A else: B` (no elif chain) is oriented as `if C: B else: A`;
* `if a: if b: X` (no else on either, nothing else in the outer body, no walrus) is merged into
  `if a and b: X`;
* `x = x + k` / `x = x - k` with an integer-like right operand (an int constant or a `len(...)`
  call) and a plain name or `name.attr` target is written `x += k` / `x -= k` (for such operands
  the two are the same operation; sequences are left alone because `+=` mutates in place);
* annotations are erased: `x: T = v` becomes `x = v`, a bare `x: T` is dropped, parameter and
  return annotations are removed.
"""
from __future__ import annotations

import ast

_BLOCKS = ("body", "orelse", "finalbody")


def _is_log_call(st):
    if not (isinstance(st, ast.Expr) and isinstance(st.value, ast.Call)):
        return False
    f = st.value.func
    chain = []
    while isinstance(f, (ast.Attribute, ast.Call)):
        if isinstance(f, ast.Attribute):
            chain.append(f.attr)
            f = f.value
        else:
            f = f.func
    if isinstance(f, ast.Name):
        chain.append(f.id)
    chain = list(reversed(chain))
    if not chain:
        return False
    if chain[0] in ("logging", "logger", "log", "_logger", "LOGGER") and len(chain) >= 2:
        return True
    if chain[0] == "warnings" and chain[-1] == "warn":
        return True
    return False


class _Canon(ast.NodeTransformer):
    def generic_visit(self, node):
        super().generic_visit(node)
        for field in _BLOCKS:
            blk = getattr(node, field, None)
            if isinstance(blk, list) and blk and all(isinstance(s, ast.stmt) for s in blk):
                new = [s for s in blk if not _is_log_call(s)]
                if len(new) > 1:
                    new = [s for s in new if not isinstance(s, ast.Pass)] or [ast.Pass()]
                if not new and field == "body":
                    new = [ast.Pass()]
                setattr(node, field, new)
        return node

    def visit_If(self, node):
        self.generic_visit(node)
        t = node.test
        if (
            node.orelse
            and not (len(node.orelse) == 1 and isinstance(node.orelse[0], ast.If))
            and isinstance(t, ast.UnaryOp) and isinstance(t.op, ast.Not)
        ):
            node.test = t.operand
            node.body, node.orelse = node.orelse, node.body
        return node


def _intlike(e):
    return (isinstance(e, ast.Constant) and type(e.value) is int) or (
        isinstance(e, ast.Call) and isinstance(e.func, ast.Name) and e.func.id == "len"
    )


class _Canon2(ast.NodeTransformer):
    def visit_If(self, node):
        self.generic_visit(node)
        if (
            not node.orelse and len(node.body) == 1 and isinstance(node.body[0], ast.If) and not node.body[0].orelse
            and not any(isinstance(x, ast.NamedExpr) for x in ast.walk(node.test))
        ):
            inner = node.body[0]
            vals = []
            for t in (node.test, inner.test):
                vals.extend(t.values if isinstance(t, ast.BoolOp) and isinstance(t.op, ast.And) else [t])
            new = ast.If(test=ast.BoolOp(op=ast.And(), values=vals), body=inner.body, orelse=[])
            return ast.copy_location(new, node)
        return node

    def visit_AnnAssign(self, node):
        # `x: T = v` is `x = v` for every rule; a bare declaration `x: T` does nothing at run time
        self.generic_visit(node)
        if node.value is None:
            return ast.copy_location(ast.Pass(), node)
        return self.visit_Assign(ast.copy_location(ast.Assign(targets=[node.target], value=node.value), node))

    def visit_FunctionDef(self, node):
        self.generic_visit(node)
        node.returns = None
        for a in node.args.posonlyargs + node.args.args + node.args.kwonlyargs + [node.args.vararg, node.args.kwarg]:
            if a is not None:
                a.annotation = None
        return node

    visit_AsyncFunctionDef = visit_FunctionDef

    def visit_Assign(self, node):
        self.generic_visit(node)
        if len(node.targets) != 1:
            return node
        t, v = node.targets[0], node.value
        simple = isinstance(t, ast.Name) or (isinstance(t, ast.Attribute) and isinstance(t.value, ast.Name))
        if (
            simple and isinstance(v, ast.BinOp) and isinstance(v.op, (ast.Add, ast.Sub))
            and ast.dump(v.left) == ast.dump(t).replace("ctx=Store()", "ctx=Load()") and _intlike(v.right)
        ):
            return ast.copy_location(ast.AugAssign(target=t, op=v.op, value=v.right), node)
        return node


def canonicalise(tree):
    tree = _Canon2().visit(tree)
    tree = _Canon().visit(tree)
    ast.fix_missing_locations(tree)
    return tree
