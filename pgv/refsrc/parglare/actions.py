"""
Common parsing actions.
"""

import contextlib


def pass_none(_, value, *args):
    return None


def pass_nochange(_, value, *args):
    return value


def pass_empty(_, value, *args):
    """
    Used for EMPTY production alternative in collect.
    """
    return []


def pass_single(_, nodes):
    """
    Unpack single value and pass up.
    """
    return nodes[0]


def pass_inner(_, nodes):
    """
    Pass inner value up, e.g. for stripping parentheses as in
    `( <some expression> )`.
    """
    n = nodes[1:-1]
    with contextlib.suppress(ValueError):
        (n,) = n
    return n


def collect_first(_, nodes):
    """
    Used for:
    Elements = Elements Element;
    """
    e1, e2 = nodes
    if e2 is not None:
        e1 = list(e1)
        e1.append(e2)
    return e1


def collect_first_sep(_, nodes):
    """
    Used for:
    Elements = Elements "," Element;
    """
    e1, _, e2 = nodes
    if e2 is not None:
        e1 = list(e1)
        e1.append(e2)
    return e1


def collect_right_first(_, nodes):
    """
    Used for:
    Elements = Element Elements;
    """
    e1, e2 = [nodes[0]], nodes[1]
    e1.extend(e2)
    return e1


def collect_right_first_sep(_, nodes):
    """
    Used for:
    Elements = Element "," Elements;
    """
    e1, e2 = [nodes[0]], nodes[2]
    e1.extend(e2)
    return e1


# Used for productions of the form - one or more elements:
# Elements: Elements Element | Element;
collect = [collect_first, pass_nochange]

# Used for productions of the form - one or more elements:
# Elements: Elements "," Element | Element;
collect_sep = [collect_first_sep, pass_nochange]

# Used for productions of the form - zero or more elements:
# Elements: Elements Element | Element | EMPTY;
collect_optional = [collect_first, pass_nochange, pass_empty]

# Used for productions of the form - zero or more elements:
# Elements: Elements "," Element | Element | EMPTY;
collect_sep_optional = [collect_first_sep, pass_nochange, pass_empty]

# Used for productions of the form - one or more elements:
# Elements: Element Elements | Element;
collect_right = [collect_right_first, pass_nochange]

# Used for productions of the form - one or more elements:
# Elements: Element "," Elements | Element;
collect_right_sep = [collect_right_first_sep, pass_nochange]

# Used for productions of the form - zero or more elements:
# Elements: Element Elements | Element | EMPTY;
collect_right_optional = [collect_right_first, pass_nochange, pass_empty]

# Used for productions of the form - zero or more elements:
# Elements: Element "," Elements | Element | EMPTY;
collect_right_sep_optional = [
    collect_right_first_sep,
    pass_nochange,
    pass_empty,
]

# Used for the production of the form:
# OptionalElement: Element | EMPTY;
optional = [pass_single, pass_none]


def obj(context, nodes, **attrs):
    """
    Creates Python object with the attributes created from named matches.
    This action is used as a default action for rules with named matches.
    """
    cls = context.production.symbol.cls
    instance = cls(**attrs)

    instance._pg_start_position = context.start_position
    instance._pg_end_position = context.end_position

    return instance
