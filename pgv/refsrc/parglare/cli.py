#!/usr/bin/env python
import sys

import click

import parglare.termui as t
from parglare import GLRParser, Grammar, GrammarError, Parser, SyntaxError
from parglare.export import grammar_pda_export
from parglare.tables import create_load_table
from parglare.termui import a_print, h_print, prints


@click.group()
@click.option("--debug", default=False, is_flag=True, help="Debug/trace output.")
@click.option("--no-colors", default=False, is_flag=True, help="Disable output coloring.")
@click.option(
    "--prefer-shifts",
    default=False,
    is_flag=True,
    help="Prefer shifts over reductions.",
)
@click.option(
    "--prefer-shifts-over-empty",
    default=False,
    is_flag=True,
    help="Prefer shifts over empty reductions.",
)
@click.pass_context
def pglr(ctx, debug, no_colors, prefer_shifts, prefer_shifts_over_empty):
    """
    Command line interface for working with parglare grammars.
    """
    ctx.obj = {
        "debug": debug,
        "colors": not no_colors,
        "prefer_shifts": prefer_shifts,
        "prefer_shifts_over_empty": prefer_shifts_over_empty,
    }


@pglr.command()
@click.argument("grammar_file", type=click.Path())
@click.pass_context
def compile(ctx, grammar_file):
    debug = ctx.obj["debug"]
    colors = ctx.obj["colors"]
    prefer_shifts = ctx.obj["prefer_shifts"]
    prefer_shifts_over_empty = ctx.obj["prefer_shifts_over_empty"]
    h_print("Compiling...")
    compile_get_grammar_table(
        grammar_file, debug, colors, prefer_shifts, prefer_shifts_over_empty
    )


@pglr.command()
@click.argument("grammar_file", type=click.Path())
@click.option("--input-file", "-f", type=click.Path(), help="File to parse")
@click.option("--input", "-i", help="Input string to parse")
@click.option("--glr", "-g", default=False, is_flag=True, help="Parse with GLR")
@click.option("--recovery", "-r", default=False, is_flag=True, help="Use error recovery")
@click.option("--dot", default=False, is_flag=True, help="Export tree/forest to dot file")
@click.option(
    "--positions",
    default=False,
    is_flag=True,
    help="Render node positions in dot export",
)
@click.pass_context
def parse(ctx, grammar_file, input_file, input, glr, recovery, dot, positions):
    if not (input_file or input):
        prints("Expected either input_file or input string.")
        sys.exit(1)
    colors = ctx.obj["colors"]
    debug = ctx.obj["debug"]
    prefer_shifts = ctx.obj["prefer_shifts"]
    prefer_shifts_over_empty = ctx.obj["prefer_shifts_over_empty"]
    grammar = Grammar.from_file(grammar_file, debug=debug, debug_colors=colors)
    if glr:
        parser = GLRParser(
            grammar,
            debug=debug,
            debug_colors=colors,
            error_recovery=recovery,
            prefer_shifts=prefer_shifts,
            prefer_shifts_over_empty=prefer_shifts_over_empty,
        )
    else:
        parser = Parser(
            grammar,
            build_tree=True,
            debug=debug,
            debug_colors=colors,
            error_recovery=recovery,
            prefer_shifts=prefer_shifts,
            prefer_shifts_over_empty=prefer_shifts_over_empty,
        )

    result = parser.parse(input) if input else parser.parse_file(input_file)

    if glr:
        print(f"Solutions:{result.solutions}")
        print(f"Ambiguities:{result.ambiguities}")

    if recovery:
        print(f"Errors: {len(parser.errors)}")
        for error in parser.errors:
            print("\t", str(error))

    if glr and result.solutions > 1:
        print("Printing the forest:\n")
        result = result
    else:
        print("Printing the parse tree:\n")

    print(result.to_str())

    if dot:
        f_name = "forest.dot" if glr and result.solutions > 1 else "tree.dot"
        with open(f_name, "w") as f:
            f.write(result.to_dot(positions))
        print("Created dot file ", f_name)


@pglr.command()
@click.argument("grammar_file", type=click.Path())
@click.pass_context
def viz(ctx, grammar_file):
    debug = ctx.obj["debug"]
    colors = ctx.obj["colors"]
    prefer_shifts = ctx.obj["prefer_shifts"]
    prefer_shifts_over_empty = ctx.obj["prefer_shifts_over_empty"]
    t.colors = colors
    grammar, table = compile_get_grammar_table(
        grammar_file, debug, colors, prefer_shifts, prefer_shifts_over_empty
    )
    prints(f"Generating '{grammar_file}.dot' file for the grammar PDA.")
    prints(
        "Use dot viewer (e.g. xdot) or convert to pdf by running "
        f"'dot -Tpdf -O {grammar_file}.dot'"
    )
    t.colors = False
    grammar_pda_export(table, f"{grammar_file}.dot")


@pglr.command()
@click.argument("grammar_file", type=click.Path())
@click.option("--input-file", "-f", type=click.Path(), help="Input file for tracing")
@click.option("--input", "-i", help="Input string for tracing")
@click.option(
    "--frontiers",
    "-r",
    default=False,
    is_flag=True,
    help="Align GSS nodes into frontiers (token levels)",
)
@click.pass_context
def trace(ctx, grammar_file, input_file, input, frontiers):
    if not (input_file or input):
        prints("Expected either input_file or input string.")
        sys.exit(1)
    colors = ctx.obj["colors"]
    prefer_shifts = ctx.obj["prefer_shifts"]
    prefer_shifts_over_empty = ctx.obj["prefer_shifts_over_empty"]
    grammar, table = compile_get_grammar_table(
        grammar_file, True, colors, prefer_shifts, prefer_shifts_over_empty
    )
    parser = GLRParser(
        grammar,
        debug=True,
        debug_trace=True,
        debug_colors=colors,
        prefer_shifts=prefer_shifts,
        prefer_shifts_over_empty=prefer_shifts_over_empty,
        debug_trace_frontiers=frontiers,
    )
    if input:
        parser.parse(input)
    else:
        parser.parse_file(input_file)


def compile_get_grammar_table(
    grammar_file, debug, colors, prefer_shifts, prefer_shifts_over_empty
):
    try:
        g = Grammar.from_file(
            grammar_file, _no_check_recognizers=True, debug_colors=colors
        )
        if debug:
            g.print_debug()
        table = create_load_table(
            g,
            prefer_shifts=prefer_shifts,
            prefer_shifts_over_empty=prefer_shifts_over_empty,
            force_create=True,
            debug=debug,
        )
        if debug or table.sr_conflicts or table.rr_conflicts:
            table.print_debug()

        if not table.sr_conflicts and not table.rr_conflicts:
            h_print("Grammar OK.")

        if table.sr_conflicts:
            if len(table.sr_conflicts) == 1:
                message = "There is 1 Shift/Reduce conflict."
            else:
                message = f"There are {len(table.sr_conflicts)} Shift/Reduce conflicts."
            a_print(message)
            prints(
                "Either use 'prefer_shifts' parser mode, try to resolve "
                "manually, or use GLR parsing."
            )
        if table.rr_conflicts:
            if len(table.rr_conflicts) == 1:
                message = "There is 1 Reduce/Reduce conflict."
            else:
                message = f"There are {len(table.rr_conflicts)} Reduce/Reduce conflicts."
            a_print(message)
            prints("Try to resolve manually or use GLR parsing.")

    except (GrammarError, SyntaxError) as e:
        print("Error in the grammar file.")
        print(e)
        sys.exit(1)

    return g, table


if __name__ == "__main__":
    pglr()
