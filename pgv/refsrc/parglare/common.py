from typing import TYPE_CHECKING, Optional, Union

if TYPE_CHECKING:
    from parglare.parser import LRStackNode

from parglare import termui as t
from parglare.termui import s_attention as _a


class Location:
    """
    Represents a location (point or span) of the object in the source code.

    Args:
    context(Context): Parsing context used to populate this object.

    Attributes:
    input_str: The input string (from context) being parsed.
    file_name(str): The name (path) to the file this location refers to.
    start_position(int): The position of the span if applicable
    end_position(int): The end of the span if applicable.
    line, column (int): The line/column calculated from the position start and
        input_str.
    line_end, column_end (int): The line/column calculated from the position
        end and input_str.
    """

    __slots__ = [
        "start_position",
        "end_position",
        "input_str",
        "file_name",
        "_line",
        "_column",
        "_line_end",
        "_column_end",
    ]

    def __init__(
        self,
        context: Optional[Union["LRStackNode", "ErrorContext"]] = None,
        file_name: Optional[str] = None,
    ):
        self.start_position: Union[int, None] = (
            context.start_position if context else None
        )
        self.end_position: Union[int, None] = context.end_position if context else None
        self.input_str: Union[str, None] = context.input_str if context else None
        self.file_name: Union[str, None] = (
            file_name or context.file_name if context else None
        )

        # Evaluate this only when string representation is needed.
        # E.g. during error reporting
        self._line = None
        self._column = None

        self._line_end = None
        self._column_end = None

    @property
    def line(self):
        if self._line is None:
            self.evaluate_line_col()
        return self._line

    @property
    def line_end(self):
        if self._line_end is None:
            self.evaluate_line_col_end()
        return self._line_end

    @property
    def column(self):
        if self._column is None:
            self.evaluate_line_col()
        return self._column

    @property
    def column_end(self):
        if self._column_end is None:
            self.evaluate_line_col_end()
        return self._column_end

    def is_eof(self):
        return self.input_str is not None and self.start_position == len(self.input_str)

    def evaluate_line_col(self):
        self._line, self._column = pos_to_line_col(self.input_str, self.start_position)

    def evaluate_line_col_end(self):
        if self.end_position:
            self._line_end, self._column_end = pos_to_line_col(
                self.input_str, self.end_position
            )

    def __str__(self):
        line, column = self.line, self.column
        if line is not None:
            return "{}{}:{}".format(
                f"{self.file_name}:" if self.file_name else "", line, column
            )
        if self.file_name:
            return _a(self.file_name)
        return "<Unknown location>"

    def __repr__(self):
        return str(self)


def position_context(input_str, position):
    """
    Returns position context string.
    """
    start = max(position - 10, 0)
    c = (
        str(input_str[start:position])
        + _a(" **> ")
        + str(input_str[position : position + 10])
    )
    return replace_newlines(c)


def replace_newlines(in_str):
    try:
        return in_str.replace("\n", "\\n")
    except AttributeError:
        return in_str


def load_python_module(mod_name, mod_path):
    """
    Loads Python module from an arbitrary location.
    See https://stackoverflow.com/questions/67631/how-to-import-a-module-given-the-full-path
    """  # noqa: E501
    import importlib.util

    spec = importlib.util.spec_from_file_location(mod_name, mod_path)
    module = importlib.util.module_from_spec(spec)
    spec.loader.exec_module(module)

    return module


def get_collector():
    """
    Produces action/recognizers collector/decorator that will collect all
    decorated objects under dictionary attribute `all`.
    """
    all = {}

    class Collector:
        def __call__(self, name_or_f):
            """
            If called with action/recognizer name return decorator.
            If called over function apply decorator.
            """
            is_name = isinstance(name_or_f, str)

            def decorator(f):
                name = name_or_f if is_name else f.__name__
                objects = all.get(name)
                if objects:
                    if isinstance(objects, list):
                        objects.append(f)
                    else:
                        all[name] = [objects, f]
                else:
                    all[name] = f
                return f

            if is_name:
                return decorator
            else:
                return decorator(name_or_f)

    objects = Collector()
    objects.all = all
    return objects


def pos_to_line_col(input_str, position):
    """
    Returns position in the (line,column) form.
    """

    if position is None:
        return None, None

    if not isinstance(input_str, str):
        # If we are not parsing string
        return 1, position

    line = input_str[:position].count("\n") + 1
    line_start_pos = input_str.rfind("\n", 0, position)
    column = position - line_start_pos - 1

    return line, column


def dot_escape(s):
    colors = t.colors
    t.colors = False
    s = str(s)
    out = (
        s.replace("\n", r"\n")
        .replace("\\", "\\\\")
        .replace('"', r"\"")
        .replace("|", r"\|")
        .replace("{", r"\{")
        .replace("}", r"\}")
        .replace(">", r"\>")
        .replace("<", r"\<")
        .replace("?", r"\?")
    )
    t.colors = colors
    return out


class ErrorContext:
    """
    Context for errors.  Errors are constructed from parsing heads and are
    represented as location span.  Initially, the start and end of the span are
    set to the position where the error is found but end of the span can be
    moved forward during error recovery.
    """

    __slots__ = ["input_str", "file_name", "start_position", "end_position"]

    def __init__(self, context):
        self.start_position = self.end_position = context.position
        self.input_str = context.input_str
        self.file_name = context.file_name
