import click

colors = False

S_ATTENTION = {"fg": "red", "bold": True}
S_HEADER = {"fg": "green"}
S_EMPH = {"fg": "yellow"}


def prints(message, s=None):
    if s is None:
        s = {}
    click.echo(style(message, s), color=colors)


def style_message(message, style):
    if colors:
        return click.style(message, **style)
    else:
        return message


def s_header(message):
    return style_message(message, S_HEADER)


def s_attention(message):
    return style_message(message, S_ATTENTION)


def s_emph(message):
    return style_message(message, S_EMPH)


def style(header, content, level=0, new_line=False, header_style=S_HEADER, width=120):
    if content:
        content_start = level * 8 + len(header) + 1
        content_width = width - content_start
        content = str(content)
        content = [
            content[start : start + content_width]
            for start in range(0, len(content), content_width)
        ]
        content = ("\n" + " " * content_start).join(content)
    new_line = "\n" if new_line else ""
    level = ("\t" * level) if level else ""
    return (
        new_line
        + level
        + style_message(str(header), header_style)
        + ((" " + str(content)) if content else "")
    )


def styled_print(
    header, content, level=0, new_line=False, header_style=S_HEADER, width=120
):
    prints(style(header, content, level, new_line, header_style, width))


def h_print(header, content="", level=0, new_line=False):
    styled_print(header, content, level, new_line, S_HEADER)


def a_print(header, content="", level=0, new_line=False):
    styled_print(header, content, level, new_line, S_ATTENTION)
