from parglare.common import dot_escape
from parglare.parser import REDUCE, SHIFT

HEADER = """
    digraph grammar {
    rankdir=LR
    fontname = "Bitstream Vera Sans"
    fontsize = 8
    node[
        shape=record,
        style=filled,
        fillcolor=aliceblue
    ]
    nodesep = 0.3
    edge[dir=black,arrowtail=empty]


"""


def grammar_pda_export(table, file_name):
    with open(file_name, "w", encoding="utf-8") as f:
        f.write(HEADER)

        for state in table.states:
            kernel_items = ""
            for item in state.kernel_items:
                kernel_items += f"{dot_escape(str(item))}\\l"

            nonkernel_items = "|" if state.nonkernel_items else ""
            for item in state.nonkernel_items:
                nonkernel_items += f"{dot_escape(str(item))}\\l"

            # SHIFT actions and GOTOs will be encoded in links.
            # REDUCE actions will be presented inside each node.
            reduce_actions = []
            for term, actions in state.actions.items():
                r_actions = [a for a in actions if a.action is REDUCE]
                if r_actions:
                    reduce_actions.append((term, r_actions))

            reductions = ""
            if reduce_actions:
                reductions = "|Reductions:\\l{}".format(
                    ", ".join(
                        [
                            "{}:{}".format(
                                dot_escape(x[0].name),
                                x[1][0].prod.prod_id
                                if len(x[1]) == 1
                                else "[{}]".format(
                                    ",".join([str(i.prod.prod_id) for i in x[1]])
                                ),
                            )
                            for x in reduce_actions
                        ]
                    )
                )

            # States
            f.write(
                '{}[label="{}|{}{}{}"]\n'.format(
                    state.state_id,
                    dot_escape(f"{state.state_id}:{state.symbol}"),
                    kernel_items,
                    nonkernel_items,
                    reductions,
                )
            )

            f.write("\n")

            # SHIFT and GOTOs as links
            shacc = []
            for term, actions in state.actions.items():
                for a in [a for a in actions if a.action is SHIFT]:
                    shacc.append((term, a))
            for term, action in shacc:
                f.write(
                    '{} -> {} [label="{}:{}"]'.format(
                        state.state_id,
                        action.state.state_id,
                        "SHIFT" if action.action is SHIFT else "ACCEPT",
                        term,
                    )
                )

            for symb, goto_state in ((symb, goto) for symb, goto in state.gotos.items()):
                f.write(
                    f'{state.state_id} -> {goto_state.state_id} [label="GOTO:{symb}"]'
                )

        f.write("\n}\n")
