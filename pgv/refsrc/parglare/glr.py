from functools import reduce
from itertools import takewhile
from typing import Dict

from parglare import Parser
from parglare import termui as t
from parglare.common import dot_escape, position_context
from parglare.common import replace_newlines as _
from parglare.parser import REDUCE, SHIFT, Token, pos_to_line_col
from parglare.tables import LRState
from parglare.termui import a_print, h_print, prints
from parglare.trees import (
    Forest,
    NodeNonTerm,
    NodeTerm,
    to_dot,
    to_str,
    visitor,
)


def no_colors(f):
    """
    Decorator for trace methods to prevent ANSI COLOR codes appearing in
    the trace dot output.
    """

    def nc_f(*args, **kwargs):
        self = args[0]
        t.colors = False
        r = f(*args, **kwargs)
        t.colors = self.debug_colors
        return r

    return nc_f


class GLRParser(Parser):
    """
    A Tomita-style GLR parser.
    """

    def __init__(self, *args, **kwargs):
        table = kwargs.get("table")
        lexical_disambiguation = kwargs.get("lexical_disambiguation")
        if table is None:
            # The default for GLR is not to use any strategy preferring shifts
            # over reduce thus investigating all possibilities.
            # These settings are only applicable if parse table is not computed
            # yet. If it is, then leave None values to avoid
            # "parameter overriden" warnings.
            prefer_shifts = kwargs.get("prefer_shifts")
            prefer_shifts_over_empty = kwargs.get("prefer_shifts_over_empty")

            prefer_shifts = False if prefer_shifts is None else prefer_shifts
            prefer_shifts_over_empty = (
                False if prefer_shifts_over_empty is None else prefer_shifts_over_empty
            )
            if lexical_disambiguation is None:
                lexical_disambiguation = False

            kwargs["prefer_shifts"] = prefer_shifts
            kwargs["prefer_shifts_over_empty"] = prefer_shifts_over_empty

        kwargs["lexical_disambiguation"] = lexical_disambiguation
        self.debug_trace_frontiers = kwargs.pop("debug_trace_frontiers", False)

        super().__init__(*args, **kwargs)

    def _check_parser(self):
        """
        Conflicts in table are allowed with GLR.
        """
        pass

    def parse(self, input_str, position=0, file_name=None, extra=None):
        """
        Parses the given input string.
        Args:
            input_str(str): A string to parse.
            position(int): Position to start from.
            file_name(str): File name if applicable. Used in error reporting.
            extra: An object that keeps custom parsing state. If not given
                initialized to dict.
        """

        if self.debug:
            a_print("*** PARSING STARTED\n")
            self.debug_frontier = 0
            self.debug_step = 0
            if self.debug_trace:
                self._dot_trace = ""
                self._dot_trace_ranks = ""
                self._trace_frontier_heads = []
                self._trace_frontier_steps = []

        self.file_name = file_name
        extra = {} if extra is None else extra

        # Error reporting and recovery
        self.errors = []
        self._in_error_reporting = False
        self._expected = set()
        self._tokens_ahead = []
        self._last_shifted_heads = []
        self._for_shifter = []

        # We start with a single parser head in state 0.
        start_head = GSSNode(
            file_name,
            input_str,
            self.table.states[0],
            position,
            0,
            extra,
            ambiguity=1,
            debug=self.debug,
        )
        self._init_dynamic_disambiguation(start_head)

        # Accepted (finished) heads
        self._accepted_heads = []

        if self.debug and self.debug_trace:
            self._trace_head(start_head)

        # The main loop
        self._active_heads = {0: start_head}
        while self._active_heads or self._in_error_reporting:
            if self.debug:
                a_print(
                    f"** REDUCING - frontier {self.debug_frontier}",
                    new_line=True,
                )
                self._debug__active_heads(self._active_heads.values())
            if not self._in_error_reporting:
                self._last_shifted_heads = list(self._active_heads.values())
                self._find_lookaheads()
            while self._active_heads_per_symbol:
                _, self._active_heads = self._active_heads_per_symbol.popitem()
                self._for_actor = list(self._active_heads.values())
                # Used to optimize revisiting only heads that will
                # traverse newly added paths.
                # state_id -> set(state_id)
                self._states_traversed = {}
                while self._for_actor:
                    head = self._for_actor.pop()
                    self._actor(head)
            if self._in_error_reporting:
                self._finish_error_reporting(input_str)
                if self.error_recovery:
                    self._do_error_recovery()
                    self._for_shifter = []
                    continue
                break
            self._do_shifts()

            if not self._active_heads and not self._accepted_heads:
                if self.debug:
                    a_print("*** ENTERING ERROR REPORTING MODE.", new_line=True)
                self._enter_error_reporting()

        if self.debug and self.debug_trace:
            self._trace_finish()
            self._export__dot_trace()

        if self._accepted_heads:
            # Return results
            forest = Forest(self)
            if self.debug:
                a_print(f"*** {forest.solutions} successful parse(s).")

            if self.clear_transient:
                self._remove_transient_state()
            return forest
        else:
            # Report error
            if self.clear_transient:
                self._remove_transient_state()
            error = self.errors[-1]
            del self.errors
            raise error

    def _find_lookaheads(self):
        debug = self.debug
        # Make sub-frontiers per symbol of the token ahead thus handling lexical
        # ambiguity by the same GLR mechanics
        self._active_heads_per_symbol = {}
        while self._active_heads:
            _, head = self._active_heads.popitem()
            if head.token_ahead is not None:
                # May happen after error recovery
                self._active_heads_per_symbol.setdefault(head.token_ahead.symbol, {})[
                    head.state.state_id
                ] = head
                continue
            if debug:
                h_print(f"Finding lookaheads for head {head}", new_line=True)
            self._skipws(head, head.input_str)

            tokens = self._next_tokens(head)

            if debug:
                head._debug_context(
                    expected_symbols=head.state.actions.keys(),
                )

            if tokens:
                while tokens:
                    token = tokens.pop()
                    head = head.for_token(token)
                    self._active_heads_per_symbol.setdefault(token.symbol, {})[
                        head.state.state_id
                    ] = head
            else:
                # Can't find lookahead. This head can't progress
                if debug:
                    h_print("No lookaheads found. Killing head.")

    def _actor(self, head):
        debug = self.debug
        for action in head.state.actions.get(head.token_ahead.symbol, []):
            if action.action == SHIFT:
                self._for_shifter.append((head, action.state))
            elif action.action == REDUCE:
                self._do_reductions(head, action.prod)
            else:
                if not self._in_error_reporting:
                    self._accepted_heads.append(head)
                    if debug:
                        a_print("**ACCEPTING HEAD: ", str(head))
                        if self.debug_trace:
                            self._trace_step_finish(head)

    def _do_reductions(self, head, production, update_parent=None):
        """
        Reduce the given head by the given production. If update_parent is given
        this is update/limited reduction so just traverse the given parent instead of
        all parents of the parent's head.
        """
        debug = self.debug
        if debug:
            h_print(f"\tFinding reduction paths for head: {head}")
            h_print(f"\tand production: {production}")
            if update_parent:
                h_print("\tLimited/update reduction due to new path addition.")

        states_traversed = self._states_traversed
        prod_len = len(production.rhs)
        if prod_len == 0:
            # Special case, empty reduction
            self._reduce(
                head,
                head,
                production,
                NodeNonTerm(None, [], production=production),
                head.position,
                head.position,
            )
        else:
            # Find roots of possible reductions by going backwards for
            # prod_len steps following all possible paths. Collect
            # subresults along the way to be used with semantic actions
            to_process = [(head, [], prod_len, None, update_parent is None)]
            if debug:
                h_print(f"Calculate reduction paths of length {prod_len}:", level=1)
                h_print(f"start node= {head}", level=2)
            while to_process:
                (node, results, length, last_parent, traversed) = to_process.pop()
                length = length - 1
                if debug:
                    h_print(f"node = {node}", level=2, new_line=True)
                    h_print(
                        "backpath length = {}{}".format(
                            prod_len - length, " - ROOT" if not length else ""
                        ),
                        level=2,
                    )

                if node.frontier == head.frontier:
                    # Cache traversed states for revisit optimization
                    states_traversed.setdefault(node.state.state_id, set()).add(
                        head.state.state_id
                    )

                for parent in (
                    [update_parent]
                    if update_parent and update_parent.head == node
                    else list(node.parents.values())
                ):
                    if debug:
                        h_print("", str(parent.head), level=3)

                    new_results = [parent] + results

                    path_last_parent = parent if last_parent is None else last_parent

                    traversed = traversed or (
                        update_parent and update_parent.head == node
                    )

                    if length:
                        to_process.append(
                            (
                                parent.root,
                                new_results,
                                length,
                                path_last_parent,
                                traversed,
                            )
                        )
                    elif traversed:
                        self._reduce(
                            head,
                            parent.root,
                            production,
                            NodeNonTerm(None, new_results, production=production),
                            parent.start_position,
                            path_last_parent.end_position,
                        )

    def _reduce(
        self,
        head,
        root_head,
        production,
        node_nonterm,
        start_position,
        end_position,
    ):
        """
        Executes the given reduction.
        """
        if start_position is None:
            start_position = end_position = root_head.position
        state = root_head.state.gotos[production.symbol]

        if self.debug:
            self.debug_step += 1
            a_print(
                f"{self._debug_step_str()} REDUCING head ",
                str(head),
                new_line=True,
            )
            a_print("by prod ", production, level=1)
            a_print(f"to state {state.state_id}:{state.symbol}", level=1)
            a_print("root is ", root_head, level=1)
            a_print(f"Position span: {start_position} - {end_position}", level=1)

        new_head = GSSNode(
            head.file_name,
            head.input_str,
            state,
            head.position,
            head.frontier,
            head.extra,
            token_ahead=head.token_ahead,
            layout_content=root_head.layout_content,
            layout_content_ahead=head.layout_content_ahead,
            debug=self.debug,
        )
        parent = Parent(
            new_head,
            root_head,
            start_position,
            end_position,
            production=production,
            possibilities=[node_nonterm],
        )

        if self.dynamic_filter and not self._call_dynamic_filter(
            parent, head.state, state, REDUCE, production, list(node_nonterm)
        ):
            # Action rejected by dynamic filter
            return

        active_head = self._active_heads.get(state.state_id, None)
        if active_head:
            created = active_head.create_link(parent)
            if self.debug and self.debug_trace:
                self._trace_step(head, parent)

            # Calculate heads to revisit with the new path. Only those heads that
            # are already processed (not in _for_actor) and are traversing this
            # new head state on the current frontier should be considered.
            if created and state.state_id in self._states_traversed:
                to_revisit = self._states_traversed[state.state_id].intersection(
                    self._active_heads.keys()
                ) - set(h.state.state_id for h in self._for_actor)
                if to_revisit:
                    if self.debug:
                        h_print(
                            "Revisiting reductions for processed "
                            f"active heads in states {to_revisit}",
                            level=1,
                        )
                    for r_head_state in to_revisit:
                        r_head = self._active_heads[r_head_state]
                        for action in [
                            a
                            for a in r_head.state.actions.get(head.token_ahead.symbol, [])
                            if a.action == REDUCE
                        ]:
                            self._do_reductions(r_head, action.prod, parent)
        else:
            # No cycles. Do the reduction.
            new_head.create_link(parent)
            if self.debug and self.debug_trace:
                self._trace_step(head, parent)
            self._for_actor.append(new_head)
            self._active_heads[new_head.state.state_id] = new_head

            if self.debug:
                a_print("New head: ", new_head, level=1, new_line=True)
                if self.debug_trace:
                    self._trace_head(new_head)

    def _do_shifts(self):
        debug = self.debug
        if debug:
            self.debug_frontier += 1
            self.debug_step = 0
            a_print(f"** SHIFTING - frontier {self.debug_frontier}", new_line=True)
            self._debug__active_heads(self._active_heads.values())
            if self.debug_trace:
                self._trace_frontier()

        self._active_heads = {}

        # Due to lexical ambiguity heads might be at different positions.
        # We must order heads by position before shift to process them in
        # the right order. Only shift heads with minimal position during
        # a single frontier processing.
        self._for_shifter.sort(key=lambda x: x[0].token_ahead.end_position, reverse=True)
        end_position = None
        # Heads left from the previous frontiers (longer tokens) are shifted to
        # the same new frontier as the heads of the current one.
        frontier = max(h.frontier for h, _ in self._for_shifter) + 1 if self._for_shifter else 0
        while self._for_shifter:
            head, to_state = self._for_shifter.pop()
            if end_position is not None and head.token_ahead.end_position > end_position:
                self._for_shifter.append((head, to_state))
                break
            end_position = head.token_ahead.end_position
            if debug:
                self.debug_step += 1
                a_print(
                    f"{self._debug_step_str()}. SHIFTING head: ",
                    head,
                    new_line=True,
                )
            shifted_head = self._active_heads.get(to_state.state_id, None)
            if shifted_head:
                # If this token has already been shifted connect shifted head to
                # this head.
                parent = Parent(
                    shifted_head,
                    head,
                    head.position,
                    end_position,
                    token=head.token_ahead,
                )
                if self.dynamic_filter and not self._call_dynamic_filter(
                    parent, head.state, to_state, SHIFT
                ):
                    continue
            else:
                # We need to create new shifted head
                if debug:
                    head._debug_context(
                        expected_symbols=None,
                    )

                end_position = head.position + len(head.token_ahead)
                shifted_head = GSSNode(
                    head.file_name,
                    head.input_str,
                    to_state,
                    end_position,
                    frontier,
                    head.extra,
                    ambiguity=1,
                    layout_content=head.layout_content_ahead,
                    debug=self.debug,
                )
                parent = Parent(
                    shifted_head,
                    head,
                    head.position,
                    end_position,
                    token=head.token_ahead,
                )

                if self.dynamic_filter and not self._call_dynamic_filter(
                    parent, head.state, to_state, SHIFT
                ):
                    continue

                if self.debug:
                    a_print("New shifted head ", shifted_head, level=1)
                    if self.debug_trace:
                        self._trace_head(shifted_head)

                self._active_heads[to_state.state_id] = shifted_head

            shifted_head.create_link(parent)
            if self.debug and self.debug_trace:
                self._trace_step(head, parent)

    def _enter_error_reporting(self):
        """
        To correctly report what is found ahead and what is expected we shall:

            - execute all grammar recognizers at the farther position reached
              in the input by the active heads.  This will be part of the error
              report (what is found ahead if anything can be recognized).

            - for all last reducing heads, simulate parsing for each of
              possible lookaheads in the head's state until either SHIFT or
              ACCEPT is successfuly executed.  Collect each possible lookahead
              where this is achieved for reporting.  This will be another part
              of the error report (what is expected).

        """

        self._in_error_reporting = True

        # Start with the last shifted heads sorted by position.
        self._last_shifted_heads.sort(key=lambda h: h.position, reverse=True)
        last_head = self._last_shifted_heads[0]
        farthest_heads = takewhile(
            lambda h: h.position == last_head.position, self._last_shifted_heads
        )

        self._tokens_ahead = self._get_all_possible_tokens_ahead(last_head)

        self._active_heads_per_symbol = {}
        for head in farthest_heads:
            for possible_lookahead in head.state.actions:
                h = head.for_token(Token(possible_lookahead, [], position=head.position))
                self._active_heads_per_symbol.setdefault(possible_lookahead, {})[
                    h.state.state_id
                ] = h

    def _finish_error_reporting(self, input_str):
        # Expected symbols are only those that can cause active heads
        # to shift.
        self._expected = set(h.token_ahead.symbol for h, _ in self._for_shifter)
        if self.debug:
            a_print("*** LEAVING ERROR REPORTING MODE.", new_line=True)
            h_print(
                "Tokens expected:",
                ", ".join([t.name for t in self._expected]),
                level=1,
            )
            h_print("Tokens found:", self._tokens_ahead, level=1)

        # After leaving error reporting mode, register error and try
        # recovery if enabled
        context = self._last_shifted_heads[0]
        self.errors.append(
            self._create_error(
                input_str,
                context,
                self._expected,
                tokens_ahead=self._tokens_ahead,
                symbols_before=list({h.state.symbol for h in self._last_shifted_heads}),
                last_heads=self._last_shifted_heads,
            )
        )

        self.for_shifter = []
        self._in_error_reporting = False

    def _do_error_recovery(self):
        """
        If recovery is enabled, does error recovery for the heads in
        _last_shifted_heads.

        """
        if self.debug:
            a_print("*** STARTING ERROR RECOVERY.", new_line=True)
        error = self.errors[-1]
        debug = self.debug
        self._active_heads = {}
        for head in self._last_shifted_heads:
            if debug:
                input_str = head.input_str
                symbols = head.state.actions.keys()
                h_print(
                    f"Recovery initiated for head {head}.",
                    level=1,
                    new_line=True,
                )
                h_print("Symbols expected: ", [s.name for s in symbols], level=1)
            if isinstance(self.error_recovery, bool):
                # Default recovery
                if debug:
                    prints("\tDoing default error recovery.")
                successful = self.default_error_recovery(head)
            else:
                # Custom recovery provided during parser construction
                if debug:
                    prints("\tDoing custom error recovery.")
                successful = self.error_recovery(head, error, self.default_error_recovery)

            if successful:
                error.location.end_position = head.position
                if debug:
                    a_print(
                        "New position is ",
                        pos_to_line_col(input_str, head.position),
                        level=1,
                    )
                    a_print("New lookahead token is ", head.token_ahead, level=1)
                self._active_heads[head.state.state_id] = head
                if self.debug:
                    a_print(
                        "*** ERROR RECOVERY SUCCEEDED. CONTINUING.",
                        new_line=True,
                    )
            else:
                if debug:
                    a_print("Killing head: ", head, level=1)
                    if self.debug_trace:
                        self._trace_step_kill(head)

    def _remove_transient_state(self):
        """
        Delete references to transient parser objects to lower memory
        consumption.
        """
        del self._for_actor
        del self._for_shifter
        del self._last_shifted_heads
        del self._accepted_heads
        del self._active_heads
        del self._states_traversed
        del self._expected
        del self._tokens_ahead
        if self.debug_trace:
            del self._dot_trace
            del self._dot_trace_ranks
            del self._trace_frontier_heads
            del self._trace_frontier_steps

    def _debug_step_str(self):
        return f"{self.debug_frontier}.{self.debug_step}"

    def _debug__active_heads(self, heads):
        if not heads:
            h_print("No active heads.")
        else:
            h_print("Active heads = ", len(heads))
            for head in heads:
                prints(f"\t{head}")
            h_print(f"Number of trees = {sum([len(h.parents) for h in heads])}")

    @no_colors
    def _trace_head(self, head):
        self._trace_frontier_heads.append(head)

    @no_colors
    def _trace_step(self, from_head, parent):
        self._trace_frontier_steps.append((from_head, parent))

    @no_colors
    def _trace_step_finish(self, from_head):
        self._dot_trace += f"\n{from_head.key} -> ACCEPT;\n"

    @no_colors
    def _trace_frontier(self):
        parents_processed = set()

        for head in self._trace_frontier_heads:
            self._dot_trace += (
                f'{head.key} [label="{head.frontier}. '
                f'{head.state.state_id}:{dot_escape(head.state.symbol.name)}"];\n'
            )

        for step_no, step in enumerate(self._trace_frontier_steps):
            step_no += 1
            from_head, parent = step
            if parent not in parents_processed:
                self._dot_trace += (
                    f"{parent.head.key} -> {parent.root.key} "
                    f'[label="{parent.ambiguity}"];\n'
                )
                parents_processed.add(parent)
            if parent.production:
                # Reduce step
                label = f"R:{dot_escape(parent.production)}"
            else:
                # Shift step
                label = (
                    f"S:{dot_escape(parent.token.symbol.name)}"
                    f"({dot_escape(parent.token.value)})"
                )
            self._dot_trace += (
                f"{from_head.key} -> {parent.head.key} "
                f'[label="{parent.head.frontier}.{step_no} '
                f'{label}" {TRACE_DOT_STEP_STYLE}];\n'
            )

        self._dot_trace_ranks += "{{rank=same; {}; {}}}\n".format(
            self.debug_frontier - 1,
            "".join([f" {x.key};" for x in self._trace_frontier_heads]),
        )
        self._trace_frontier_heads = []
        self._trace_frontier_steps = []

    @no_colors
    def _trace_step_kill(self, from_head):
        self._dot_trace += (
            f'{from_head.key}_killed [shape="diamond" fillcolor="red" label="killed"];\n'
        )
        self._dot_trace += (
            f"{from_head.key} -> {from_head.key}_killed "
            f'[label="{self._debug_step_str()}." {TRACE_DOT_STEP_STYLE}];\n'
        )

    @no_colors
    def _trace_step_drop(self, from_head, to_head):
        self._dot_trace += (
            f"{from_head.key} -> {to_head.key} "
            f'[label="drop empty" {TRACE_DOT_DROP_STYLE}];\n'
        )

    @no_colors
    def _trace_finish(self):
        if self.debug_trace and self.debug_trace_frontiers:
            self._dot_trace += '\nnode [shape=none, style=""]\n'
            self._dot_trace += self._dot_trace_ranks
            self._dot_trace += "->".join(str(i) for i in range(self.debug_frontier))
            self._dot_trace += "[arrowhead=none];\n"

    def _export__dot_trace(self):
        file_name = (
            f"{self.file_name}_trace.dot" if self.file_name else "parglare_trace.dot"
        )
        with open(file_name, "w", encoding="utf-8") as f:
            f.write(DOT_HEADER)
            f.write(self._dot_trace)
            f.write("}\n")

        prints(f"Generated file {file_name}.")
        prints("You can use dot viewer or generate pdf with the following command:")
        h_print(f"dot -Tpdf -O {file_name}")


class Parent:
    """
    Represent a backlink in the GSS stack with all possibilities in
    case of ambiguity.
    """

    __slots__ = [
        "head",
        "root",
        "start_position",
        "end_position",
        "possibilities",
        "_solutions",
        "_ambiguities",
        "production",
        "token",
    ]

    def __init__(
        self,
        head,
        root,
        start_position,
        end_position=None,
        possibilities=None,
        production=None,
        token=None,
    ):
        self.root = root
        self.head = head
        self.start_position = start_position
        self.end_position = end_position if end_position is not None else start_position

        self.production = production
        self.token = token
        self._solutions = None
        self._ambiguities = None

        # A list of NodeNonTerm or NodeTerm objects representing alternative
        # interpretations of what is seen between root and head GSS nodes.
        self.possibilities = []
        if possibilities:
            self.possibilities = possibilities
            for p in possibilities:
                p.context = self
        elif token:
            self.possibilities.append(NodeTerm(self, token))

    def merge(self, other):
        self.possibilities.extend(other.possibilities)
        self._solutions = None

    def clone_with_root(self, root):
        return Parent(
            self.head,
            root,
            self.start_position,
            self.end_position,
            list(self.possibilities),
            token=self.token,
        )

    @property
    def ambiguity(self):
        return len(self.possibilities)

    @property
    def ambiguities(self):
        """
        Total ambiguities in the sub-tree.
        Keep cache of visited nodes to prevent double counting.
        """
        if self._ambiguities is None:
            visited = set()

            def iterator(node):
                def iter_non_visited(n, collection):
                    for i in collection:
                        if id(i) not in visited:
                            visited.add(id(i))
                            yield i

                if isinstance(node, Parent):
                    return iter_non_visited(node, node.possibilities)
                elif isinstance(node, NodeNonTerm):
                    return iter_non_visited(node, node.children)
                else:
                    return iter([])

            def calculate(node, subresults, _):
                amb = 0
                if isinstance(node, Parent) and len(node.possibilities) > 1:
                    amb = 1
                return sum(subresults) + amb

            self._ambiguities = visitor(
                self, iterator, calculate, memoize=True, check_cycle=True
            )
            del visited

        return self._ambiguities

    @property
    def solutions(self):
        "Total number of trees/solutions."
        if self._solutions is None:

            def iterator(node):
                if isinstance(node, Parent):
                    return iter(node.possibilities)
                elif isinstance(node, NodeNonTerm):
                    return iter(node.children)
                else:
                    return iter([])

            def calculate(node, subresults, _):
                if isinstance(node, Parent):
                    return sum(subresults)
                else:
                    return reduce(lambda x, y: x * y, subresults, 1)

            self._solutions = visitor(
                self, iterator, calculate, memoize=True, check_cycle=True
            )

        return self._solutions

    @property
    def id(self):
        return f"{self.head.id}->{self.root.id}"

    @property
    def layout_content(self):
        return self.head.layout_content

    @property
    def layout_content_ahead(self):
        return self.head.layout_content_ahead

    @property
    def token_ahead(self):
        return self.head.token_ahead

    def __eq__(self, other):
        return self.id == other.id

    def __hash__(self):
        return hash(self.id)

    def __str__(self):
        return (
            f"{self.root.id}({self.root.symbol})<-{self.head.id}"
            f"({self.head.symbol}) [{self.ambiguity}]"
        )

    def __repr__(self):
        return str(self)

    def __getattr__(self, attr):
        return getattr(self.head, attr)

    def __iter__(self):
        return iter(self.possibilities)

    def to_str(self):
        if len(self.possibilities) == 1:
            return to_str(self.possibilities[0])
        else:
            return to_str(self)

    def to_dot(self, positions=True):
        if len(self.possibilities) == 1:
            return to_dot(self.possibilities[0], positions)
        else:
            return to_dot(self, positions)


class GSSNode:
    """
    Graph Structured Stack node.

    A node in the Graph Structured Stack (GSS) used by the GLR parser to
    handle non-determinism. Multiple parse paths can share common prefixes
    through this structure, enabling efficient handling of ambiguous grammars.

    Attributes:
        file_name (str): Name of the file being parsed, used for error reporting.
        input_str (str): The input string being parsed.
        state (LRState): The LR automaton state this node represents.
        position (int): Current position in the input string.
        frontier (int): The frontier (shift level) when this node was created.
        extra: User-defined object for maintaining custom parsing state.
        parents (dict): Mapping of root node IDs to Parent objects, representing
            multiple paths the parser took to reach this state.
        id (str): Unique node identifier, created from frontier and state ID.
        token_ahead (Token): The lookahead token for this head, if determined.
        layout_content (str): Layout (whitespace/comments) content before this node.
        layout_content_ahead (str): Layout content after current position.
    """

    __slots__ = [
        "file_name",
        "input_str",
        "id",
        "state",
        "extra",
        "position",
        "frontier",
        "parents",
        "_ambiguity",
        "token_ahead",
        "layout_content",
        "layout_content_ahead",
        "debug",
        "_hash",
    ]

    def __init__(
        self,
        file_name: str,
        input_str,
        state: LRState,
        position: int,
        frontier: int,
        extra,
        ambiguity=None,
        token_ahead=None,
        layout_content="",
        layout_content_ahead="",
        debug=False,
    ):
        self.state = state
        self.position = position
        self.frontier = frontier
        self.input_str = input_str
        self.file_name = file_name
        self.extra = extra
        self.id = f"{frontier}_{state.state_id}"

        self._ambiguity = ambiguity

        self.token_ahead = token_ahead
        self.layout_content = layout_content
        self.layout_content_ahead = layout_content_ahead
        self.debug = debug

        # Parents keyed by root node id
        self.parents: Dict[int, Parent] = {}

    def create_link(self, parent):
        parent.head = self
        existing_parent = self.parents.get(parent.root.id)
        created = False
        if existing_parent:
            existing_parent.merge(parent)
            if self.debug:
                h_print("Extending possibilities \tof head:", self, level=1)
                h_print("  parent head:", parent.root, level=3)
        else:
            self.parents[parent.root.id] = parent
            created = True
            if self.debug:
                h_print("Creating link \tfrom head:", self, level=1)
                h_print("  to head:", parent.root, level=3)

        return created

    @property
    def ambiguity(self):
        return self._ambiguity or sum(p.ambiguity for p in self.parents.values())

    def for_token(self, token):
        """
        Create head for the given token either by returning this head if the
        token is appropriate or making a clone.

        This is used to support lexical ambiguity. Multiple tokens might be
        matched at the same state and position. In this case parser should
        fork and this is done by cloning stack head.
        """
        if self.token_ahead is None:
            self.token_ahead = token
            return self
        elif self.token_ahead == token:
            return self
        else:
            new_head = GSSNode(
                self.file_name,
                self.input_str,
                self.state,
                self.position,
                self.frontier,
                self.extra,
                token_ahead=token,
                layout_content=self.layout_content,
                layout_content_ahead=self.layout_content_ahead,
                debug=self.debug,
            )
            new_head.parents = dict(self.parents)
            return new_head

    def __eq__(self, other):
        """
        Stack nodes are equal if they are on the same position in the same
        state for the same lookahead token.
        """
        return self.id == other.id and self.token_ahead == other.token_ahead

    def __ne__(self, other):
        return not self == other

    def __str__(self):
        return _(
            "<{}:{}, id={}{}, position={}, ambiguity={}>".format(
                self.state.state_id,
                self.state.symbol,
                self.id,
                f", token ahead={self.token_ahead}"
                if self.token_ahead is not None
                else "",
                self.position,
                self.ambiguity,
            )
        )

    def __repr__(self):
        return str(self)

    def __hash__(self):
        return hash((self.id, self.token_ahead.symbol))

    @property
    def key(self):
        """Head unique identifier used for dot trace."""
        return f"head_{self.id}"

    @property
    def symbol(self):
        return self.state.symbol

    def _debug_context(
        self,
        expected_symbols=None,
    ):
        h_print("Position:", pos_to_line_col(self.input_str, self.position))
        h_print("Context:", _(position_context(self.input_str, self.position)))
        if self.layout_content:
            h_print("Layout: ", f"'{_(self.layout_content)}'", level=1)
        if expected_symbols:
            h_print("Symbols expected: ", [s.name for s in expected_symbols])
        if self.token_ahead:
            h_print("Token(s) ahead:", _(str(self.token_ahead)))


DOT_HEADER = """
    digraph parglare_trace {
    rankdir=LR
    fontname = "Bitstream Vera Sans"
    fontsize = 8
    node[
        style=filled,
        fillcolor=aliceblue
    ]
    nodesep = 0.3
    edge[dir=black,arrowtail=empty]

"""

TRACE_DOT_STEP_STYLE = 'color="red" style="dashed"'
TRACE_DOT_DROP_STYLE = 'color="orange" style="dotted"'
