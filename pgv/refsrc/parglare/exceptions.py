from typing import Optional, Tuple

from parglare.common import Location
from parglare.termui import s_attention as err
from parglare.termui import s_header as _


class ParglareError(Exception):
    def __init__(
        self,
        location: Location,
        message: str,
        context_message: Optional[str] = None,
        error_type: str = err("error"),
        input: Optional[str] = None,
        hint: Optional[str] = None,
    ):
        self.location = location
        self.hint = hint
        self.message = message
        self.context_message = context_message
        self.error_type = error_type

        context = (
            get_context(input, location, context_message) if context_message else None
        )
        hint = _(f"  hint: {hint}") if hint else None

        self.full_message = "\n".join(
            filter(None, [f"{error_type}: {message}", context, hint])
        )

    def __str__(self):
        return f"{self.location}: {self.full_message}"


def get_line_col_at_position(
    text: str, pos: int
) -> Tuple[Optional[int], Optional[int], Optional[str], Optional[str]]:
    lines = text.splitlines(keepends=True) or [""]

    if pos > len(text):
        # Position out of range
        return None, None, None, None

    # Special handling of EOF
    if pos == len(text):
        prev_line = lines[-2].rstrip("\n\r") if len(lines) > 1 else None
        return (
            len(lines) - 1,
            len(lines[-1]),
            lines[-1].rstrip("\n\r"),
            prev_line,
        )

    current_pos = 0
    for lineidx, line in enumerate(lines):
        if current_pos <= pos < current_pos + len(line):
            prev_line = lines[lineidx - 1].rstrip("\n\r") if lineidx > 0 else None
            return lineidx, pos - current_pos, line.rstrip("\n\r"), prev_line
        current_pos += len(line)
    return None, None, None, None


def get_indented_message(
    message: str,
    indent: int,
    prefix: Optional[str] = None,
    marker: Optional[str] = None,
) -> str:
    """
    Returns message where all lines are indented by `indent`.

    If optional `prefix` is given it is prepended to every line.
    """
    indent_str = (_(prefix) if prefix is not None else "") + " " * indent
    first_indent_str = (
        (indent_str[: -len(marker) + 1] + err(marker)) if marker is not None else None
    )
    return "\n".join(
        [
            f"{first_indent_str}{line}"
            if marker is not None and lineidx == 0
            else f"{indent_str}{line}"
            for lineidx, line in enumerate(message.splitlines())
        ]
    )


def get_context(input, location: Location, message: str) -> Optional[str]:
    context = None
    if input is not None and location.start_position is not None:
        if type(input) is str:
            lineidx, colidx, line, prev_line = get_line_col_at_position(
                input, location.start_position
            )
        else:
            start = max(location.start_position - 10, 0)
            lineidx = 0
            colidx = len(str(input[start : location.start_position])) + 1
            line = str(input[start : location.start_position + 10])
            prev_line = None

        if lineidx is not None and colidx is not None:
            prev_line_context = (
                _(f"{lineidx:>5} | ") + f"{prev_line}\n" if prev_line else ""
            )
            context = (
                prev_line_context
                + _(f"{lineidx + 1:>5} | ")
                + f"{line}\n"
                + get_indented_message(message, colidx + 4, "      |", "^^^ ")
            )

    return context


class GrammarError(ParglareError):
    def __init__(self, location, message):
        super().__init__(location, message, error_type=err("grammar error"))


class SyntaxError(ParglareError):
    def __init__(
        self,
        location: Location,
        input,
        symbols_expected,
        tokens_ahead=None,
        symbols_before=None,
        last_heads=None,
        grammar=None,
        hint=None,
    ):
        """
        Args:
        location(Location): The :class:`Location` of the error.
        symbols_expected(list): A list of :class:`GrammarSymbol` expected at
            the location
        tokens_ahead(list): A list of :class:`Token` recognized at the current
            location.
        symbols_before(list): A list of :class:`GrammarSymbol` recognized just
            before the current position
        last_heads(list): A list of :class:`GSSNode` GLR heads before the
            error.
        grammar(Grammar): An instance of :class:`Grammar` being used for
            parsing.
        """
        self.symbols_expected = symbols_expected
        self.tokens_ahead = tokens_ahead if tokens_ahead else []
        self.symbols_before = symbols_before if symbols_before else []
        self.last_heads = last_heads
        self.grammar = grammar
        token_str = "tokens" if len(self.tokens_ahead) > 1 else "token"
        if not location.is_eof():
            message = f"unexpected {token_str} " + ", ".join(
                sorted([str(t) for t in self.tokens_ahead])
            )
        else:
            message = "unexpected end of file"
        context_message = _("expected: ") + " ".join(
            sorted([s.name for s in symbols_expected])
        )
        super().__init__(
            location,
            message,
            context_message=context_message,
            input=input,
            error_type=err("syntax error"),
            hint=hint,
        )


def expected_symbols_str(symbols):
    return " ".join(sorted([s.name for s in symbols]))


def disambiguation_error(tokens):
    return "Can't disambiguate between: {}".format(
        _(" ").join(sorted([str(t) for t in tokens]))
    )


class ParserInitError(Exception):
    pass


class DisambiguationError(ParglareError):
    def __init__(self, location, tokens):
        self.tokens = tokens
        message = disambiguation_error(tokens)
        super().__init__(location, message)


class DynamicDisambiguationConflict(Exception):
    def __init__(self, context, actions):
        self.state = state = context.state
        self.token = token = context.token
        self.actions = actions

        from parglare.parser import SHIFT

        message = (
            f"{str(state)}\nIn state {state.state_id}:{state.symbol} "
            f"and input symbol '{token}' after calling"
            " dynamic disambiguation still can't decide "
        )
        if actions[0].action == SHIFT:
            prod_str = " or ".join([f"'{str(a.prod)}'" for a in actions[1:]])
            message += f"whether to shift or reduce by production(s) {prod_str}."
        else:
            prod_str = " or ".join([f"'{str(a.prod)}'" for a in actions])
            message += f"which reduction to perform: {prod_str}"

        self.message = message

    def __str__(self):
        return self.message


class LRConflict:
    def __init__(self, state, term, productions):
        self.state = state
        self.term = term
        self.productions = productions

    @property
    def dynamic(self):
        return self.term in self.state.dynamic


class SRConflict(LRConflict):
    def __init__(self, state, term, productions):
        super().__init__(state, term, productions)

    def __str__(self):
        prod_str = " or ".join([f"'{str(p)}'" for p in self.productions])
        message = (
            "{}\nIn state {}:{} and input symbol '{}' can't "
            "decide whether to shift or reduce by production(s) {}.{}".format(
                str(self.state),
                self.state.state_id,
                self.state.symbol,
                self.term,
                prod_str,
                " Dynamic disambiguation strategy will be called."
                if self.dynamic
                else "",
            )
        )

        return message


class RRConflict(LRConflict):
    def __init__(self, state, term, productions):
        super().__init__(state, term, productions)

    def __str__(self):
        prod_str = " or ".join([f"'{str(p)}'" for p in self.productions])
        message = (
            "{}\nIn state {}:{} and input symbol '{}' can't "
            "decide which reduction to perform: {}.{}".format(
                str(self.state),
                self.state.state_id,
                self.state.symbol,
                self.term,
                prod_str,
                " Dynamic disambiguation strategy will be called."
                if self.dynamic
                else "",
            )
        )
        return message


class LRConflicts(Exception):
    def __init__(self, conflicts):
        self.conflicts = conflicts
        message = (
            f"\n{self.kind} conflicts in following states: "
            f"{set([c.state.state_id for c in conflicts])}"
        )
        super().__init__(message)


class SRConflicts(LRConflicts):
    kind = "Shift/Reduce"


class RRConflicts(LRConflicts):
    kind = "Reduce/Reduce"


class LoopError(Exception):
    pass
