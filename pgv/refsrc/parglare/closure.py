from parglare.grammar import EMPTY, NonTerminal

LR_0 = 0
LR_1 = 1


def closure(state, itemset_type, first_sets=None):
    """
    For the given LRState calculates its LR(0)/LR(1) itemset closure.

    Args:
    state(LRState):
    itemset_type(int): LR_0 or LR_1
    first_sets(dict of sets): Used in LR_1 itemsets calculation.
    """
    from parglare.tables import LRItem

    items_to_process = list(state.items)
    while items_to_process:
        item = items_to_process.pop()
        symbol = item.symbol_at_position
        if not isinstance(symbol, NonTerminal):
            continue

        # Calculate follow set that is possible after the
        # non-terminal at the given position of the current
        # item.
        if itemset_type is LR_1:
            follow = _new_item_follow(item, first_sets)
        for prod in [p for p in state.grammar.productions if p.symbol == symbol]:
            new_item = LRItem(prod, 0, set(follow) if itemset_type is LR_1 else None)
            if new_item not in state.items:
                # If the item doesn't exists yet add it and reprocess it.
                state.items.append(new_item)
                items_to_process.append(new_item)
            elif itemset_type is LR_1:
                # If the item already exists, this newly created item might
                # still have a wider follows set. If so, update with the
                # current new item follows set if we are building LR_1 items
                # set.
                existing_item = next(i for i in state.items if i == new_item)
                if not follow.issubset(existing_item.follow):
                    existing_item.follow.update(follow)
                    # If there was an update in the follow set of the existing
                    # item we have to process it again as we have to update
                    # follows of all items that were created from it.
                    items_to_process.append(existing_item)


def _new_item_follow(item, first_sets):
    """
    Returns follow set of possible terminals after the item's current
    non-terminal.

    Args:
    item (LRItem): The source item which is causing the creation of the
        new item.
    first_sets(dict of sets): The dict of set of first items keyed by
        a grammar symbol.
    """

    new_follow = set()
    for s in item.production.rhs[item.position + 1 :]:
        new_follow.update(first_sets[s])
        if EMPTY not in new_follow:
            # If EMPTY can't be derived at current position then we have found
            # the whole follow set.
            break
        else:
            # If the EMPTY is possible at current position in this loop we must
            # continue to include firsts of the next grammar symbol. EMPTY
            # can't be a member of the follow set.
            new_follow.remove(EMPTY)
    else:
        # If the rest of production can be EMPTY we shall inherit all elements
        # of the source item follow set.
        new_follow.update(item.follow)

    return new_follow
