import ast
import json
import logging
from pathlib import Path
from typing import TYPE_CHECKING, Any, Dict, List, Tuple, Union

from parglare import termui
from parglare.actions import pass_none
from parglare.common import (
    ErrorContext,
    Location,
    pos_to_line_col,
    position_context,
)
from parglare.exceptions import (
    DisambiguationError,
    DynamicDisambiguationConflict,
    ParserInitError,
    RRConflicts,
    SRConflicts,
    SyntaxError,
    expected_symbols_str,
)

if TYPE_CHECKING:
    from parglare.glr import GLRParser
from parglare.grammar import EMPTY, STOP, Grammar
from parglare.tables import ACCEPT, LALR, REDUCE, SHIFT, SLR
from parglare.termui import a_print, h_print, prints
from parglare.trees import NodeNonTerm, NodeTerm

logger = logging.getLogger(__name__)


def hint_key(state: int, tokens_ahead: Union[List["Token"], None]) -> Tuple[Any, ...]:
    if tokens_ahead is not None:
        lookaheads = sorted([t.symbol.name for t in tokens_ahead])
    else:
        lookaheads = []
    return (state,) + tuple(lookaheads)


class Parser:
    """Parser works like a DFA driven by LR tables. For a given grammar LR table
    will be created and cached or loaded from cache if cache is found.
    """

    def __init__(
        self,
        grammar: Grammar,
        in_layout=False,
        actions=None,
        layout_actions=None,
        debug=False,
        debug_trace=False,
        debug_colors=False,
        debug_layout=False,
        ws="\n\r\t ",
        consume_input=True,
        build_tree=False,
        call_actions_during_tree_build=False,
        tables=LALR,
        return_position=False,
        prefer_shifts=None,
        prefer_shifts_over_empty=None,
        error_recovery=False,
        dynamic_filter=None,
        custom_token_recognition=None,
        lexical_disambiguation=True,
        force_load_table=False,
        table=None,
    ):
        self.grammar = grammar
        self.in_layout = in_layout

        EMPTY.action = pass_none
        if actions:
            self.grammar._resolve_actions(
                action_overrides=actions, fail_on_no_resolve=True
            )

        self.layout_parser = None
        if self.in_layout:
            start_production = grammar.get_production_id("LAYOUT")
        else:
            start_production = 1
            layout_symbol = grammar.get_symbol("LAYOUT")
            if layout_symbol:
                self.layout_parser = Parser(
                    grammar,
                    in_layout=True,
                    consume_input=False,
                    actions=layout_actions,
                    ws=None,
                    return_position=True,
                    prefer_shifts=True,
                    prefer_shifts_over_empty=True,
                    debug=debug_layout,
                )

        self.ws = ws
        self.return_position = return_position
        self.debug = debug
        self.debug_trace = debug_trace
        self.debug_colors = debug_colors
        termui.colors = debug_colors
        self.debug_layout = debug_layout

        self.consume_input = consume_input
        self.build_tree = build_tree
        self.call_actions_during_tree_build = call_actions_during_tree_build

        self.error_recovery = error_recovery
        self.dynamic_filter = dynamic_filter
        self.custom_token_recognition = custom_token_recognition
        self.lexical_disambiguation = lexical_disambiguation

        # should we clear transient state after parsing.
        self.clear_transient = True

        if table is None:
            from .closure import LR_0, LR_1
            from .tables import create_load_table

            itemset_type = LR_0 if tables == SLR else LR_1

            if prefer_shifts is None:
                prefer_shifts = True
            if prefer_shifts_over_empty is None:
                prefer_shifts_over_empty = True

            self.table = create_load_table(
                grammar,
                itemset_type=itemset_type,
                start_production=start_production,
                prefer_shifts=prefer_shifts,
                prefer_shifts_over_empty=prefer_shifts_over_empty,
                lexical_disambiguation=lexical_disambiguation,
                force_load=force_load_table,
                in_layout=self.in_layout,
                debug=debug,
            )
        else:
            self.table = table

            # warn about overriden parameters
            for name, value, default in [
                ("tables", tables, LALR),
                ("prefer_shifts", prefer_shifts, None),
                ("prefer_shifts_over_empty", prefer_shifts_over_empty, None),
                ("force_load_table", force_load_table, False),
            ]:
                if value is not default:
                    logger.warning(
                        "Precomputed table overrides value of parameter %s",
                        name,
                    )

        self._check_parser()
        if not self.in_layout:
            self.error_hints = self._custom_error_hints()

        if debug:
            self.print_debug()

    def _check_parser(self):
        if self.table.sr_conflicts:
            self.print_debug()
            if self.dynamic_filter:
                unhandled_conflicts = []
                for src in self.table.sr_conflicts:
                    if not src.dynamic:
                        unhandled_conflicts.append(src)
            else:
                unhandled_conflicts = self.table.sr_conflicts

            if unhandled_conflicts:
                raise SRConflicts(unhandled_conflicts)

        # Reduce/Reduce conflicts are fatal for LR parsing
        if self.table.rr_conflicts:
            self.print_debug()
            if self.dynamic_filter:
                unhandled_conflicts = []
                for rrc in self.table.rr_conflicts:
                    if not rrc.dynamic:
                        unhandled_conflicts.append(rrc)
            else:
                unhandled_conflicts = self.table.rr_conflicts

            if unhandled_conflicts:
                raise RRConflicts(unhandled_conflicts)

    def _custom_error_hints(self) -> Union[Dict[Tuple, str], None]:
        """If custom error hints file exists check if it needs compiling and if
        so perform compilation.

        """
        if self.grammar.file_path is None:
            return None

        def compile_errors(hints_file: Path) -> Dict[Tuple, str]:
            # Parse hints file
            examples = []
            with open(hints_file) as f:
                example_src: List[str] = []
                hint: List[str] = []
                in_example = True
                lookahead = False

                def new_example():
                    nonlocal example_src, hint, lookahead, in_example
                    examples.append(
                        {
                            "example": "".join(example_src),
                            "hint": "\n".join(hint),
                            "lookahead": lookahead,
                        }
                    )
                    example_src = []
                    hint = []
                    in_example = True

                for line in f:
                    if not in_example and line.strip() == "":
                        continue
                    if line.startswith("====="):
                        new_example()
                        continue

                    if line.startswith(":::"):
                        lookahead = line[3] == "+"
                        in_example = False
                        continue

                    if in_example:
                        example_src.append(line)
                    else:
                        hint.append(line.strip())

                new_example()

            compiled_examples = {}
            self.clear_transient = False
            for example in examples:
                try:
                    self.parse(example["example"])
                except SyntaxError as e:
                    del example["example"]
                    states = []
                    try:
                        states = [self.parse_stack[-1].state.state_id]
                    except AttributeError:
                        # We are using GLR
                        if TYPE_CHECKING:
                            assert isinstance(self, GLRParser)
                        states = self._active_heads.keys()
                    lookahead = example.pop("lookahead")
                    lookaheads = e.tokens_ahead if lookahead else None
                    for state in states:
                        key = hint_key(state, lookaheads)
                        compiled_examples[key] = example["hint"]
            self.clear_transient = True

            return compiled_examples

        self._in_error_hints = True
        grammar_file = Path(self.grammar.file_path)
        hints_file = grammar_file.with_suffix(".pge")
        compiled_hints = None
        if hints_file.exists():
            hints_file_compiled = hints_file.with_suffix(".pgec")
            if (
                not hints_file_compiled.exists()
                or any(
                    Path(g_file).stat().st_mtime > hints_file_compiled.stat().st_mtime
                    for g_file in self.grammar.imported_files
                )
                or hints_file.stat().st_mtime > hints_file_compiled.stat().st_mtime
            ):
                # Compilation is needed
                compiled_hints = compile_errors(hints_file)
                with open(hints_file_compiled, "w") as f:
                    serializable = {str(k): v for k, v in compiled_hints.items()}
                    json.dump(serializable, f)
            else:
                with open(hints_file_compiled) as f:
                    loaded = json.load(f)
                    compiled_hints = {ast.literal_eval(k): v for k, v in loaded.items()}

        del self._in_error_hints
        return compiled_hints

    def print_debug(self):
        if self.in_layout and self.debug_layout:
            a_print("*** LAYOUT parser ***", new_line=True)
        self.table.print_debug()

    def parse_file(self, file_name, **kwargs):
        """
        Parses content from the given file.
        Args:
            file_name(str): A file name.
        """
        with open(file_name, encoding="utf-8") as f:
            content = f.read()
        return self.parse(content, file_name=file_name, **kwargs)

    def parse(self, input_str, position=0, file_name=None, extra=None):
        """
        Parses the given input string.
        Args:
            input_str(str): A string to parse.
            position(int): Position to start from.
            file_name(str): File name if applicable. Used in error reporting.
            extra: An object that keeps custom parsing state. If not given
                initialized to dict.
        """

        if self.debug:
            a_print("*** PARSING STARTED", new_line=True)

        extra = {} if extra is None else extra

        self.errors = []
        self.in_error_recovery = False

        next_token = self._next_token
        debug = self.debug

        accepted_head = None
        start_head = LRStackNode(
            file_name,
            input_str,
            self.table.states[0],
            0,
            position,
            extra,
            start_position=position,
            end_position=position,
        )
        self._init_dynamic_disambiguation(start_head)
        self.parse_stack = parse_stack = [start_head]

        while True:
            head = parse_stack[-1]
            cur_state = head.state
            if debug:
                a_print("Current state:", str(cur_state.state_id), new_line=True)

            if head.token_ahead is None:
                if not self.in_layout:
                    self._skipws(head, input_str)
                    if self.debug:
                        h_print(
                            "Layout content:",
                            f"'{head.layout_content}'",
                            level=1,
                        )

                head.token_ahead = next_token(head)

            if debug:
                h_print(
                    "Context:",
                    position_context(head.input_str, head.position),
                    level=1,
                )
                h_print(
                    "Tokens expected:",
                    expected_symbols_str(cur_state.actions.keys()),
                    level=1,
                )
                h_print("Token ahead:", head.token_ahead, level=1)

            actions = None
            if head.token_ahead is not None:
                actions = cur_state.actions.get(head.token_ahead.symbol)
            if not actions and not self.consume_input:
                # If we don't have any action for the current token ahead
                # see if we can finish without consuming the whole input.
                actions = cur_state.actions.get(STOP)

            if not actions:
                symbols_expected = list(cur_state.actions.keys())
                tokens_ahead = self._get_all_possible_tokens_ahead(head)
                self.errors.append(
                    self._create_error(
                        input_str,
                        head,
                        symbols_expected,
                        tokens_ahead,
                        symbols_before=[cur_state.symbol],
                    )
                )

                if self.error_recovery:
                    if self.debug:
                        a_print("*** STARTING ERROR RECOVERY.", new_line=True)
                    if self._do_recovery():
                        # Error recovery succeeded
                        if self.debug:
                            a_print(
                                "*** ERROR RECOVERY SUCCEEDED. CONTINUING.",
                                new_line=True,
                            )
                        continue
                    else:
                        break
                else:
                    break

            # Dynamic disambiguation
            if self.dynamic_filter:
                actions = self._dynamic_disambiguation(head, actions)

                # If after dynamic disambiguation we still have at least one
                # shift and non-empty reduction or multiple non-empty
                # reductions raise exception.
                if (
                    len(
                        [
                            a
                            for a in actions
                            if (a.action is SHIFT)
                            or ((a.action is REDUCE) and len(a.prod.rhs))
                        ]
                    )
                    > 1
                ):
                    raise DynamicDisambiguationConflict(head, actions)

            # If dynamic disambiguation is disabled either globaly by not
            # giving disambiguation function or localy by not marking
            # any production dynamic for this state take the first action.
            # First action is either SHIFT while there might be empty
            # reductions, or it is the only reduction.
            # Otherwise, parser construction should raise an error.
            act = actions[0]

            if act.action is SHIFT:
                cur_state = act.state

                if debug:
                    a_print(
                        "Shift:",
                        f'{cur_state.state_id} "{head.token_ahead.value}"'
                        + " at position "
                        + str(pos_to_line_col(input_str, head.position)),
                        level=1,
                    )

                new_position = head.position + len(head.token_ahead)
                new_head = LRStackNode(
                    file_name,
                    input_str,
                    state=act.state,
                    frontier=head.frontier + 1,
                    token=head.token_ahead,
                    extra=head.extra,
                    layout_content=head.layout_content_ahead,
                    position=new_position,
                    start_position=head.position,
                    end_position=new_position,
                )
                new_head.results = self._call_shift_action(new_head)
                parse_stack.append(new_head)

                self.in_error_recovery = False

            elif act.action is REDUCE:
                # if this is EMPTY reduction try to take another if
                # exists.
                if len(act.prod.rhs) == 0 and len(actions) > 1:
                    act = actions[1]
                production = act.prod

                if debug:
                    a_print("Reducing", f"by prod '{production}'.", level=1)

                r_length = len(production.rhs)
                if r_length:
                    start_reduction_head = parse_stack[-r_length]
                    results = [x.results for x in parse_stack[-r_length:]]
                    del parse_stack[-r_length:]
                    next_state = parse_stack[-1].state.gotos[production.symbol]
                    new_head = LRStackNode(
                        file_name,
                        input_str,
                        state=next_state,
                        frontier=head.frontier,
                        position=head.position,
                        extra=head.extra,
                        production=production,
                        start_position=start_reduction_head.start_position,
                        end_position=head.end_position,
                        token_ahead=head.token_ahead,
                        layout_content=start_reduction_head.layout_content,
                        layout_content_ahead=head.layout_content_ahead,
                    )
                else:
                    # Empty reduction
                    results = []
                    next_state = cur_state.gotos[production.symbol]
                    new_head = LRStackNode(
                        file_name,
                        input_str,
                        state=next_state,
                        frontier=head.frontier,
                        position=head.position,
                        extra=head.extra,
                        production=production,
                        start_position=head.end_position,
                        end_position=head.end_position,
                        token_ahead=head.token_ahead,
                        layout_content="",
                        layout_content_ahead=head.layout_content_ahead,
                    )

                # Calling reduce action
                new_head.results = self._call_reduce_action(new_head, results)
                parse_stack.append(new_head)

            elif act.action is ACCEPT:
                accepted_head = head
                break

        if accepted_head:
            if debug:
                a_print("SUCCESS!!!")
            if self.return_position:
                return parse_stack[1].results, parse_stack[1].position
            else:
                return parse_stack[1].results
        else:
            error = self.errors[-1]
            del self.errors
            raise error

    def call_actions(self, node):
        """
        Calls semantic actions for the given tree node.
        """

        def inner_call_actions(node):
            sem_action = node.symbol.action
            if node.is_term():
                if sem_action:
                    try:
                        result = sem_action(
                            node.context, node.value, *node.additional_data
                        )
                    except TypeError as e:
                        raise TypeError(
                            "{}: terminal={} action={} params={}".format(
                                str(e),
                                node.symbol.name,
                                repr(sem_action),
                                (
                                    node.context,
                                    node.value,
                                    node.additional_data,
                                ),
                            )
                        ) from e
                else:
                    result = node.value
            else:
                subresults = []
                # Recursive right to left, bottom up. Simulate LR
                # reductions.
                for n in reversed(node):
                    subresults.append(inner_call_actions(n))
                subresults.reverse()

                if sem_action:
                    assignments = node.production.assignments
                    if assignments:
                        assgn_results = {}
                        for a in assignments.values():
                            if a.op == "=":
                                assgn_results[a.name] = subresults[a.index]
                            else:
                                assgn_results[a.name] = bool(subresults[a.index])
                    if isinstance(sem_action, list):
                        if assignments:
                            result = sem_action[node.production.prod_symbol_id](
                                node, subresults, **assgn_results
                            )
                        else:
                            result = sem_action[node.production.prod_symbol_id](
                                node.context, subresults
                            )
                    else:
                        if assignments:
                            result = sem_action(node.context, subresults, **assgn_results)
                        else:
                            result = sem_action(node.context, subresults)
                else:
                    result = subresults[0] if len(subresults) == 1 else subresults

            return result

        return inner_call_actions(node)

    def _skipws(self, head, input_str):
        in_len = len(input_str)
        layout_content_ahead = ""

        if self.layout_parser:
            _, pos = self.layout_parser.parse(input_str, head.position)
            if pos > head.position:
                layout_content_ahead = input_str[head.position : pos]
                head.position = pos
        elif self.ws:
            old_pos = head.position
            try:
                while head.position < in_len and input_str[head.position] in self.ws:
                    head.position += 1
            except TypeError as ex:
                raise ParserInitError(
                    "For parsing non-textual content please set `ws` to `None`."
                ) from ex
            layout_content_ahead = input_str[old_pos : head.position]

        if self.debug:
            content = layout_content_ahead
            if isinstance(layout_content_ahead, str):
                content = content.replace("\n", "\\n")
            h_print("Skipping whitespaces:", f"'{content}'")
            h_print("New position:", pos_to_line_col(input_str, head.position))
        head.layout_content_ahead = layout_content_ahead

    def _next_token(self, head):
        tokens = self._next_tokens(head)
        if not tokens:
            return None
        elif len(tokens) == 1:
            return tokens[0]
        else:
            raise DisambiguationError(Location(ErrorContext(head)), tokens)

    def _next_tokens(self, head):
        """
        For the current position in the input stream and actions in the current
        state find next tokens. This function must return only tokens that
        are relevant to specified context - ie it mustn't return a token
        if it's not expected by any action in given state.
        """
        state = head.state
        input_str = head.input_str
        position = head.position
        actions = state.actions
        in_len = len(input_str)
        tokens = []

        # add special STOP token if they are applicable
        if STOP in actions and (
            not self.consume_input or (self.consume_input and position == in_len)
        ):
            tokens.append(STOP_token)

        if position < in_len:
            # Get tokens by trying recognizers - but only if we are not at
            # the end, because token cannot be empty
            if self.custom_token_recognition:

                def get_tokens():
                    return self._token_recognition(head)

                custom_tokens = self.custom_token_recognition(
                    head,
                    get_tokens,
                )
                if custom_tokens is not None:
                    tokens.extend(custom_tokens)
            else:
                tokens.extend(self._token_recognition(head))

        # do lexical disambiguation if it is enabled
        if self.lexical_disambiguation:
            tokens = self._lexical_disambiguation(tokens)

        return tokens

    def _token_recognition(self, head):
        input_str = head.input_str
        actions = head.state.actions
        position = head.position
        finish_flags = head.state.finish_flags

        tokens = []
        last_prior = -1
        for idx, symbol in enumerate(actions):
            if symbol.prior < last_prior and tokens:
                break
            last_prior = symbol.prior
            try:
                tok = symbol.recognizer(input_str, position)
            except TypeError:
                try:
                    tok = symbol.recognizer(head, input_str, position)
                except TypeError as e:
                    raise TypeError(f'In recognizer for "{symbol}": {e}') from e

            additional_data = ()
            if type(tok) is tuple:
                tok, *additional_data = tok
            if tok:
                tokens.append(Token(symbol, tok, position, additional_data))
                if finish_flags[idx]:
                    break
        return tokens

    def _get_all_possible_tokens_ahead(self, context):
        """
        Check what is ahead no matter the current state.
        Just check with all recognizers available.
        """
        tokens = []
        if context.position < len(context.input_str):
            for terminal in self.grammar.terminals.values():
                if (
                    terminal.user_meta is not None
                    and terminal.user_meta.get("unexpected", True) is False
                ):
                    continue
                if terminal.name == "KEYWORD":
                    continue
                try:
                    tok = terminal.recognizer(context.input_str, context.position)
                except TypeError:
                    tok = terminal.recognizer(
                        context, context.input_str, context.position
                    )
                additional_data = ()
                if type(tok) is tuple:
                    tok, *additional_data = tok
                if tok:
                    tokens.append(Token(terminal, tok, context.position, additional_data))
        return tokens

    def _init_dynamic_disambiguation(self, context):
        if self.dynamic_filter:
            if self.debug:
                prints("\tInitializing dynamic disambiguation.")
            self.dynamic_filter(context, None, None, None, None, None)

    def _dynamic_disambiguation(self, context, actions):
        dyn_actions = []
        for a in actions:
            if a.action is SHIFT:
                if self._call_dynamic_filter(context, context.state, a.state, SHIFT):
                    dyn_actions.append(a)
            elif a.action is REDUCE:
                r_len = len(a.prod.rhs)
                results = [x.results for x in self.parse_stack[-r_len:]] if r_len else []
                context.production = a.prod
                if self._call_dynamic_filter(
                    context, context.state, a.state, REDUCE, a.prod, results
                ):
                    dyn_actions.append(a)
            else:
                dyn_actions.append(a)
        return dyn_actions

    def _call_dynamic_filter(
        self,
        context,
        from_state,
        to_state,
        action,
        production=None,
        subresults=None,
    ):
        token = context.token
        if context.token is None:
            context.token = context.token_ahead
        if (action is SHIFT and not to_state.symbol.dynamic) or (
            action is REDUCE and not production.dynamic
        ):
            return True

        if self.debug:
            if action is SHIFT:
                act_str = "SHIFT"
                token = context.token
                production_str = ""
                subresults_str = ""
            else:
                act_str = "REDUCE"
                token = context.token_ahead
                production_str = f", prod={context.production}"
                subresults_str = f", subresults={subresults}"

            h_print(
                "Calling filter for action:",
                f" {act_str}, token={token}{production_str}{subresults_str}",
                level=2,
            )

        accepted = self.dynamic_filter(
            context, from_state, to_state, action, production, subresults
        )
        if self.debug:
            if accepted:
                a_print("Action accepted.", level=2)
            else:
                a_print("Action rejected.", level=2)

        return accepted

    def _call_shift_action(self, context):
        """
        Calls registered shift action for the given grammar symbol.
        """
        debug = self.debug
        token = context.token
        sem_action = token.symbol.action

        if self.build_tree:
            # call action for building tree node if tree building is enabled
            if debug:
                h_print("Building terminal node", f"'{token.symbol.name}'.", level=2)

            # If both build_tree and call_actions_during_build are set to
            # True, semantic actions will be call but their result will be
            # discarded. For more info check following issue:
            # https://github.com/igordejanovic/parglare/issues/44
            if self.call_actions_during_tree_build and sem_action:
                sem_action(context, token.value, *token.additional_data)

            return NodeTerm(context, token)

        if sem_action:
            result = sem_action(context, token.value, *token.additional_data)

        else:
            if debug:
                h_print(
                    "No action defined",
                    f"for '{token.symbol.name}'. Result is matched string.",
                    level=1,
                )
            result = token.value

        if debug:
            h_print(
                "Action result = ",
                f"type:{type(result)} value:{repr(result)}",
                level=1,
            )

        return result

    def _call_reduce_action(self, context, subresults):
        """
        Calls registered reduce action for the given grammar symbol.
        """
        debug = self.debug
        result = None
        bt_result = None
        production = context.production

        if self.build_tree:
            # call action for building tree node if enabled.
            if debug:
                h_print(
                    "Building non-terminal node",
                    f"'{production.symbol.name}'.",
                    level=2,
                )

            bt_result = NodeNonTerm(context, children=subresults, production=production)
            context.node = bt_result
            if not self.call_actions_during_tree_build:
                return bt_result

        sem_action = production.symbol.action
        if sem_action:
            assignments = production.assignments
            if assignments:
                assgn_results = {}
                for a in assignments.values():
                    if a.op == "=":
                        assgn_results[a.name] = subresults[a.index]
                    else:
                        assgn_results[a.name] = bool(subresults[a.index])

            if isinstance(sem_action, list):
                if assignments:
                    result = sem_action[production.prod_symbol_id](
                        context, subresults, **assgn_results
                    )
                else:
                    result = sem_action[production.prod_symbol_id](context, subresults)
            else:
                if assignments:
                    result = sem_action(context, subresults, **assgn_results)
                else:
                    result = sem_action(context, subresults)

        else:
            if debug:
                h_print(
                    "No action defined",
                    f" for '{production.symbol.name}'.",
                    level=1,
                )
            if len(subresults) == 1:
                if debug:
                    h_print("Unpacking a single subresult.", level=1)
                result = subresults[0]
            else:
                if debug:
                    h_print("Result is a list of subresults.", level=1)
                result = subresults

        if debug:
            h_print(
                "Action result =",
                f"type:{type(result)} value:{repr(result)}",
                level=1,
            )

        # If build_tree is set to True, discard the result of the semantic
        # action, and return the result of treebuild_reduce_action.
        return bt_result if bt_result is not None else result

    def _lexical_disambiguation(self, tokens):
        """
        For the given list of matched tokens apply disambiguation strategy.

        Args:
        tokens (list of Token)
        """

        if self.debug:
            h_print(
                "Lexical disambiguation.",
                f" Tokens: {[x for x in tokens]}",
                level=1,
            )

        if len(tokens) <= 1:
            return tokens

        # Longest-match strategy.
        max_len = max(len(x.value) for x in tokens)
        tokens = [x for x in tokens if len(x.value) == max_len]
        if self.debug:
            h_print(
                "Disambiguation by longest-match strategy.",
                f"Tokens: {[x for x in tokens]}",
                level=1,
            )
        if len(tokens) == 1:
            return tokens

        # try to find preferred token.
        pref_tokens = [x for x in tokens if x.symbol.prefer]
        if pref_tokens:
            if self.debug:
                h_print(f"Preferring tokens {pref_tokens}.", level=1)
            return pref_tokens

        return tokens

    def _do_recovery(self):
        debug = self.debug
        if debug:
            a_print("**Recovery initiated.**")

        head = self.parse_stack[-1]
        error = self.errors[-1]

        if isinstance(self.error_recovery, bool):
            # Default recovery
            if debug:
                prints("\tDoing default error recovery.")
            successful = self.default_error_recovery(head)
        else:
            # Custom recovery provided during parser construction
            if debug:
                prints("\tDoing custom error recovery.")
            successful = self.error_recovery(head, error, self.default_error_recovery)

        # The recovery may either decide to skip erroneous part of
        # the input and resume at the place that can continue or it
        # might decide to fill in missing tokens.
        if successful:
            if debug:
                h_print("Recovery ")
            error.location.end_position = head.position
            if debug:
                a_print(
                    "New position is ",
                    pos_to_line_col(head.input_str, head.position),
                    level=1,
                )
                a_print("New lookahead token is ", head.token_ahead, level=1)
        return successful

    def default_error_recovery(self, head):
        """
        The default recovery strategy is to search from the current location
        for expected terminals.

        Returns True if successful, False otherwise.
        """

        while head.position < len(head.input_str):
            head.position += 1
            tokens = self._next_tokens(head)
            if tokens:
                # More than one token means lexical ambiguity. Leave it to the
                # parser to fetch the lookahead(s) at the new position.
                head.token_ahead = tokens[0] if len(tokens) == 1 else None
                return True
        return False

    def _create_error(
        self,
        input,
        context,
        symbols_expected,
        tokens_ahead=None,
        symbols_before=None,
        last_heads=None,
    ):
        hint = None
        if (
            not self.in_layout
            and not hasattr(self, "_in_error_hints")
            and self.error_hints is not None
        ):
            # Check if a specific version with tokens ahead is available
            hint = self.error_hints.get(
                hint_key(context.state.state_id, tokens_ahead), None
            )
            if hint is None:
                # Check if more generic version without tokens ahead is availabe
                hint = self.error_hints.get(hint_key(context.state.state_id, None), None)

        error = SyntaxError(
            Location(context=ErrorContext(context)),
            input,
            symbols_expected,
            tokens_ahead,
            symbols_before=symbols_before,
            last_heads=last_heads,
            grammar=self.grammar,
            hint=hint,
        )

        if self.debug:
            a_print("Error: ", error, level=1)

        return error


class LRStackNode:
    """
    An element of the LR parsing stack. Also the parsing context.
    """

    __slots__ = [
        "file_name",
        "input_str",
        "state",
        "frontier",
        "position",
        "extra",
        "results",
        "start_position",
        "end_position",
        "token_ahead",
        "token",
        "production",
        "layout_content",
        "layout_content_ahead",
        "node",
    ]

    def __init__(
        self,
        file_name,
        input_str,
        state,
        frontier,
        position,
        extra,
        results=None,
        start_position=None,
        end_position=None,
        token=None,
        token_ahead=None,
        production=None,
        layout_content="",
        layout_content_ahead="",
    ):
        self.file_name = file_name
        self.input_str = input_str
        self.state = state
        self.frontier = frontier
        self.position = position
        self.extra = extra

        self.results = results

        self.start_position = start_position
        self.end_position = end_position

        self.token_ahead = token_ahead

        # For shift nodes
        self.token = token

        # For reduced nodes
        self.production = production

        self.layout_content = layout_content
        self.layout_content_ahead = layout_content_ahead

        # Parse tree node used if parse tree is produced
        self.node = None

    def __repr__(self):
        return "<LRStackNode({}:{}{})>".format(
            self.state.state_id,
            self.state.symbol,
            f", pos=({self.start_position}-{self.end_position})"
            if self.start_position is not None
            else "",
        )

    @property
    def symbol(self):
        return self.state.symbol


class Token:
    """
    Token or lexeme matched from the input.
    """

    __slots__ = ["symbol", "value", "additional_data", "length", "position"]

    def __init__(self, symbol, value, position, additional_data=(), length=None):
        self.symbol = symbol
        self.value = value
        self.additional_data = additional_data
        self.length = length if length is not None else len(value)
        self.position = position

    def __repr__(self):
        if str(self.symbol) != self.value:
            return f"{str(self.symbol)}({str(self.value)})"
        else:
            return self.value

    def __len__(self):
        return self.length

    @property
    def end_position(self):
        return self.position + self.length

    def __bool__(self):
        return True


STOP_token = Token(STOP, "", None)
