from functools import reduce

from parglare.common import dot_escape
from parglare.exceptions import LoopError

DOT_HEADER = """
    digraph grammar {
    rankdir=TD
    fontname = "Bitstream Vera Sans"
    fontsize = 8
    nodesep = 0.2
    edge[dir=black,arrowtail=empty, fontsize=6 arrowsize=.5 penwidth=0.7]
    node[shape=plain height=0.1 width=0.1]

"""


def tree_node_iterator(n):
    """
    Iterator for forests and trees nodes. Used in visitors.
    """
    from parglare.glr import Parent

    if isinstance(n, Parent):
        return iter(n.possibilities)
    elif n.is_term():
        return iter([])
    else:

        def _iter():
            for i in n.children:
                if isinstance(i, Parent) and len(i.possibilities) == 1:
                    yield i.possibilities[0]
                else:
                    yield i

        return _iter()


def to_str(root):
    from parglare.glr import Parent

    def visit(n, subresults, depth):
        indent = "  " * depth
        if isinstance(n, Parent):
            s = f"{indent}{n.head.symbol} - ambiguity[{n.ambiguity}]"
            for idx, p in enumerate(subresults):
                s += f"\n{indent}{idx + 1}:{p}"
        elif n.is_nonterm():
            s = f"{indent}{n.production.symbol}[{n.start_position}->{n.end_position}]"
            if subresults:
                s = "{}\n{}".format(s, "\n".join(subresults))
        else:
            s = f'{indent}{n.symbol}[{n.start_position}->{n.end_position}, "{n.value}"]'
        return s

    return visitor(root, tree_node_iterator, visit)


def to_dot(self, positions=True):
    from parglare.glr import Parent

    rendered = set()
    terminals = []

    def visit(n, subresults, _):
        sub_str = "".join(s[1] for s in subresults if id(s[1]) not in rendered)
        rendered.update(id(s[1]) for s in subresults)
        pos = f"[{n.start_position}-{n.end_position}]" if positions else ""
        if isinstance(n, Parent):
            s = '{}[label="Amb({},{})" shape=box];\n'.format(
                id(n), dot_escape(f"{n.head.symbol}{pos}"), n.ambiguity
            )
            s += sub_str
            s += "".join(f"{id(n)}->{id(s[0])};\n" for s in subresults)
        elif n.is_nonterm():
            s = '{}[label="{}"];\n'.format(id(n), dot_escape(f"{n.symbol}{pos}"))
            s += sub_str
            s += "".join(
                (
                    f'{id(n)}->{id(s[0])}[label="{idx + 1}"];\n'
                    for idx, s in enumerate(subresults)
                )
            )
        else:
            terminals.append(n)
            label = (
                f"{n.symbol}({n.value[:10]})"
                if n.symbol.name != n.value
                else n.symbol.name
            )
            s = '{} [label="{}"];\n'.format(id(n), dot_escape(f"{label}{pos}"))
        return (n, s)

    return "{}\n{}\n{}\n}}\n".format(
        DOT_HEADER,
        visitor(self, tree_node_iterator, visit)[1],
        "{{rank=same {} [style=invis]}}".format("->".join(str(id(t)) for t in terminals)),
    )


class Node:
    """A node of the parse tree."""

    __slots__ = ["context"]

    def __init__(self, context):
        self.context = context

    def __repr__(self):
        return str(self)

    def __iter__(self):
        return iter([])

    def __reversed__(self):
        return iter([])

    def __getattr__(self, name):
        return getattr(self.context, name)

    def is_nonterm(self):
        return False

    def is_term(self):
        return False

    def to_str(self):
        return to_str(self)

    def to_dot(self, positions=True):
        return to_dot(self, positions)


class NodeNonTerm(Node):
    __slots__ = ["production", "children"]

    def __init__(self, context, children, production=None):
        super().__init__(context)
        self.children = children
        self.production = production

    @property
    def solutions(self):
        "For SPPF trees"
        return reduce(lambda x, y: x * y, (c.solutions for c in self.children), 1)

    @property
    def symbol(self):
        return self.production.symbol

    def is_nonterm(self):
        return True

    def __str__(self):
        return (
            f"NonTerm({self.production.symbol}, "
            f"{self.start_position}-{self.end_position})"
        )

    def __iter__(self):
        return iter(self.children)

    def __reversed__(self):
        return reversed(self.children)


class NodeTerm(Node):
    def __init__(self, context, token=None):
        super().__init__(context)
        self.token = token

    @property
    def symbol(self):
        return self.token.symbol

    @property
    def value(self):
        return self.token.value

    @property
    def additional_data(self):
        return self.token.additional_data

    @property
    def solutions(self):
        "For SPPF trees"
        return 1

    def is_term(self):
        return True

    def __str__(self):
        return (
            f'Term({self.symbol} "{self.value[:20]}", '
            f"{self.start_position}-{self.end_position})"
        )


class Tree:
    """
    Represents a tree from the parse forest.
    """

    __slots__ = ["root", "children"]

    def __init__(self, root, counter):
        possibility = 0
        if counter > 0 and len(root.possibilities) > 1:
            # Find the right possibility bucket
            solutions = root.possibilities[possibility].solutions
            while solutions <= counter:
                counter -= solutions
                possibility += 1
                solutions = root.possibilities[possibility].solutions

        self.root = root.possibilities[possibility]
        self._init_children(counter)

    def _init_children(self, counter):
        if self.root.is_nonterm():
            self.children = self._enumerate_children(counter)
        else:
            self.children = None

    def _enumerate_children(self, counter):
        children = []
        # Calculate counter division based on weighted numbering system.
        # Basically, enumerating variations of children solutions.
        weights = [c.solutions for c in self.root.children]
        for idx, c in enumerate(self.root.children):
            factor = reduce(lambda x, y: x * y, weights[idx + 1 :], 1)
            new_counter = counter // factor
            counter %= factor
            children.append(self.__class__(c, new_counter))
        return children

    def to_str(self):
        return to_str(self)

    def to_dot(self, positions=True):
        return to_dot(self, positions)

    def __iter__(self):
        return iter(self.children or [])

    def __reversed__(self):
        return reversed(self.children or [])

    def __getitem__(self, idx):
        return self.children[idx]

    def __getattr__(self, attr):
        # Proxy to tree node
        return getattr(self.root, attr)


class LazyTree(Tree):
    """
    Represents a lazy tree from the parse forest.

    Attributes:
    root(Parent):
    counter(int):
    """

    __slots__ = ["root", "counter", "_children"]

    def __init__(self, root, counter):
        self._children = None
        super().__init__(root, counter)

    def _init_children(self, counter):
        self.counter = counter

    def __getattr__(self, attr):
        if attr == "children":
            if self._children is None and self.root.is_nonterm():
                self._children = self._enumerate_children(self.counter)
            return self._children
        # Proxy to tree node
        return getattr(self.root, attr)


class Forest:
    """
    Shared packed forest returned by the GLR parser.
    Creates lazy tree enumerators and enables iteration over trees.
    """

    def __init__(self, parser):
        self.parser = parser
        results = [p for r in parser._accepted_heads for p in r.parents.values()]
        self.result = results.pop()
        while results:
            result = results.pop()
            self.result.merge(result)

    def _check_index(self, idx):
        if not 0 <= idx < self.solutions:
            raise IndexError("Forest tree index out of range")

    def get_tree(self, idx=0):
        self._check_index(idx)
        return LazyTree(self.result, idx)

    def get_nonlazy_tree(self, idx=0):
        self._check_index(idx)
        return Tree(self.result, idx)

    def get_first_tree(self):
        """
        Gets tree 0 fully unpacked. May be used for optimization purposes where
        it doesn't matter which tree we get. The unpacked tree is faster to iterate.
        """
        from parglare.glr import Parent

        def tree_iterator(n):
            if isinstance(n, Parent):
                return iter([n.possibilities[0]])
            elif n.is_nonterm():
                return iter(n.children)
            else:
                return iter([])

        def visit(n, subresults, _):
            if isinstance(n, Parent):
                return subresults[0]
            elif n.is_nonterm():
                # Clone NodeNonTerm to preserve the forest
                return NodeNonTerm(n.context, subresults, n.production)
            else:
                return n

        return visitor(self.result.possibilities[0], tree_iterator, visit)

    @property
    def solutions(self):
        return self.result.solutions

    @property
    def ambiguities(self):
        "Number of ambiguous nodes in this forest."
        return self.result.ambiguities

    def disambiguate(self, disamfun):
        """
        Visit all Parent nodes with len(possibilities) > 1 with a given
        `disamfun` which accepts the Parent and should modify it to remove
        all invalid possibilities.
        """
        from parglare.glr import Parent

        def tree_iterator(n):
            return iter(n)

        def visit(n, _, __):
            if isinstance(n, Parent) and len(n.possibilities) > 1:
                disamfun(n)

        self.result._solutions = None
        return visitor(self.result, tree_iterator, visit)

    def __str__(self):
        return f"Forest({self.solutions})"

    def to_str(self):
        return self.result.to_str()

    def to_dot(self, positions=True):
        return self.result.to_dot(positions)

    def __len__(self):
        return self.solutions

    def __iter__(self):
        for i in range(self.solutions):
            yield self.get_tree(i)

    def __getitem__(self, idx):
        return self.get_tree(idx)

    def nonlazy_iter(self):
        for i in range(self.solutions):
            yield self.get_nonlazy_tree(i)


def visitor(root, iterator, visit, memoize=True, check_cycle=False):
    """Generic iterative depth-first visitor with memoization.

    Accepts the start of the structure to visit (root), iterator callable which
    gets called to get the next elements to visit and `visit` function which
    is called with the element and sub-results of the iterated child elements.
    Should return the result for the given node.

    Memoize parameter uses cache to store the results of already visited elements.

    """
    if memoize:
        cache = {}
    stack = [(root, iterator(root), [])]
    if check_cycle:
        visiting = set([id(root)])
    while stack:
        node, it, results = stack[-1]
        try:
            next_elem = next(it)
        except StopIteration:
            # No more sub-elements for this node
            stack.pop()
            if check_cycle:
                visiting.remove(id(node))
            result = visit(node, results, len(stack))
            if memoize:
                # Store node to preserve the reference to it.
                # Otherwise node may be freed by garbage collector.
                cache[id(node)] = result, node
            if stack:
                stack[-1][-1].append(result)
            continue
        if check_cycle and id(next_elem) in visiting:
            raise LoopError(
                f'Looping during traversal on "{next_elem}". '
                f"Last elements: {[r[0] for r in stack[-10:]]}"
            )
        if memoize and id(next_elem) in cache:
            results.append(cache[id(next_elem)][0])
        else:
            stack.append((next_elem, iterator(next_elem), []))
            if check_cycle:
                visiting.add(id(next_elem))

    return result
