import contextlib
import logging
import os
from collections import OrderedDict
from itertools import chain

from parglare.closure import LR_1, closure
from parglare.exceptions import GrammarError, RRConflict, SRConflict
from parglare.grammar import (
    ASSOC_LEFT,
    ASSOC_RIGHT,
    AUGSYMBOL,
    DEFAULT_PRIORITY,
    EMPTY,
    STOP,
    Grammar,
    NonTerminal,
    ProductionRHS,
    RegExRecognizer,
    StringRecognizer,
)
from parglare.tables.persist import load_table, save_table
from parglare.termui import a_print, h_print, prints, s_emph, s_header

logger = logging.getLogger(__name__)


SHIFT = 0
REDUCE = 1
ACCEPT = 2

# Tables construction algorithms
SLR = 0
LALR = 1


def create_load_table(
    grammar,
    itemset_type=LR_1,
    start_production=1,
    prefer_shifts=False,
    prefer_shifts_over_empty=True,
    force_create=False,
    force_load=False,
    in_layout=False,
    debug=False,
    **kwargs,
):
    """
    Construct table by loading from file if present and newer than the grammar.
    If table file is older than the grammar or non-existent calculate the table
    and save to file.

    Arguments:
    see create_table

    force_create(bool): If set to True table will be created even if table file
        exists.
    force_load(bool): If set to True table will be loaded if exists even if
        it's not newer than the grammar, i.e. modification time will not be
        checked.

    """

    if in_layout:
        # For layout grammars always calculate table.
        # Those are usually very small grammars so there is no point in
        # using cached tables.
        if debug:
            a_print(
                "** Calculating LR table for the layout parser...",
                new_line=True,
            )
        return create_table(
            grammar,
            itemset_type,
            start_production,
            prefer_shifts,
            prefer_shifts_over_empty,
        )
    else:
        if debug:
            a_print("** Calculating LR table...", new_line=True)

    table_file_name = None
    if grammar.file_path:
        file_basename, _ = os.path.splitext(grammar.file_path)
        table_file_name = f"{file_basename}.pgc"

    create_table_file = True

    if not force_create and not force_load and grammar.file_path:
        file_basename, _ = os.path.splitext(grammar.file_path)
        table_file_name = f"{file_basename}.pgc"

        if os.path.exists(table_file_name):
            create_table_file = False
            table_mtime = os.path.getmtime(table_file_name)
            # Check if older than any of the grammar files
            for g_file_name in grammar.imported_files:
                if os.path.getmtime(g_file_name) > table_mtime:
                    create_table_file = True
                    break

    if force_load and not (table_file_name and os.path.exists(table_file_name)):
        # There is no table file to load. Calculate the table.
        force_load = False

    table = None
    if not ((create_table_file or force_create) and not force_load):
        if debug:
            h_print(f"Loading LR table from '{table_file_name}'")
        try:
            table = load_table(table_file_name, grammar)
        except ValueError:
            # Incomplete or corrupted table file (e.g. an interrupted
            # write). Calculate the table again.
            table = None

    if table is None:
        table = create_table(
            grammar,
            itemset_type,
            start_production,
            prefer_shifts,
            prefer_shifts_over_empty,
            debug=debug,
            **kwargs,
        )
        if table_file_name:
            with contextlib.suppress(PermissionError):
                save_table(table_file_name, table)

    return table


def create_table(
    grammar,
    itemset_type=LR_1,
    start_production=1,
    prefer_shifts=False,
    prefer_shifts_over_empty=True,
    debug=False,
    **kwargs,
):
    """
    Arguments:
    grammar (Grammar):
    itemset_type(int) - SRL=0 LR_1=1. By default LR_1.
    start_production(int) - The production which defines start state.
        By default 1 - first production from the grammar.
    prefer_shifts(bool) - Conflict resolution strategy which favours SHIFT over
        REDUCE (gready). By default False.
    prefer_shifts_over_empty(bool) - Conflict resolution strategy which favours
        SHIFT over REDUCE of EMPTY. By default False. If prefer_shifts is
        `True` this param is ignored.
    """

    first_sets = first(grammar)

    # Check for states with GOTO links but without SHIFT links.
    # This is invalid as the GOTO link will never be traversed.
    for nt, firsts in first_sets.items():
        if nt.name != "S'" and not firsts:
            raise GrammarError(
                location=nt.location,
                message=f'First set empty for grammar symbol "{nt}". '
                "An infinite recursion on the "
                "grammar symbol.",
            )

    _old_start_production_rhs = grammar.productions[0].rhs
    start_prod_symbol = grammar.productions[start_production].symbol
    grammar.productions[0].rhs = ProductionRHS([start_prod_symbol, STOP])

    follow_sets = follow(grammar, first_sets)

    # Create a state for the first production (augmented)
    s = LRState(grammar, 0, AUGSYMBOL, [LRItem(grammar.productions[0], 0, set())])

    state_queue = [s]
    state_id = 1

    states = []

    if debug:
        h_print("Constructing LR automaton states...")
    while state_queue:
        state = state_queue.pop(0)

        # For each state calculate its closure first, i.e. starting from a so
        # called "kernel items" expand collection with non-kernel items. We will
        # also calculate GOTO and ACTIONS dicts for each state. These dicts will
        # be keyed by a grammar symbol.
        closure(state, itemset_type, first_sets)
        states.append(state)

        # To find out other states we examine following grammar symbols in the
        # current state (symbols following current position/"dot") and group all
        # items by a grammar symbol.
        per_next_symbol = OrderedDict()

        # Each production has a priority. But since productions are grouped by
        # grammar symbol that is ahead we take the maximal priority given for
        # all productions for the given grammar symbol.
        state._max_prior_per_symbol = {}

        for item in state.items:
            symbol = item.symbol_at_position
            if symbol:
                per_next_symbol.setdefault(symbol, []).append(item)

                # Here we calculate max priorities for each grammar symbol to
                # use it for SHIFT/REDUCE conflict resolution
                prod_prior = item.production.prior
                old_prior = state._max_prior_per_symbol.setdefault(symbol, prod_prior)
                state._max_prior_per_symbol[symbol] = max(prod_prior, old_prior)

        # For each group symbol we create new state and form its kernel
        # items from the group items with positions moved one step ahead.
        for symbol, items in per_next_symbol.items():
            if symbol is STOP:
                state.actions[symbol] = [Action(ACCEPT)]
                continue
            inc_items = [item.get_pos_inc() for item in items]
            maybe_new_state = LRState(grammar, state_id, symbol, inc_items)

            # Find a state with the same kernel items. There may be several
            # of them if LALR merging has been refused before.
            # LALR: Try to merge states, i.e. update items follow sets.
            target_state = None
            for existing_state in chain(states, state_queue):
                if existing_state == maybe_new_state and (
                    itemset_type is not LR_1
                    or merge_states(existing_state, maybe_new_state)
                ):
                    target_state = existing_state
                    break

            if target_state is None:
                # We've found a new state (or a state that can't be merged
                # with any state with the same kernel items). Register it
                # for later processing.
                target_state = maybe_new_state
                state_queue.append(target_state)
                state_id += 1

            # Create entries in GOTO and ACTION tables
            if isinstance(symbol, NonTerminal):
                # For each non-terminal symbol we create an entry in GOTO
                # table.
                state.gotos[symbol] = target_state

            else:
                # For each terminal symbol we create SHIFT action in the
                # ACTION table.
                state.actions[symbol] = [Action(SHIFT, state=target_state)]

    if debug:
        h_print(f"{len(states)} LR automata states constructed")
        h_print("Finishing LALR calculation...")

    # For LR(1) itemsets refresh/propagate item's follows as the LALR
    # merging might change item's follow in previous states
    if itemset_type is LR_1:
        # Propagate updates as long as there were items propagated in the last
        # loop run.
        update = True
        while update:
            update = False

            for state in states:
                # First refresh state's follows
                closure(state, LR_1, first_sets)

            for state in states:
                # Propagate follows to next states. GOTOs/ACTIONs keep
                # information about states created from this state
                inc_items = [i.get_pos_inc() for i in state.items]
                for target_state in chain(
                    state.gotos.values(),
                    [
                        a.state
                        for i in state.actions.values()
                        for a in i
                        if a.action is SHIFT
                    ],
                ):
                    for next_item in target_state.kernel_items:
                        this_item = inc_items[inc_items.index(next_item)]
                        if this_item.follow.difference(next_item.follow):
                            update = True
                            next_item.follow.update(this_item.follow)

    if debug:
        h_print(
            "Calculate REDUCTION entries in ACTION tables and resolve possible conflicts."
        )

    # Calculate REDUCTION entries in ACTION tables and resolve possible
    # conflicts.
    for state in states:
        actions = state.actions

        for item in state.items:
            if item.is_at_end:
                # If the position is at the end then this item
                # would call for reduction but only for terminals
                # from the FOLLOW set of item (LR(1)) or the production LHS
                # non-terminal (LR(0)).
                if itemset_type is LR_1:
                    follow_set = item.follow
                else:
                    follow_set = follow_sets[item.production.symbol]

                prod = item.production
                new_reduce = Action(REDUCE, prod=prod)

                for terminal in follow_set:
                    if terminal not in actions:
                        actions[terminal] = [new_reduce]
                    else:
                        # Conflict! Try to resolve
                        t_acts = actions[terminal]
                        should_reduce = True

                        # Only one SHIFT or ACCEPT might exists for a single
                        # terminal.
                        shifts = [x for x in t_acts if x.action in (SHIFT, ACCEPT)]
                        assert len(shifts) <= 1
                        t_shift = shifts[0] if shifts else None

                        # But many REDUCEs might exist
                        t_reduces = [x for x in t_acts if x.action is REDUCE]

                        # We should try to resolve using standard
                        # disambiguation rules between current reduction and
                        # all previous actions.

                        if t_shift:
                            # SHIFT/REDUCE conflict. Use assoc and priority to
                            # resolve
                            # For disambiguation treat ACCEPT action the same
                            # as SHIFT.
                            if t_shift.action is ACCEPT:
                                sh_prior = DEFAULT_PRIORITY
                            else:
                                sh_prior = state._max_prior_per_symbol[
                                    t_shift.state.symbol
                                ]
                            if prod.prior == sh_prior:
                                if prod.assoc == ASSOC_LEFT:
                                    # Override SHIFT with this REDUCE
                                    actions[terminal].remove(t_shift)
                                elif prod.assoc == ASSOC_RIGHT:
                                    # If associativity is right leave SHIFT
                                    # action as "stronger" and don't consider
                                    # this reduction any more. Right
                                    # associative reductions can't be in the
                                    # same set of actions together with SHIFTs.
                                    should_reduce = False
                                else:
                                    # If priorities are the same and no
                                    # associativity defined use preferred
                                    # strategy.
                                    is_empty = len(prod.rhs) == 0
                                    prod_pse = (
                                        is_empty
                                        and prefer_shifts_over_empty
                                        and not prod.nopse
                                    )
                                    prod_ps = (
                                        not is_empty and prefer_shifts and not prod.nops
                                    )
                                    should_reduce = not (prod_pse or prod_ps)
                            elif prod.prior > sh_prior:
                                # This item operation priority is higher =>
                                # override with reduce
                                actions[terminal].remove(t_shift)
                            else:
                                # If priority of existing SHIFT action is
                                # higher then leave it instead
                                should_reduce = False

                        if should_reduce:
                            if not t_reduces:
                                actions[terminal].append(new_reduce)
                            else:
                                # REDUCE/REDUCE conflicts
                                # Try to resolve using priorities
                                if prod.prior == t_reduces[0].prod.prior:
                                    actions[terminal].append(new_reduce)
                                elif prod.prior > t_reduces[0].prod.prior:
                                    # If this production priority is higher
                                    # it should override all other reductions.
                                    actions[terminal][:] = [
                                        x
                                        for x in actions[terminal]
                                        if x.action is not REDUCE
                                    ]
                                    actions[terminal].append(new_reduce)

    grammar.productions[0].rhs = _old_start_production_rhs
    table = LRTable(states, **kwargs)
    return table


def merge_states(old_state, new_state):
    """Try to merge new_state to old_state if possible (LALR). If not possible
    return False.

    If old state has no R/R conflicts additional check is made and merging is
    not done if it would add R/R conflict.

    """

    # If states are not equal (i.e. have the same kernel items) no merge is
    # possible
    if old_state != new_state:
        return False

    item_pairs = []
    for old_item in (s for s in old_state.kernel_items if s.is_at_end):
        new_item = new_state.get_item(old_item)
        item_pairs.append((old_item, new_item))

    # Check if merging would result in additional R/R conflict by investigating
    # if after merging there could be a lookahead token that would call for
    # different reductions. If that is the case we shall not merge states.
    for old, new in item_pairs:
        for s in (s for s in old_state.kernel_items if s.is_at_end and s is not old):
            if s.follow.intersection(new.follow.difference(old.follow)):
                return False

    # Do the merge by updating old items follow sets.
    for old, new in item_pairs:
        old.follow.update(new.follow)
    return True


class LRTable:
    def __init__(
        self,
        states,
        calc_finish_flags=True,
        # lexical_disambiguation defaults to True, when
        # calc_finish_flags is set
        lexical_disambiguation=None,
        debug=False,
    ):
        self.states = states
        if calc_finish_flags:
            if lexical_disambiguation is None:
                lexical_disambiguation = True
            self.sort_state_actions()
            if lexical_disambiguation:
                self.calc_finish_flags()
            else:
                for state in self.states:
                    state.finish_flags = [False] * len(state.actions)
        else:
            if lexical_disambiguation is not None:
                logger.warning(
                    "lexical_disambiguation flag ignored because "
                    "calc_finish_flags is not set"
                )
        self.calc_conflicts_and_dynamic_terminals(debug)

    def sort_state_actions(self):
        """
        State actions need to be sorted in order to utilize scanning
        optimization based on explicit or implicit disambiguation.
        Also, by sorting actions table save file is made deterministic.
        """

        def act_order(act_item):
            """Priority is the strongest property. After that honor string
            recognizer over other types of recognizers.

            """
            symbol, act = act_item
            cmp_str = "{:010d}{:500s}".format(
                symbol.prior * 1000
                + (
                    500
                    + (
                        len(symbol.recognizer.value)
                        if type(symbol.recognizer) is StringRecognizer
                        else 0
                    )
                    +
                    # For keywords use the length of the keyword text (kept as the
                    # name of the word boundary regex recognizer)
                    (
                        len(symbol.recognizer.name)
                        if type(symbol.recognizer) is RegExRecognizer and symbol.keyword
                        else 0
                    )
                ),
                symbol.fqn,
            )
            return cmp_str

        for state in self.states:
            state.actions = OrderedDict(
                sorted(state.actions.items(), key=act_order, reverse=True)
            )

    def calc_finish_flags(self):
        """
        Scanning optimization. Preorder actions based on terminal priority
        and specificity. Set _finish flags.
        """
        for state in self.states:
            finish_flags = []
            prior = None
            for symbol, _act in reversed(list(state.actions.items())):
                if symbol.finish is not None:
                    finish_flags.append(symbol.finish)
                else:
                    finish_flags.append(
                        (symbol.prior > prior if prior else False)
                        or type(symbol.recognizer) is StringRecognizer
                        or symbol.keyword
                    )
                prior = symbol.prior

            finish_flags.reverse()
            state.finish_flags = finish_flags

    def calc_conflicts_and_dynamic_terminals(self, debug=False):
        """
        Determine S/R and R/R conflicts and states dynamic terminals.
        """
        self.sr_conflicts = []
        self.rr_conflicts = []

        if debug:
            h_print("Calculating conflicts and dynamic terminals...")

        for state in self.states:
            for term, actions in state.actions.items():
                # Mark state for dynamic disambiguation
                if term.dynamic:
                    state.dynamic.add(term)

                if len(actions) > 1:
                    if actions[0].action in [SHIFT, ACCEPT]:
                        # Create SR conflicts for each S-R pair of actions
                        # except EMPTY reduction as SHIFT will always be
                        # preferred in LR parsing and GLR has a special
                        # handling of EMPTY reduce in order to avoid infinite
                        # looping.
                        for r_act in actions[1:]:
                            # Mark state for dynamic disambiguation
                            if r_act.prod.dynamic:
                                state.dynamic.add(term)

                            self.sr_conflicts.append(
                                SRConflict(state, term, [x.prod for x in actions[1:]])
                            )
                    else:
                        prods = [x.prod for x in actions if len(x.prod.rhs)]

                        # Mark state for dynamic disambiguation
                        if any([p.dynamic for p in prods]):
                            state.dynamic.add(term)

                        empty_prods = [x.prod for x in actions if not len(x.prod.rhs)]
                        # Multiple empty reductions possible
                        if len(empty_prods) > 1:
                            self.rr_conflicts.append(RRConflict(state, term, empty_prods))
                        # Multiple non-empty reductions possible
                        if len(prods) > 1:
                            self.rr_conflicts.append(RRConflict(state, term, prods))

    def print_debug(self):
        a_print("*** STATES ***", new_line=True)
        for state in self.states:
            state.print_debug()

            if state.gotos:
                h_print("GOTO:", level=1, new_line=True)
                prints(
                    "\t"
                    + ", ".join(
                        [
                            ("%s" + s_emph("->") + "%d") % (k, v.state_id)
                            for k, v in state.gotos.items()
                        ]
                    )
                )
            h_print("ACTIONS:", level=1, new_line=True)
            prints(
                "\t"
                + ", ".join(
                    [
                        ("%s" + s_emph("->") + "%s")
                        % (
                            k,
                            str(v[0])
                            if len(v) == 1
                            else "[{}]".format(",".join([str(x) for x in v])),
                        )
                        for k, v in state.actions.items()
                    ]
                )
            )

        if self.sr_conflicts:
            a_print("*** S/R conflicts ***", new_line=True)
            if len(self.sr_conflicts) == 1:
                message = "There is {} S/R conflict."
            else:
                message = "There are {} S/R conflicts."
            h_print(message.format(len(self.sr_conflicts)))
            for src in self.sr_conflicts:
                print(src)

        if self.rr_conflicts:
            a_print("*** R/R conflicts ***", new_line=True)
            if len(self.rr_conflicts) == 1:
                message = "There is {} R/R conflict."
            else:
                message = "There are {} R/R conflicts."
            h_print(message.format(len(self.rr_conflicts)))
            for rrc in self.rr_conflicts:
                print(rrc)


class Action:
    __slots__ = ["action", "state", "prod"]

    def __init__(self, action, state=None, prod=None):
        self.action = action
        self.state = state
        self.prod = prod

    def __str__(self):
        ac = {SHIFT: "SHIFT", REDUCE: "REDUCE", ACCEPT: "ACCEPT"}.get(self.action)
        if self.action == SHIFT:
            p = self.state.state_id
        elif self.action == REDUCE:
            p = self.prod.prod_id
        else:
            p = ""
        return "{}{}".format(ac, f":{p}" if p else "")

    def __repr__(self):
        return str(self)

    @property
    def dynamic(self):
        if self.action is SHIFT:
            return self.state.symbol.dynamic
        elif self.action is REDUCE:
            return self.prod.dynamic
        else:
            return False


class LRItem:
    """
    Represents an item in the items set. Item is defined by a production and a
    position inside production (the dot). If the item is of LR_1 type follow
    set is also defined. Follow set is a set of terminals that can follow
    non-terminal at given position in the given production.
    """

    __slots__ = ("production", "position", "follow")

    def __init__(self, production, position, follow=None):
        self.production = production
        self.position = position
        self.follow = follow if follow else set()

    def __eq__(self, other):
        return (
            other
            and self.production == other.production
            and self.position == other.position
        )

    def __ne__(self, other):
        return not self == other

    def __repr__(self):
        return str(self)

    def __str__(self):
        s = []
        for idx, r in enumerate(self.production.rhs):
            if idx == self.position:
                s.append(".")
            s.append(str(r))
        if len(self.production.rhs) == self.position:
            s.append(".")
        s = " ".join(s)

        follow = (
            (s_emph("{{") + "{}" + s_emph("}}")).format(
                ", ".join([str(t) for t in self.follow])
            )
            if self.follow
            else "{}"
        )

        return (s_header("%d:") + " %s " + s_emph("=") + " %s   %s") % (
            self.production.prod_id,
            self.production.symbol,
            s,
            follow,
        )

    @property
    def is_kernel(self):
        """
        Kernel items are items whose position is not at the beginning.
        The only exception to this rule is start symbol of the augmented
        grammar.
        """
        return self.position > 0 or self.production.symbol is AUGSYMBOL

    def get_pos_inc(self):
        """
        Returns new LRItem with incremented position or None if position
        cannot be incremented (e.g. it is already at the end of the production)
        """

        if self.position < len(self.production.rhs):
            return LRItem(self.production, self.position + 1, set(self.follow))

    @property
    def symbol_at_position(self):
        """
        Returns symbol from production RHS at the position of this item.
        """
        return self.production.rhs[self.position]

    @property
    def is_at_end(self):
        """
        Is the position at the end? If so, it is a candidate for reduction.
        """
        return self.position == len(self.production.rhs)


class LRState:
    """LR State is a set of LR items and a dict of LR automata actions and
    gotos.

    Attributes:
    grammar(Grammar):
    state_id(int):
    symbol(GrammarSymbol):
    items(list of LRItem):
    actions(OrderedDict): Keys are grammar terminal symbols, values are
        lists of Action instances.
    gotos(OrderedDict): Keys are grammar non-terminal symbols, values are
        instances of LRState.
    dynamic(set of terminal symbols): If terminal symbol is in set dynamic
        ambiguity strategy callable is called for the terminal symbol
        lookahead.
    finish_flags:

    """

    __slots__ = [
        "grammar",
        "state_id",
        "symbol",
        "items",
        "actions",
        "gotos",
        "dynamic",
        "finish_flags",
        "_max_prior_per_symbol",
    ]

    def __init__(self, grammar, state_id, symbol, items=None):
        self.grammar = grammar
        self.state_id = state_id
        self.symbol = symbol
        self.items = items if items else []

        self.actions = OrderedDict()
        self.gotos = OrderedDict()
        self.dynamic = set()

    def __eq__(self, other):
        """Two states are equal if their kernel items are equal."""
        this_kernel = [x for x in self.items if x.is_kernel]
        other_kernel = [x for x in other.items if x.is_kernel]
        if len(this_kernel) != len(other_kernel):
            return False
        return all(item in other_kernel for item in this_kernel)

    def __ne__(self, other):
        return not self == other

    @property
    def kernel_items(self):
        """
        Returns kernel items of this state.
        """
        return [i for i in self.items if i.is_kernel]

    @property
    def nonkernel_items(self):
        """
        Returns nonkernel items of this state.
        """
        return [i for i in self.items if not i.is_kernel]

    def get_item(self, other_item):
        """
        Get this state item that is equal to the given other_item.
        """
        return self.items[self.items.index(other_item)]

    def __str__(self):
        s = s_header(f"\n\nState {self.state_id}:{self.symbol}\n")
        return s + "\n".join([f"\t{i}" for i in self.items])

    def __unicode__(self):
        return str(self)

    def __repr__(self):
        return f"LRState({self.state_id}:{self.symbol.name})"

    def print_debug(self):
        prints(str(self))


def first(grammar):
    """Calculates the sets of terminals that can start the sentence derived from
    all grammar symbols.

    The Dragon book p. 221.

    Returns:
    dict of sets of Terminal keyed by GrammarSymbol.
    """
    assert isinstance(grammar, Grammar), "grammar parameter should be Grammar instance."

    if hasattr(grammar, "_first_sets"):
        # If first sets is already calculated return it
        return grammar._first_sets

    first_sets = {}
    for t in grammar.terminals.values():
        first_sets[t] = set([t])
    for nt in grammar.nonterminals.values():
        first_sets[nt] = set()

    additions = True
    while additions:
        additions = False

        for p in grammar.productions:
            nonterm = p.symbol
            for rhs_symbol in p.rhs:
                rhs_symbol_first = set(first_sets[rhs_symbol])
                rhs_symbol_first.discard(EMPTY)
                if rhs_symbol_first.difference(first_sets[nonterm]):
                    first_sets[nonterm].update(rhs_symbol_first)
                    additions = True
                # If current RHS symbol can't derive EMPTY
                # this production can't add any more members of
                # the first set for LHS nonterminal.
                if EMPTY not in first_sets[rhs_symbol]:
                    break
            else:
                # If we reached the end of the RHS and each
                # symbol along the way could derive EMPTY than
                # we must add EMPTY to the first set of LHS symbol.
                if EMPTY not in first_sets[nonterm]:
                    first_sets[nonterm].add(EMPTY)
                    additions = True

    grammar._first_sets = first_sets
    return first_sets


def follow(grammar, first_sets=None):
    """Calculates the sets of terminals that can follow some non-terminal for the
    given grammar.

    Args:
    grammar (Grammar): An initialized grammar.
    first_sets (dict): A sets of FIRST terminals keyed by a grammar symbol.
    """

    if first_sets is None:
        first_sets = first(grammar)

    follow_sets = {}
    for symbol in grammar.nonterminals.values():
        follow_sets[symbol] = set()

    additions = True
    while additions:
        additions = False
        for symbol in grammar.nonterminals.values():
            for p in grammar.productions:
                for idx, s in enumerate(p.rhs):
                    if s == symbol:
                        prod_follow = set()
                        for rsymbol in p.rhs[idx + 1 :]:
                            sfollow = first_sets[rsymbol]
                            prod_follow.update(sfollow)
                            if EMPTY not in sfollow:
                                break
                        else:
                            prod_follow.update(follow_sets[p.symbol])
                        prod_follow.discard(EMPTY)
                        if prod_follow.difference(follow_sets[symbol]):
                            additions = True
                            follow_sets[symbol].update(prod_follow)
    return follow_sets
