import json
from collections import OrderedDict


def table_to_serializable(table):
    """Convert table object to serializable representation composed of
    lists and dicts."""
    # states
    states = []
    for state in table.states:
        states.append(_dump_state(state))

    return states


def save_table(file_name, table):
    with open(file_name, "w") as f:
        json.dump(table_to_serializable(table), f, sort_keys=True)


def table_from_serializable(serialized_states, grammar):
    """Convert serializable representation of a parsing table into
    LRTable object."""
    from parglare.tables import Action, LRState, LRTable

    states = []
    states_dict = {}
    for json_state in serialized_states:
        state = LRState(
            grammar,
            json_state["state_id"],
            grammar.get_symbol(json_state["symbol"]),
        )
        states_dict[state.state_id] = state
        state.finish_flags = json_state["finish_flags"]
        state.actions = json_state["actions"]
        state.gotos = json_state["gotos"]
        states.append(state)

    # Unpack actions and gotos
    for state in states:
        actions = OrderedDict()
        for json_action_fqn in state.actions:
            terminal_fqn, json_actions = json_action_fqn
            term_acts = []
            for json_action in json_actions:
                if "state_id" in json_action:
                    act_state = states_dict[json_action["state_id"]]
                else:
                    act_state = None
                if "prod_id" in json_action:
                    act_prod = grammar.productions[json_action["prod_id"]]
                else:
                    act_prod = None
                term_acts.append(Action(json_action["action"], act_state, act_prod))

            actions[grammar.get_terminal(terminal_fqn)] = term_acts
        state.actions = actions

        gotos = OrderedDict()
        for json_goto_fqn in state.gotos:
            nonterm_fqn, goto_state = json_goto_fqn
            gotos[grammar.get_nonterminal(nonterm_fqn)] = states_dict[goto_state]
        state.gotos = gotos

    table = LRTable(states, calc_finish_flags=False)

    return table


def load_table(file_name, grammar):
    with open(file_name) as f:
        return table_from_serializable(json.load(f), grammar)


def _dump_state(state):
    s = {}
    s["state_id"] = state.state_id
    s["symbol"] = state.symbol.fqn
    action_items = list(state.actions.items())
    s["actions"] = [
        [terminal.fqn, _dump_actions(actions)] for terminal, actions in action_items
    ]
    goto_items = list(state.gotos.items())
    s["gotos"] = [[nonterminal.fqn, st.state_id] for nonterminal, st in goto_items]
    s["finish_flags"] = state.finish_flags

    return s


def _dump_actions(actions):
    alist = []
    for action in actions:
        a = {}
        a["action"] = action.action
        if action.state is not None:
            a["state_id"] = action.state.state_id
        if action.prod is not None:
            a["prod_id"] = action.prod.prod_id
        alist.append(a)

    return alist
