# -*- coding: utf-8 -*-
# flake8: NOQA
from parglare.parser import Parser, Token, pos_to_line_col
from parglare.tables import LALR, SLR, SHIFT, REDUCE, ACCEPT
from parglare.glr import GLRParser
from parglare.grammar import (
    Grammar,
    NonTerminal,
    Terminal,
    RegExRecognizer,
    StringRecognizer,
    EMPTY,
    STOP,
)
from parglare.common import get_collector
from parglare.trees import Node, NodeTerm, NodeNonTerm, visitor
from parglare.exceptions import (
    ParserInitError,
    SyntaxError,
    GrammarError,
    DisambiguationError,
    LoopError,
)

try:
    from importlib.metadata import version
except ModuleNotFoundError:
    from importlib_metadata import version  # type: ignore

__version__ = version("parglare")
