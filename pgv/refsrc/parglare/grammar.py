import copy
import itertools
import re
from collections import Counter
from dataclasses import dataclass, field
from os import path
from typing import Callable, Dict, List, Optional

from parglare import termui
from parglare.actions import collect, collect_sep, pass_none, pass_single
from parglare.common import Location, load_python_module
from parglare.exceptions import GrammarError, ParserInitError
from parglare.termui import a_print, h_print, prints, s_emph, s_header
from parglare.trees import visitor

# Associativity
ASSOC_NONE = 0
ASSOC_LEFT = 1
ASSOC_RIGHT = 2

# Priority
DEFAULT_PRIORITY = 10

# Multiplicity
MULT_ONE = "1"
MULT_OPTIONAL = "0..1"
MULT_ONE_OR_MORE = "1..*"
MULT_ZERO_OR_MORE = "0..*"

RESERVED_SYMBOL_NAMES = ["STOP", "EMPTY"]
SPECIAL_SYMBOL_NAMES = ["KEYWORD", "LAYOUT"]


def escape(instr):
    return instr.replace("\n", r"\n").replace("\t", r"\t")


class GrammarSymbol:
    """
    Represents an abstract grammar symbol.

    Attributes:
    name(str): The name of this grammar symbol.
    location(Location): The location where symbol is defined.
    action_name(string): Name of common/user action given in the grammar.
    action(callable): Resolved action given by the user. Overrides grammar
        action if provided. If not provided by the user defaults to
        grammar_action.
    grammar_action(callable): Resolved action given in the grammar.
    imported_with (PGFileImport): PGFileImport where this symbol is first time
        imported from. Used for FQN calculation.
    user_meta(dict): User meta-data.
    """

    def __init__(self, name, location=None, imported_with=None, user_meta=None):
        self.name = escape(name)
        self.location = location
        self.action_name = None
        self.action = None
        self.grammar_action = None
        self.imported_with = imported_with
        self.user_meta = user_meta

        # A Python class for AST nodes. Can be defined by the user during
        # grammar construction or is created on the fly by parglare.
        self.cls = None

        self._hash = hash(self.fqn)

    @property
    def fqn(self):
        if self.imported_with:
            return f"{self.imported_with.fqn}.{self.name}"
        return self.name

    @property
    def action_fqn(self):
        if self.action_name:
            if self.imported_with:
                return f"{self.imported_with.fqn}.{self.action_name}"
            return self.action_name

    def add_user_meta_data(self, name, value):
        if self.user_meta is None:
            self.user_meta = {}
        self.user_meta[name] = value

    def __getattr__(self, name):
        if self.user_meta is not None:
            attr = self.user_meta.get(name)
            if attr:
                return attr
        raise AttributeError

    def __unicode__(self):
        return str(self)

    def __str__(self):
        return self.fqn

    def __repr__(self):
        return f"{type(self).__name__}({str(self)})"

    def __hash__(self):
        return self._hash


class NonTerminal(GrammarSymbol):
    """Represents a non-termial symbol of the grammar.

    Attributes:
    productions(list of Production): A list of alternative productions for
        this NonTerminal.
    """

    def __init__(
        self,
        name,
        productions=None,
        location=None,
        imported_with=None,
        user_meta=None,
    ):
        super().__init__(name, location, imported_with, user_meta)
        self.productions = productions if productions is not None else []


class Terminal(GrammarSymbol):
    """Represent a terminal symbol of the grammar.

    Attributes:
    prior(int): Priority used for lexical disambiguation.
    dynamic(bool): Should dynamic disambiguation be called to resolve conflict
        involving this terminal.
    finish(bool): Used for scanning optimization. If this terminal is `finish`
        no other recognizers will be checked if this succeeds. If not provided
        in the grammar implicit rules will be used during table construction.
    prefer(bool): Prefer this recognizer in case of multiple recognizers match
        at the same place and implicit disambiguation doesn't resolve.
    keyword(bool): `True` if this Terminal represents keyword. `False` by
        default.

    recognizer(callable): Called with input list of objects and position in the
        stream. Should return a sublist of recognized objects. The sublist
        should be rooted at the given position.
    """

    def __init__(self, name, recognizer=None, location=None, imported_with=None):
        self.prior = DEFAULT_PRIORITY
        self._recognizer = None
        self.recognizer = recognizer if recognizer else StringRecognizer(name)
        self.finish = None
        self.prefer = False
        self.dynamic = False
        self.keyword = False
        super().__init__(name, location, imported_with, user_meta=None)

    @property
    def recognizer(self):
        return self._recognizer

    @recognizer.setter
    def recognizer(self, value):
        self._recognizer = value


class Reference:
    """
    A name reference to a GrammarSymbol used for cross-resolving during
    grammar construction.
    Attributes:
        name (str): The FQN name of the referred symbol. This is the name of
            the original desuggared symbol without taking into account
            multiplicity and separator.
        location (Location): Location object of this reference.
        multiplicty(str): Multiplicity of the RHS reference (used for regex
            operators ?, *, +). See MULT_* constants above. By default
            multiplicity is MULT_ONE.
        greedy(bool): If the multiplicity was greedy (e.g. ?!, *! or +!).
        separator (symbol or Reference): A reference to the separator symbol or
            the separator symbol itself if resolved.
    """

    def __init__(self, location: Location, name: str, imported_with: "PGFileImport"):
        self.name = name
        self.location = location
        self.imported_with = imported_with
        self.multiplicity = MULT_ONE
        self.greedy = False
        self.separator = None

    @property
    def multiplicity_fqn(self):
        """
        Returns the name of the symbol that should be used if
        multiplicity/separator is used.
        """
        return make_multiplicity_fqn(
            self.fqn,
            self.multiplicity,
            self.separator.name if self.separator else None,
            self.greedy,
        )

    @property
    def fqn(self):
        if self.imported_with:
            return f"{self.imported_with.fqn}.{self.name}"
        return self.name

    def clone(self):
        new_ref = Reference(self.location, self.name, self.imported_with)
        new_ref.multiplicity = self.multiplicity
        new_ref.separator = self.separator
        return new_ref

    def __repr__(self):
        return self.name


class Recognizer:
    """
    Recognizers are callables capable of recognizing low-level patterns
    (a.k.a tokens) in the input.
    """

    def __init__(self, name, location=None):
        self.name = name
        self.location = location


class StringRecognizer(Recognizer):
    def __init__(self, value, ignore_case=False, **kwargs):
        super().__init__(value, **kwargs)
        self.value = value
        self.ignore_case = ignore_case
        self.value_cmp = value.lower() if ignore_case else value

    def __call__(self, in_str, pos):
        if self.ignore_case:
            matched = in_str[pos : pos + len(self.value)]
            if matched.lower() == self.value_cmp:
                return matched
        else:
            if in_str[pos : pos + len(self.value)] == self.value_cmp:
                return self.value


def esc_control_characters(regex):
    """
    Escape control characters in regular expressions.
    """
    unescapes = [
        ("\a", r"\a"),
        ("\b", r"\b"),
        ("\f", r"\f"),
        ("\n", r"\n"),
        ("\r", r"\r"),
        ("\t", r"\t"),
        ("\v", r"\v"),
    ]
    for val, text in unescapes:
        regex = regex.replace(val, text)
    return regex


class RegExRecognizer(Recognizer):
    def __init__(
        self,
        regex,
        name=None,
        re_flags=re.MULTILINE,
        ignore_case=False,
        **kwargs,
    ):
        if name is None:
            name = regex
        super().__init__(name, kwargs)
        self._regex = regex
        self.ignore_case = ignore_case
        if ignore_case:
            re_flags |= re.IGNORECASE
        re_flags |= re.VERBOSE
        self.re_flags = re_flags
        try:
            self.regex = re.compile(self._regex, re_flags)
        except re.error as ex:
            regex = esc_control_characters(self._regex)
            message = 'Regex compile error in /{}/ (report: "{}")'
            raise GrammarError(None, message.format(regex, str(ex))) from ex

    def __call__(self, in_str, pos):
        m = self.regex.match(in_str, pos)
        if m and m.group():
            return m.group()


def EMPTY_recognizer(input, pos):
    pass


def STOP_recognizer(input, pos):
    pass


# These two terminals are special terminals used internally.
AUGSYMBOL = NonTerminal("S'")
STOP = Terminal("STOP", STOP_recognizer)

# EMPTY is a special terminal used in the grammars.
# It will match nothing and always succeed.
EMPTY = Terminal("EMPTY", EMPTY_recognizer)
EMPTY.grammar_action = pass_none


class Production:
    """Represent production from the grammar.

    Attributes:
    symbol (GrammarSymbol):
    rhs (ProductionRHS):
    assignments(dict): Assignment instances keyed by name.
    assoc (int): Associativity. Used for ambiguity (shift/reduce) resolution.
    prior (int): Priority. Used for ambiguity (shift/reduce) resolution.
    dynamic (bool): Is dynamic disambiguation used for this production.
    nops (bool): Disable prefer_shifts strategy for this production.
        Only makes sense for GLR parser.
    nopse (bool): Disable prefer_shifts_over_empty strategy for this
        production. Only makes sense for GLR parser.
    user_meta(dict): User meta-data.
    prod_id (int): Ordinal number of the production.
    prod_symbol_id (int): A zero-based ordinal of alternative choice for this
        production grammar symbol.
    """

    def __init__(
        self,
        symbol,
        rhs,
        assignments=None,
        assoc=ASSOC_NONE,
        prior=DEFAULT_PRIORITY,
        dynamic=False,
        nops=False,
        nopse=False,
        user_meta=None,
    ):
        """
        Args:
        symbol (GrammarSymbol): A grammar symbol on the LHS of the production.
        rhs (list of GrammarSymbols):
        """
        self.symbol = symbol
        self.rhs = rhs if rhs else ProductionRHS()
        self.assignments = None
        if assignments:
            self.assignments = {}
            for assignment in assignments:
                if assignment.name:
                    self.assignments[assignment.name] = assignment
        self.assoc = assoc
        self.prior = prior
        self.dynamic = dynamic
        self.nops = nops
        self.nopse = nopse
        self.user_meta = user_meta

    def __str__(self):
        if hasattr(self, "prod_id"):
            return (s_header("%d:") + " %s " + s_emph("=") + " %s") % (
                self.prod_id,
                self.symbol,
                self.rhs,
            )
        return ("%s " + s_emph("=") + " %s") % (self.symbol, self.rhs)

    def __repr__(self):
        return f"Production({str(self)})"

    def __getattr__(self, name):
        if self.user_meta is not None:
            attr = self.user_meta.get(name)
            if attr:
                return attr
        raise AttributeError


class ProductionRHS(list):
    def __getitem__(self, idx):
        try:
            while True:
                symbol = super().__getitem__(idx)
                if symbol is not EMPTY:
                    break
                idx += 1
            return symbol
        except IndexError:
            return None

    def __len__(self):
        return super().__len__() - self.count(EMPTY)

    def __str__(self):
        return " ".join([str(x) for x in self])

    def __repr__(self):
        return "ProductionRHS([{}])".format(", ".join([str(x) for x in self]))


class Assignment:
    """
    General assignment (`=` or `?=`, a.k.a. `named matches`) in productions.
    Used also for references as LHS and assignment operator are optional.
    """

    def __init__(self, name, op, symbol):
        """
        Attributes:
            name(str): The name on the LHS of assignment.
            op(str): Either a `=` or `?=`.
            symbol(Reference or GrammarSymbol): A grammar symbol on the RHS.
            symbol_name(str): A de-sugarred grammar symbol name on the
                RHS, i.e. referenced symbol without regex operators.
            multiplicty(str): Multiplicity of the RHS reference (used for regex
                operators ?, *, +). See MULT_* constants above. By default
                multiplicity is MULT_ONE.
            index(int): Index in the production RHS
        """
        self.name = name
        self.op = op
        self.symbol = symbol
        self.symbol_name = symbol.name
        self.multiplicity = (
            symbol.multiplicity if isinstance(symbol, Reference) else MULT_ONE
        )
        self.index = None


class PGAttribute:
    """
    PGAttribute definition created by named matches.

    Attributes:
        name(str): The name of the attribute.
        multiplicity(str): Multiplicity of the attribute. See MULT_* constants.
        type_name(str): The type name of the attribute value(s). It is also the
            name of the referring grammar rule.
    """

    def __init__(self, name, multiplicity, type_name):
        self.name = name
        self.multiplicity = multiplicity
        self.type_name = type_name


@dataclass
class GrammarContext:
    """
    Context used to collect grammar information and provide info to actions
    during grammar parsing.

    """

    classes: Dict = field(default_factory=dict)
    debug: bool = False
    debug_colors: bool = False
    re_flags: re.RegexFlag = re.MULTILINE
    groups: List = field(default_factory=list)
    groups_counter: Counter = field(default_factory=Counter)
    ignore_case: bool = False
    imported_with: Optional["PGFileImport"] = None
    inline_terminals: Dict = field(default_factory=dict)


class PGFile:
    """Objects of this class represent parglare grammar files.

    Grammar files can be imported using `import` keyword. Rules referenced from
    the imported grammar must be fully qualified by the grammar module name. By
    default the name of the target .pg file is the name of the module. `as`
    keyword can be used to override the default.

    Example:
    ```
    import `some/path/mygrammar.pg` as target
    ```

    Rules from file `mygrammar.pg` will be available under `target` namespace:

    ```
    MyRule: target.someRule+;
    ```

    Actions are by default loaded from the file named `<grammar>_actions.py`
    where `grammar` is basename of grammar file. Recognizers are loaded from
    `<grammar>_recognizers.py`. Actions and recognizers given this way are both
    optional. Furthermore, both actions and recognizers can be overridden by
    supplying actions and/or recognizers dict during grammar/parser
    instantiation.

    Attributes:

    productions (list of Production): Local productions defined in this file.
    terminals (dict of Terminal):
    classes (dict of ParglareClass): Dynamically created classes. Used by
        obj action.
    imports (dict): Mapping imported module/file local name to PGFile object.
    file_path (str): A full canonic path to the .pg file.
    grammar (Grammar): A root/grammar file.
    recognizers (dict of callables): A dict of Python callables used as a
        terminal recognizers.
    """

    def __init__(
        self,
        productions: List[Production],
        terminals: Optional[List[Terminal]] = None,
        classes=None,
        imports=None,
        file_path=None,
        grammar: Optional["Grammar"] = None,
        recognizers=None,
        imported_with=None,
    ):
        self.productions = productions
        self.terminals = terminals
        self.classes = classes if classes else {}
        self.grammar: Optional[Grammar]
        if grammar is not None:
            assert isinstance(grammar, Grammar)
            self.grammar = grammar
        else:
            self.grammar = None

        self.file_path = path.realpath(file_path) if file_path else None
        self.imported_with = imported_with
        self.recognizers = recognizers
        self.actions: Dict[str, Callable] = {}

        self._make_symbols_resolution_map()

        if self.file_path and self.grammar:
            self.grammar.imported_files[self.file_path] = self

        if imports:
            self.imports = {i.module_name: i for i in imports}
            for i in imports:
                i.grammar = self.grammar
                try:
                    i.load_pgfile()
                except OSError as ex:
                    raise GrammarError(
                        location=Location(file_name=self.file_path),
                        message=f'Can\'t import file "{i.file_path}".',
                    ) from ex
        else:
            self.imports = {}

        self._check_overrides()
        self._load_actions()
        self._load_recognizers()

    def _make_symbols_resolution_map(self):
        """
        Collect non-terminals and terminals and make dicts for resolving
        by name.
        """
        nonterminals_by_name = {}
        terminals_by_name = {}
        terminals_by_str_rec = {}

        # Check terminal uniqueness in both name and string recognition
        # and collect all terminals from explicit definitions.
        for terminal in self.terminals:
            if terminal.name in terminals_by_name:
                raise GrammarError(
                    location=terminal.location,
                    message=f'Multiple definitions of terminal rule "{terminal.name}"',
                )
            if isinstance(terminal.recognizer, StringRecognizer):
                rec = terminal.recognizer
                if rec.value in terminals_by_str_rec:
                    raise GrammarError(
                        location=terminal.location,
                        message=f'Terminals "{terminal.name}" and '
                        f'"{terminals_by_str_rec[rec.value].name}" match '
                        "the same string.",
                    )
                terminals_by_str_rec[rec.value] = terminal
            terminals_by_name[terminal.name] = terminal

        self.terminals = terminals_by_name

        # Collect non-terminals
        for production in self.productions:
            symbol = production.symbol
            symbol.imported_with = self.imported_with
            # Check that there is no terminal defined by the same name.
            if symbol.name in self.terminals:
                raise GrammarError(
                    location=symbol.location,
                    message=f'Rule "{symbol.name}" already defined as terminal',
                )
            # Unify all non-terminal objects
            if symbol.name in nonterminals_by_name:
                old_symbol = symbol
                new_symbol = nonterminals_by_name[symbol.name]
                production.symbol = new_symbol
            else:
                nonterminals_by_name[symbol.name] = symbol
                old_symbol = new_symbol = symbol
            new_symbol.productions.append(production)
            new_symbol.cls = self.grammar.classes.get(new_symbol.fqn, None)

            # Check grammar actions for rules/symbols.
            if (
                new_symbol.action_name
                and new_symbol.action_name != old_symbol.action_name
            ):
                raise GrammarError(
                    location=new_symbol.location,
                    message="Multiple different grammar actions "
                    f'for rule "{new_symbol.name}".',
                )

        self.nonterminals = nonterminals_by_name
        self.symbols_by_name = dict(nonterminals_by_name)
        self.symbols_by_name.update(self.terminals)

        # Add special terminals
        self.symbols_by_name["EMPTY"] = EMPTY
        self.symbols_by_name["STOP"] = STOP

    def _check_overrides(self):
        """
        Check that all overrides defined in the current file are
        valid FQNs. Just to be sure that typos don't go unnoticed.
        """
        for symbol_fqn, symbol in self.symbols_by_name.items():
            # Must resolve first level without resolve_symbol_by_name
            # as otherwise the override rule itself would be found.
            if (
                isinstance(symbol, Terminal)
                and isinstance(symbol.recognizer, StringRecognizer)
                and escape(symbol.recognizer.value) == symbol_fqn
            ):
                # Inline string terminals are named by their text which is
                # not a qualified name even if it contains a dot.
                continue
            if "." in symbol_fqn:
                import_module_name, name = symbol_fqn.split(".", 1)
                try:
                    imported_pg_file = self.imports[import_module_name]
                    if not imported_pg_file.resolve_symbol_by_name(name):
                        raise GrammarError(
                            location=symbol.location,
                            message=f"Unexisting name for symbol override {symbol_fqn}.",
                        )
                except KeyError as ex_inner:
                    raise GrammarError(
                        location=symbol.location,
                        message=f'Unexisting module "{import_module_name}"'
                        f' in reference "{symbol_fqn}"',
                    ) from ex_inner

    def _load_actions(self):
        """
        Loads actions from <grammar_name>_actions.py if the file exists.
        Actions must be collected with action decorator and the decorator must
        be called `action`.
        """
        actions_file = None
        if self.file_path:
            actions_file = path.join(
                path.dirname(self.file_path),
                f"{path.splitext(path.basename(self.file_path))[0]}_actions.py",
            )
            if path.exists(actions_file):
                mod_name = "{}actions".format(
                    self.imported_with.fqn if self.imported_with is not None else ""
                )
                actions_module = load_python_module(mod_name, actions_file)
                if not hasattr(actions_module, "action"):
                    raise GrammarError(
                        Location(file_name=actions_file),
                        message=f'Actions file "{actions_file}" must have "action" '
                        "decorator defined.",
                    )
                self.actions = actions_module.action.all

    def _load_recognizers(self):
        """
        Load recognizers from <grammar_name>_recognizers.py. Override
        with provided recognizers.
        """
        if self.file_path:
            recognizers_file = path.join(
                path.dirname(self.file_path),
                f"{path.splitext(path.basename(self.file_path))[0]}_recognizers.py",
            )

            if path.exists(recognizers_file):
                mod_name = "{}recognizers".format(
                    self.imported_with.fqn if self.imported_with is not None else ""
                )
                mod_recognizers = load_python_module(mod_name, recognizers_file)
                recognizers = mod_recognizers.recognizer.all

                for recognizer_name, recognizer in recognizers.items():
                    symbol = self.resolve_symbol_by_name(
                        recognizer_name,
                        location=Location(file_name=recognizers_file),
                    )
                    if symbol is None:
                        raise GrammarError(
                            location=Location(file_name=recognizers_file),
                            message="Recognizer given for unknown "
                            f'terminal "{recognizer_name}".',
                        )
                    if not isinstance(symbol, Terminal):
                        raise GrammarError(
                            location=Location(file_name=recognizers_file),
                            message="Recognizer given for "
                            f'non-terminal "{recognizer_name}".',
                        )
                    symbol.recognizer = recognizer

    def resolve_symbol_by_name(
        self, symbol_fqn: str, location: Optional[Location] = None
    ) -> Optional[GrammarSymbol]:
        """
        Resolve symbol by FQN. Respect overrides.
        """
        try:
            # Try to get local symbol by FQN in order to override symbols from
            # imported grammars.
            return self.symbols_by_name[symbol_fqn]
        except KeyError:
            if "." in symbol_fqn:
                import_module_name, name = symbol_fqn.split(".", 1)
                try:
                    imported_pg_file = self.imports[import_module_name]
                except KeyError as ex_inner:
                    raise GrammarError(
                        location=location,
                        message=f'Unexisting module "{import_module_name}"'
                        f' in reference "{symbol_fqn}"',
                    ) from ex_inner
                return imported_pg_file.resolve_symbol_by_name(name, location)
        return None

    def resolve_action_by_name(self, action_name: str) -> Optional[Callable]:
        """
        Return registered action for the given action's FQN.
        """
        if action_name in self.actions:
            return self.actions[action_name]
        if "." in action_name:
            import_module_name, name = action_name.split(".", 1)
            if import_module_name in self.imports:
                imported_pg_file = self.imports[import_module_name]
                return imported_pg_file.resolve_action_by_name(name)
        return None


class Grammar(PGFile):
    """
    Grammar is a collection of production rules, nonterminals and terminals.
    First production is reserved for the augmented production (S' -> S).

    Attributes:
    start_symbol (GrammarSymbol or str): start/root symbol of the grammar or
        its name.
    nonterminals (set of NonTerminal):
    terminals(set of Terminal):
    imported_files(dict): Global registry of all imported files.

    """

    def __init__(
        self,
        productions=None,
        terminals=None,
        classes=None,
        imports=None,
        file_path=None,
        recognizers=None,
        start_symbol=None,
        _no_check_recognizers=False,
    ):
        """
        Grammar constructor is not meant to be called directly by the user.
        See `from_str` and `from_file` static methods instead.

        Arguments:
        see Grammar attributes.
        _no_check_recognizers (bool, internal): Used by pglr tool to circumvent
             errors for empty recognizers that will be provided in user code.
        """

        self.imported_files = {}

        super().__init__(
            productions=productions,
            terminals=terminals,
            classes=classes,
            imports=imports,
            file_path=file_path,
            grammar=self,
            recognizers=recognizers,
        )

        self._no_check_recognizers = _no_check_recognizers

        # Determine start symbol. If name is provided search for it. If name is
        # not given use the first production LHS symbol as the start symbol.
        if start_symbol:
            if isinstance(start_symbol, str):
                for p in self.productions:
                    if p.symbol.name == start_symbol:
                        self.start_symbol = p.symbol
            else:
                self.start_symbol = start_symbol
        else:
            # By default, first production symbol is the start symbol.
            self.start_symbol = self.productions[0].symbol

        self._init_grammar()

    def _init_grammar(self):
        """
        Extracts all grammar symbol (nonterminal and terminal) from the
        grammar, resolves and check references in productions, unify all
        grammar symbol objects and enumerate productions.
        """
        # Reserve 0 production. It is used for augmented prod. in LR
        # automata calculation.
        self.productions.insert(
            0, Production(AUGSYMBOL, ProductionRHS([self.start_symbol, STOP]))
        )

        self._add_resolve_all_production_symbols()
        self._enumerate_productions()
        self._fix_keyword_terminals()
        self._resolve_actions()

        # Connect recognizers, override grammar provided
        if not self._no_check_recognizers:
            self._connect_override_recognizers()

    def _add_resolve_all_production_symbols(self):
        """
        Registers all grammar symbols and resolve RHS of each production.
        """

        self.nonterminals = {}
        for prod in self.productions:
            self.nonterminals[prod.symbol.fqn] = prod.symbol
        self.terminals.update([(s.name, s) for s in (EMPTY, STOP)])

        def add_productions(productions):
            for production in productions:
                symbol = production.symbol
                if symbol.fqn not in self.nonterminals:
                    self.nonterminals[symbol.fqn] = symbol
                for idx, rhs_elem in enumerate(production.rhs):
                    if isinstance(rhs_elem, Reference):
                        rhs_elem = production.rhs[idx] = self._resolve_ref(rhs_elem)
                    if isinstance(rhs_elem, Terminal):
                        if rhs_elem.fqn not in self.terminals:
                            self.terminals[rhs_elem.fqn] = rhs_elem
                        else:
                            # Unify terminals
                            production.rhs[idx] = self.terminals[rhs_elem.fqn]
                    elif isinstance(rhs_elem, NonTerminal):
                        if rhs_elem.fqn not in self.nonterminals:
                            # This may happen for RHS refs that create new
                            # productions (e.g. syntactic sugar extensions - *,
                            # +...)
                            self.productions.extend(rhs_elem.productions)
                            add_productions(rhs_elem.productions)
                        else:
                            # Unify non-terminals
                            production.rhs[idx] = self.nonterminals[rhs_elem.fqn]
                    else:
                        # This should never happen
                        raise AssertionError(
                            f"Invalid RHS element type '{type(rhs_elem)}'."
                        )

        add_productions(list(self.productions))

    def register_symbol(self, symbol):
        self.symbols_by_name[symbol.name] = symbol

    def _resolve_ref(self, symbol_ref):
        """Resolves given symbol reference.

        For local name search this file, for FQN use imports and delegate to
        imported file.

        If this is first pass do not fail on unexisting reference as there
        might be new symbols created during resolving (e.g. multiplicity
        symbols).

        """
        if isinstance(symbol_ref.separator, Reference):
            symbol_ref.separator = self._resolve_ref(symbol_ref.separator)

        symbol_fqn = symbol_ref.fqn
        symbol = self.resolve_symbol_by_name(symbol_fqn, symbol_ref.location)
        if not symbol:
            raise GrammarError(
                location=symbol_ref.location,
                message=f'Unknown symbol "{symbol_fqn}"',
            )

        mult = symbol_ref.multiplicity
        if mult != MULT_ONE:
            # If multiplicity is used than we are referring to
            # sugared symbol
            separator = symbol_ref.separator if symbol_ref.separator else None

            base_symbol = symbol
            symbol_name = symbol_ref.multiplicity_fqn
            symbol = self._resolve_generated_symbol(symbol_name)
            if not symbol:
                # If there is no multiplicity version of the symbol we
                # will create one at this place
                symbol = self._make_multiplicity_symbol(
                    symbol_ref, base_symbol, separator, self.imported_with
                )

        return symbol

    def _resolve_generated_symbol(self, symbol_name):
        """
        Resolves a symbol by a generated name (helper rules for multiplicity).
        The name is derived from the name of the base symbol, which for inline
        string terminals is an arbitrary text, so a dot in it doesn't have to
        denote an imported module.
        """
        try:
            return self.resolve_symbol_by_name(symbol_name)
        except GrammarError:
            return None

    def _make_multiplicity_symbol(
        self, symbol_ref, base_symbol, separator, imported_with
    ):
        """
        Creates new NonTerminal for symbol refs using multiplicity and
        separators.
        """
        mult = symbol_ref.multiplicity
        assoc = ASSOC_RIGHT if symbol_ref.greedy else ASSOC_NONE
        if mult in [MULT_ONE_OR_MORE, MULT_ZERO_OR_MORE]:
            symbol_name = make_multiplicity_fqn(
                symbol_ref.fqn,
                MULT_ONE_OR_MORE,
                separator.name if separator else None,
            )
            symbol = self._resolve_generated_symbol(symbol_name)
            if not symbol:
                # noqa See: http://www.igordejanovic.net/parglare/grammar_language/#one-or-more_1
                productions = []
                symbol = NonTerminal(
                    symbol_name,
                    productions,
                    base_symbol.location,
                    imported_with=imported_with,
                )

                if separator:
                    productions.append(
                        Production(
                            symbol,
                            ProductionRHS([symbol, separator, base_symbol]),
                        )
                    )
                    symbol.action_name = "collect_sep"
                else:
                    productions.append(
                        Production(symbol, ProductionRHS([symbol, base_symbol]))
                    )
                    symbol.action_name = "collect"

                productions.append(Production(symbol, ProductionRHS([base_symbol])))

                self.register_symbol(symbol)

            if mult == MULT_ZERO_OR_MORE:
                productions = []
                symbol_one = symbol
                symbol_name = make_multiplicity_fqn(
                    symbol_ref.fqn,
                    mult,
                    separator.name if separator else None,
                    symbol_ref.greedy,
                )
                symbol = NonTerminal(
                    symbol_name,
                    productions,
                    base_symbol.location,
                    imported_with=imported_with,
                )

                productions.extend(
                    [
                        Production(
                            symbol,
                            ProductionRHS([symbol_one]),
                            assoc=assoc,
                            nops=True,
                        ),
                        Production(symbol, ProductionRHS([EMPTY]), assoc=assoc),
                    ]
                )

                def action(_, nodes):
                    if nodes:
                        return nodes[0]
                    return []

                symbol.grammar_action = action

                self.register_symbol(symbol)

            else:
                if symbol_ref.greedy:
                    productions = []
                    symbol_one = symbol
                    symbol = NonTerminal(
                        f"{symbol_name}!",
                        productions,
                        base_symbol.location,
                        imported_with=imported_with,
                    )
                    productions.extend(
                        [
                            Production(
                                symbol,
                                ProductionRHS([symbol_one]),
                                assoc=ASSOC_RIGHT,
                            )
                        ]
                    )
                    symbol.action_name = "pass_single"
                    self.register_symbol(symbol)

        else:
            # MULT_OPTIONAL
            if separator:
                raise GrammarError(
                    location=symbol_ref.location,
                    message="Repetition modifier not allowed for "
                    f'optional (?) for symbol "{symbol_ref.name}".',
                )
            productions = []
            symbol_name = make_multiplicity_fqn(
                symbol_ref.fqn, mult, greedy=symbol_ref.greedy
            )
            symbol = NonTerminal(
                symbol_name,
                productions,
                base_symbol.location,
                imported_with=imported_with,
            )
            productions.extend(
                [
                    Production(symbol, ProductionRHS([base_symbol])),
                    Production(symbol, ProductionRHS([EMPTY]), assoc=assoc),
                ]
            )

            symbol.action_name = "optional"

            self.register_symbol(symbol)

        return symbol

    def _enumerate_productions(self):
        """
        Enumerates all productions (prod_id) and production per symbol
        (prod_symbol_id).
        """
        idx_per_symbol = {}
        for idx, prod in enumerate(self.productions):
            prod.prod_id = idx
            prod.prod_symbol_id = idx_per_symbol.get(prod.symbol, 0)
            idx_per_symbol[prod.symbol] = idx_per_symbol.get(prod.symbol, 0) + 1

    def _fix_keyword_terminals(self):
        """
        If KEYWORD terminal with regex match is given fix all matching string
        recognizers to match on a word boundary.
        """
        keyword_term = self.get_terminal("KEYWORD")
        if keyword_term is None:
            return

        # KEYWORD rule must have a regex recognizer
        keyword_rec = keyword_term.recognizer
        if not isinstance(keyword_rec, RegExRecognizer):
            raise GrammarError(
                location=keyword_term.location,
                message="KEYWORD rule must have a regex recognizer defined.",
            )

        # Change each string recognizer corresponding to the KEYWORD
        # regex by the regex recognizer that match on word boundaries.
        for term in self.terminals.values():
            if isinstance(term.recognizer, StringRecognizer):
                match = keyword_rec(term.recognizer.value, 0)
                if match == term.recognizer.value:
                    term.recognizer = RegExRecognizer(
                        rf"\b{re.escape(match)}\b",
                        name=match,
                        ignore_case=term.recognizer.ignore_case,
                    )
                    term.keyword = True

    def _resolve_actions(self, action_overrides=None, fail_on_no_resolve=False):
        """
        Checks and resolves semantic actions given in the grammar and
        additional `*_actions.py` module.

        Args:
            action_overrides(dict): Dict of actions that take precendence. Used
                for actions supplied during parser construction.
        """
        import parglare.actions as actmodule

        for symbol in self:
            # Resolve trying from most specific to least specific
            action = None

            # 1. Resolve by fully qualified symbol name
            if "." in symbol.fqn:
                if action_overrides:
                    action = action_overrides.get(symbol.fqn, None)

                if action is None:
                    action = self.resolve_action_by_name(symbol.fqn)

            # 2. Fully qualified action name
            if (
                action is None
                and symbol.action_fqn is not None
                and "." in symbol.action_fqn
            ):
                if action_overrides:
                    action = action_overrides.get(symbol.action_fqn, None)

                if action is None:
                    action = self.resolve_action_by_name(symbol.action_fqn)

            # 3. Symbol name
            if action is None:
                if action_overrides:
                    action = action_overrides.get(symbol.name, None)

                if action is None:
                    action = self.resolve_action_by_name(symbol.name)

            # 4. Action name
            if action is None and symbol.action_name is not None:
                if action_overrides:
                    action = action_overrides.get(symbol.action_name, None)

                if action is None:
                    action = self.resolve_action_by_name(symbol.action_name)

                # 5. Try to find action in built-in actions module.
                if action is None:
                    action_name = symbol.action_name
                    if hasattr(actmodule, action_name):
                        action = getattr(actmodule, action_name)

            if symbol.action_name and action is None and fail_on_no_resolve:
                raise ParserInitError(
                    f'Action "{symbol.action_name}" given for rule "{symbol.name}" '
                    "doesn't exists in parglare common actions and "
                    'is not provided using "actions" parameter.'
                )

            if action is not None:
                symbol.action = action

                # Some sanity checks for actions
                if isinstance(symbol.action, list):
                    if isinstance(symbol, Terminal):
                        raise ParserInitError(
                            f'Cannot use a list of actions for terminal "{symbol.name}".'
                        )
                    else:
                        if len(symbol.action) != len(symbol.productions):
                            raise ParserInitError(
                                "Length of list of actions must match the "
                                "number of productions for non-terminal "
                                f'"{symbol.name}".'
                            )
            else:
                symbol.action = symbol.grammar_action

    def _connect_override_recognizers(self):
        for term in self.terminals.values():
            if self.recognizers and term.fqn in self.recognizers:
                term.recognizer = self.recognizers[term.fqn]
            else:
                if term.recognizer is None:
                    if not self.recognizers:
                        raise GrammarError(
                            location=term.location,
                            message=f'Terminal "{term.fqn}" has no recognizer defined '
                            "and no recognizers are given during grammar "
                            "construction.",
                        )
                    else:
                        if term.fqn not in self.recognizers:
                            raise GrammarError(
                                location=term.location,
                                message=f'Terminal "{term.fqn}" '
                                "has no recognizer defined.",
                            )

    def get_terminal(self, name):
        "Returns terminal with the given fully qualified name or name."
        return self.terminals.get(name)

    def get_nonterminal(self, name):
        "Returns non-terminal with the given fully qualified name or name."
        return self.nonterminals.get(name)

    def get_productions(self, name):
        "Returns production for the given symbol"
        return [p for p in self.productions if p.symbol.fqn == name]

    def get_symbol(self, name):
        "Returns grammar symbol with the given name."
        s = self.get_terminal(name)
        if not s:
            s = self.get_nonterminal(name)
        return s

    def __iter__(self):
        return (
            s
            for s in itertools.chain(self.nonterminals.values(), self.terminals.values())
            if s not in [AUGSYMBOL, STOP]
        )

    def get_production_id(self, name):
        "Returns first production id for the given symbol name"
        for p in self.productions:
            if p.symbol.fqn == name:
                return p.prod_id

    @staticmethod
    def from_struct(productions, start_symbol=None):
        """Used internally to bootstrap grammar file parser."""
        productions, terminals = create_productions_terminals(productions)
        return Grammar(productions, terminals=terminals, start_symbol=start_symbol)

    @staticmethod
    def _parse(
        parse_fun_name,
        what_to_parse,
        recognizers=None,
        ignore_case=False,
        re_flags=re.MULTILINE,
        debug=False,
        debug_parse=False,
        debug_colors=False,
        _no_check_recognizers=False,
    ):
        extra = GrammarContext(
            debug=debug,
            debug_colors=debug_colors,
            ignore_case=ignore_case,
            re_flags=re_flags,
        )
        grammar_parser = get_grammar_parser(debug_parse, debug_colors)
        imports, productions, terminals, classes = getattr(
            grammar_parser, parse_fun_name
        )(what_to_parse, extra=extra)
        g = Grammar(
            productions=productions,
            terminals=terminals,
            classes=classes,
            imports=imports,
            recognizers=recognizers,
            file_path=what_to_parse if parse_fun_name == "parse_file" else None,
            _no_check_recognizers=_no_check_recognizers,
        )
        termui.colors = debug_colors
        if debug:
            g.print_debug()

        return g

    @staticmethod
    def from_string(grammar_str, **kwargs):
        return Grammar._parse("parse", grammar_str, **kwargs)

    @staticmethod
    def from_file(file_name, **kwargs):
        file_name = path.realpath(file_name)
        return Grammar._parse("parse_file", file_name, **kwargs)

    def print_debug(self):
        a_print("*** GRAMMAR ***", new_line=True)
        h_print("Terminals:")
        prints(" ".join([str(t) for t in self.terminals]))
        h_print("NonTerminals:")
        prints(" ".join([str(n) for n in self.nonterminals]))

        h_print("Productions:")
        for p in self.productions:
            prints(str(p))


class PGFileImport:
    """
    Represents import of a grammar file.

    Attributes:
    module_name (str): Name of this import. By default is the name of grammar
        file without .pg extension.
    file_path (str): A canonical full path of the imported .pg file.
    context: grammar parsing context state.
    imported_with (PGFileImport | None): First import this import is
        imported from. Used for FQN calculation.
    grammar (Grammar | None): Grammar object under construction.
    pgfile (PGFile instance or None):

    """

    def __init__(self, module_name: str, file_path: str, context: GrammarContext):
        self.module_name = module_name
        self.file_path: str = file_path
        self.context = context
        self.imported_with: Optional[PGFileImport] = context.imported_with
        self.grammar: Optional[Grammar] = None
        self.pgfile: Optional[PGFile] = None

    @property
    def fqn(self):
        "A fully qualified name of the import following the first import path."
        if self.imported_with:
            return f"{self.imported_with.fqn}.{self.module_name}"
        return self.module_name

    def load_pgfile(self):
        if self.pgfile is None:
            # First search the global registry of imported files.
            if self.file_path in self.grammar.imported_files:
                self.pgfile = self.grammar.imported_files[self.file_path]
            else:
                # If not found construct new PGFile
                context = copy.copy(self.context)
                context.file_name = self.file_path
                context.inline_terminals = {}
                context.imported_with = self
                imports, productions, terminals, classes = get_grammar_parser(
                    self.context.debug, self.context.debug_colors
                ).parse_file(self.file_path, extra=context)
                self.pgfile = PGFile(
                    productions=productions,
                    terminals=terminals,
                    classes=classes,
                    imports=imports,
                    grammar=self.grammar,
                    imported_with=self,
                    file_path=self.file_path,
                )

    def resolve_symbol_by_name(self, symbol_name, location=None):
        "Resolves symbol from the imported file."

        return self.pgfile.resolve_symbol_by_name(symbol_name, location)

    def resolve_action_by_name(self, action_name):
        "Resolves action from the imported file."

        return self.pgfile.resolve_action_by_name(action_name)


def create_productions_terminals(productions):
    """Creates Production instances from the list of productions given in
    the form:
    [LHS, RHS, optional ASSOC, optional PRIOR].
    Where LHS is grammar symbol and RHS is a list or tuple of grammar
    symbols from the right-hand side of the production.
    """
    gp = []
    inline_terminals = {}
    for p in productions:
        assoc = ASSOC_NONE
        prior = DEFAULT_PRIORITY
        symbol = p[0]
        if not isinstance(symbol, NonTerminal):
            raise GrammarError(
                location=None,
                message=f"Invalid production symbol '{symbol}' for production '{str(p)}'",
            )
        rhs = ProductionRHS(p[1])
        if len(p) > 2:
            assoc = p[2]
        if len(p) > 3:
            prior = p[3]

        # Convert strings to string recognizers
        for idx, t in enumerate(rhs):
            if isinstance(t, str):
                if t not in inline_terminals:
                    inline_terminals[t] = Terminal(recognizer=StringRecognizer(t), name=t)
                rhs[idx] = Reference(
                    location=None, name=t, imported_with=symbol.imported_with
                )
            elif isinstance(t, Terminal):
                if t.name not in inline_terminals:
                    inline_terminals[t.name] = t
                rhs[idx] = Reference(
                    location=None,
                    name=t.name,
                    imported_with=symbol.imported_with,
                )

        gp.append(Production(symbol, rhs, assoc=assoc, prior=prior))

    return gp, list(inline_terminals.values())


def make_multiplicity_fqn(
    symbol_name, multiplicity=None, separator_name=None, greedy=False
):
    if multiplicity is None or multiplicity == MULT_ONE:
        return symbol_name
    name_by_mult = {
        MULT_ZERO_OR_MORE: "0",
        MULT_ONE_OR_MORE: "1",
        MULT_OPTIONAL: "opt",
    }
    if multiplicity:
        return "{}_{}{}{}".format(
            symbol_name,
            name_by_mult[multiplicity],
            f"_{separator_name}" if separator_name else "",
            "!" if greedy else "",
        )


def check_name(context, name):
    """
    Used in actions to check for reserved names usage.
    """

    if name in RESERVED_SYMBOL_NAMES:
        raise GrammarError(
            location=Location(context),
            message=f'Rule name "{name}" is reserved.',
        )


# Grammar for grammars

(
    PGFILE,
    IMPORTS,
    IMPORT,
    PRODUCTION_RULES,
    PRODUCTION_RULE,
    PRODUCTION_RULE_WITH_ACTION,
    PRODUCTION_RULE_RHS,
    PRODUCTION,
    PRODUCTION_GROUP,
    TERMINAL_RULES,
    TERMINAL_RULE,
    TERMINAL_RULE_WITH_ACTION,
    PROD_META_DATA,
    PROD_META_DATAS,
    TERM_META_DATA,
    TERM_META_DATAS,
    USER_META_DATA,
    CONST,
    ASSIGNMENT,
    ASSIGNMENTS,
    PLAIN_ASSIGNMENT,
    BOOL_ASSIGNMENT,
    GSYMBOL_REFERENCE,
    OPT_REP_OPERATOR,
    REP_OPERATOR,
    OPT_REP_MODIFIERS_EXP,
    OPT_REP_MODIFIERS,
    OPT_REP_MODIFIER,
    GSYMBOL,
    RECOGNIZER,
    LAYOUT,
    LAYOUT_ITEM,
    COMMENT,
    CORNC,
    CORNCS,
) = (
    NonTerminal(name)
    for name in [
        "PGFile",
        "Imports",
        "Import",
        "ProductionRules",
        "ProductionRule",
        "ProductionRuleWithAction",
        "ProductionRuleRHS",
        "Production",
        "ProductionGroup",
        "TerminalRules",
        "TerminalRule",
        "TerminalRuleWithAction",
        "ProductionMetaData",
        "ProductionMetaDatas",
        "TerminalMetaData",
        "TerminalMetaDatas",
        "UserMetaData",
        "Const",
        "Assignment",
        "Assignments",
        "PlainAssignment",
        "BoolAssignment",
        "GrammarSymbolReference",
        "OptRepeatOperator",
        "RepeatOperator",
        "OptionalRepeatModifiersExpression",
        "OptionalRepeatModifiers",
        "OptionalRepeatModifier",
        "GrammarSymbol",
        "Recognizer",
        "LAYOUT",
        "LAYOUT_ITEM",
        "Comment",
        "CORNC",
        "CORNCS",
    ]
)

pg_terminals = (
    NAME,
    REGEX_TERM,
    INT_CONST,
    FLOAT_CONST,
    BOOL_CONST,
    STR_CONST,
    ACTION,
    WS,
    COMMENTLINE,
    NOTCOMMENT,
) = [
    Terminal(name, RegExRecognizer(regex))
    for name, regex in [
        ("Name", r"[a-zA-Z_][a-zA-Z0-9_\.]*"),
        ("RegExTerm", r"\/(\\.|[^\/\\])*\/"),
        ("IntConst", r"\d+"),
        (
            "FloatConst",
            r"""[+-]?(\d+\.\d*|\.\d+)([eE][+-]?\d+)?(?<=[\w\.])(?![\w\.])""",
        ),  # noqa
        ("BoolConst", r"true|false"),
        (
            "StrConst",
            r"""(?s)('[^'\\]*(?:\\.[^'\\]*)*')|"""
            r"""("[^"\\]*(?:\\.[^"\\]*)*")""",
        ),
        ("Action", r"@[a-zA-Z0-9_]+"),
        ("WS", r"\s+"),
        ("CommentLine", r"\/\/.*"),
        ("NotComment", r"((\*[^\/])|[^\s*\/]|\/[^\*])+"),
    ]
]

pg_productions = [
    [PGFILE, [PRODUCTION_RULES]],
    [PGFILE, [IMPORTS, PRODUCTION_RULES]],
    [PGFILE, [PRODUCTION_RULES, "terminals", TERMINAL_RULES]],
    [PGFILE, [IMPORTS, PRODUCTION_RULES, "terminals", TERMINAL_RULES]],
    [PGFILE, ["terminals", TERMINAL_RULES]],
    [IMPORTS, [IMPORTS, IMPORT]],
    [IMPORTS, [IMPORT]],
    [IMPORT, ["import", STR_CONST, ";"]],
    [IMPORT, ["import", STR_CONST, "as", NAME, ";"]],
    [PRODUCTION_RULES, [PRODUCTION_RULES, PRODUCTION_RULE_WITH_ACTION]],
    [PRODUCTION_RULES, [PRODUCTION_RULE_WITH_ACTION]],
    [PRODUCTION_RULE_WITH_ACTION, [ACTION, PRODUCTION_RULE]],
    [PRODUCTION_RULE_WITH_ACTION, [PRODUCTION_RULE]],
    [PRODUCTION_RULE, [NAME, ":", PRODUCTION_RULE_RHS, ";"]],
    [
        PRODUCTION_RULE,
        [NAME, "{", PROD_META_DATAS, "}", ":", PRODUCTION_RULE_RHS, ";"],
    ],
    [
        PRODUCTION_RULE_RHS,
        [PRODUCTION_RULE_RHS, "|", PRODUCTION],
        ASSOC_LEFT,
        5,
    ],
    [PRODUCTION_RULE_RHS, [PRODUCTION], ASSOC_LEFT, 5],
    [PRODUCTION, [ASSIGNMENTS]],
    [PRODUCTION, [ASSIGNMENTS, "{", PROD_META_DATAS, "}"]],
    [TERMINAL_RULES, [TERMINAL_RULES, TERMINAL_RULE_WITH_ACTION]],
    [TERMINAL_RULES, [TERMINAL_RULE_WITH_ACTION]],
    [TERMINAL_RULE_WITH_ACTION, [ACTION, TERMINAL_RULE]],
    [TERMINAL_RULE_WITH_ACTION, [TERMINAL_RULE]],
    [TERMINAL_RULE, [NAME, ":", RECOGNIZER, ";"], ASSOC_LEFT, 15],
    [TERMINAL_RULE, [NAME, ":", ";"], ASSOC_LEFT, 15],
    [
        TERMINAL_RULE,
        [NAME, ":", RECOGNIZER, "{", TERM_META_DATAS, "}", ";"],
        ASSOC_LEFT,
        15,
    ],
    [
        TERMINAL_RULE,
        [NAME, ":", "{", TERM_META_DATAS, "}", ";"],
        ASSOC_LEFT,
        15,
    ],
    [PROD_META_DATA, ["left"]],
    [PROD_META_DATA, ["reduce"]],
    [PROD_META_DATA, ["right"]],
    [PROD_META_DATA, ["shift"]],
    [PROD_META_DATA, ["dynamic"]],
    [PROD_META_DATA, ["nops"]],  # no prefer shifts
    [PROD_META_DATA, ["nopse"]],  # no prefer shifts over empty
    [PROD_META_DATA, [INT_CONST]],  # priority
    [PROD_META_DATA, [USER_META_DATA]],
    [PROD_META_DATAS, [PROD_META_DATAS, ",", PROD_META_DATA], ASSOC_LEFT],
    [PROD_META_DATAS, [PROD_META_DATA]],
    [TERM_META_DATA, ["prefer"]],
    [TERM_META_DATA, ["finish"]],
    [TERM_META_DATA, ["nofinish"]],
    [TERM_META_DATA, ["dynamic"]],
    [TERM_META_DATA, [INT_CONST]],  # priority
    [TERM_META_DATA, [USER_META_DATA]],
    [TERM_META_DATAS, [TERM_META_DATAS, ",", TERM_META_DATA]],
    [TERM_META_DATAS, [TERM_META_DATA]],
    # User custom meta-data
    [USER_META_DATA, [NAME, ":", CONST]],
    [CONST, [INT_CONST]],
    [CONST, [FLOAT_CONST]],
    [CONST, [BOOL_CONST]],
    [CONST, [STR_CONST]],
    # Assignments
    [ASSIGNMENT, [PLAIN_ASSIGNMENT]],
    [ASSIGNMENT, [BOOL_ASSIGNMENT]],
    [ASSIGNMENT, [GSYMBOL_REFERENCE]],
    [ASSIGNMENTS, [ASSIGNMENTS, ASSIGNMENT]],
    [ASSIGNMENTS, [ASSIGNMENT]],
    [PLAIN_ASSIGNMENT, [NAME, "=", GSYMBOL_REFERENCE]],
    [BOOL_ASSIGNMENT, [NAME, "?=", GSYMBOL_REFERENCE]],
    # Groups
    [PRODUCTION_GROUP, ["(", PRODUCTION_RULE_RHS, ")"]],
    # Regex-like repeat operators
    [GSYMBOL_REFERENCE, [GSYMBOL, OPT_REP_OPERATOR]],
    [GSYMBOL_REFERENCE, [PRODUCTION_GROUP, OPT_REP_OPERATOR]],
    [OPT_REP_OPERATOR, [REP_OPERATOR]],
    [OPT_REP_OPERATOR, [EMPTY]],
    [REP_OPERATOR, ["*", OPT_REP_MODIFIERS_EXP]],
    [REP_OPERATOR, ["*!", OPT_REP_MODIFIERS_EXP]],
    [REP_OPERATOR, ["+", OPT_REP_MODIFIERS_EXP]],
    [REP_OPERATOR, ["+!", OPT_REP_MODIFIERS_EXP]],
    [REP_OPERATOR, ["?", OPT_REP_MODIFIERS_EXP]],
    [REP_OPERATOR, ["?!", OPT_REP_MODIFIERS_EXP]],
    [OPT_REP_MODIFIERS_EXP, ["[", OPT_REP_MODIFIERS, "]"]],
    [OPT_REP_MODIFIERS_EXP, [EMPTY]],
    [OPT_REP_MODIFIERS, [OPT_REP_MODIFIERS, ",", OPT_REP_MODIFIER]],
    [OPT_REP_MODIFIERS, [OPT_REP_MODIFIER]],
    [OPT_REP_MODIFIER, [NAME]],
    [GSYMBOL, [NAME]],
    [GSYMBOL, [STR_CONST]],
    [RECOGNIZER, [STR_CONST]],
    [RECOGNIZER, [REGEX_TERM]],
    # Support for comments,
    [LAYOUT, [LAYOUT_ITEM]],
    [LAYOUT, [LAYOUT, LAYOUT_ITEM]],
    [LAYOUT, [EMPTY]],
    [LAYOUT_ITEM, [WS]],
    [LAYOUT_ITEM, [COMMENT]],
    [COMMENT, ["/*", CORNCS, "*/"]],
    [COMMENT, [COMMENTLINE]],
    [CORNCS, [CORNC]],
    [CORNCS, [CORNCS, CORNC]],
    [CORNCS, [EMPTY]],
    [CORNC, [COMMENT]],
    [CORNC, [NOTCOMMENT]],
    [CORNC, [WS]],
]


grammar_parser = None


def get_grammar_parser(debug, debug_colors):
    global grammar_parser
    if not grammar_parser:
        from parglare import Parser

        grammar_parser = Parser(
            Grammar.from_struct(pg_productions, PGFILE),
            actions=pg_actions,
            debug=debug,
            debug_colors=debug_colors,
        )
    EMPTY.action = pass_none
    return grammar_parser


def act_pgfile(context, nodes):
    imports, productions, terminals = [], [], []
    while nodes:
        first = nodes.pop(0)
        if first and isinstance(first, list):
            if isinstance(first[0], PGFileImport):
                imports = first
            elif isinstance(first[0], Production):
                productions = first
            elif isinstance(first[0], Terminal):
                terminals = first

    for terminal in context.extra.inline_terminals.values():
        terminals.append(terminal)

    return [imports, productions, terminals, context.extra.classes]


def act_import(context, nodes):
    if not context.file_name:
        raise GrammarError(
            location=Location(context),
            message="Import can be used only for grammars defined in files.",
        )
    import_path = nodes[1]
    module_name = nodes[3] if len(nodes) > 3 else None
    if module_name is None:
        module_name = path.splitext(path.basename(import_path))[0]
    if not path.isabs(import_path):
        import_path = path.realpath(
            path.join(path.dirname(context.file_name), import_path)
        )
    else:
        import_path = path.realpath(import_path)

    return PGFileImport(module_name, import_path, context.extra)


def act_production_rules(_, nodes):
    e1, e2 = nodes
    e1.extend(e2)
    return e1


def act_production_rule_with_action(_, nodes):
    productions, group_productions = nodes[-1]
    if len(nodes) > 1:
        action_name = nodes[0]
        # Strip @ char
        action_name = action_name[1:]
        for p in productions:
            p.symbol.action_name = action_name
    productions.extend(group_productions)
    return productions


def act_production_rule(context, nodes):
    if len(nodes) == 4:
        # No meta-data
        name, _, rhs_prods, __ = nodes
        rule_meta_datas = {}
    else:
        name, rule_meta_datas, rhs_prods = nodes[0], nodes[2], nodes[5]
        rule_meta_datas = get_production_rule_meta_datas(rule_meta_datas)

    check_name(context, name)

    prods = _create_prods(context, rhs_prods, name, rule_meta_datas)
    group_prods = []
    if context.extra.groups:
        counter = context.extra.groups_counter
        while context.extra.groups:
            ref, gprods = context.extra.groups.pop()
            gname = f"{name}_g{counter[name] + 1}"
            ref.name = gname
            counter[name] += 1
            group_prods.extend(_create_prods(context, gprods, gname, rule_meta_datas))

    return prods, group_prods


def _create_prods(context, rhs_prods, name, rule_meta_datas):
    symbol = NonTerminal(
        name,
        location=Location(context),
        imported_with=context.extra.imported_with,
        user_meta=rule_meta_datas.get("user_meta", None),
    )

    # Collect all productions for this rule
    prods = []
    attrs = {}
    for prod in rhs_prods:
        assignments, meta_datas = prod
        # Here we know the indexes of assignments
        for idx, a in enumerate(assignments):
            if a.name:
                a.index = idx
        gsymbols = (a.symbol for a in assignments)
        assoc = meta_datas.get("assoc", rule_meta_datas.get("assoc", ASSOC_NONE))
        prior = meta_datas.get(
            "priority", rule_meta_datas.get("priority", DEFAULT_PRIORITY)
        )
        dynamic = meta_datas.get("dynamic", rule_meta_datas.get("dynamic", False))
        nops = meta_datas.get("nops", rule_meta_datas.get("nops", False))
        nopse = meta_datas.get("nopse", rule_meta_datas.get("nopse", False))

        # User meta-data if formed by rule-level user meta-data with overrides
        # from production-level user meta-data.
        user_meta = dict(rule_meta_datas.get("user_meta", {}))
        user_meta.update(meta_datas.get("user_meta", {}))
        prods.append(
            Production(
                symbol,
                ProductionRHS(gsymbols),
                assignments=assignments,
                assoc=assoc,
                prior=prior,
                dynamic=dynamic,
                nops=nops,
                nopse=nopse,
                user_meta=user_meta,
            )
        )

        for a in assignments:
            if a.name:
                attrs[a.name] = PGAttribute(a.name, a.multiplicity, a.symbol_name)
            # TODO: check/handle multiple assignments to the same attribute
            #       If a single production have multiple assignment of the
            #       same attribute, multiplicity must be set to many.

    # If named matches are used create Python class that will be used
    # for object instantiation.
    if attrs:

        class ParglareClass(metaclass=ParglareMetaClass):
            """Dynamically created class. Each parglare rule that uses named
            matches by default uses this action that will create Python object
            of this class.

            Attributes:
                _pg_attrs(dict): A dict of meta-attributes keyed by name.
                    Used by common rules.
                _pg_start_position(int): A position in the input string where
                    this class is defined.
                _pg_end_position(int): A position in the input string where
                    this class ends.
                _pg_children(list): A list of child nodes.
                _pg_children_names(list): A list of child node names
                    (i.e. LHS of assignments)
                _pg_extras(object): An arbitrary user-defined object.

            """

            __slots__ = list(attrs) + [
                "_pg_start_position",
                "_pg_end_position",
                "_pg_children",
                "_pg_children_names",
                "_pg_extras",
            ]

            _pg_attrs = attrs

            def __init__(self, **attrs):
                self._pg_children = list(attrs.values())
                self._pg_children_names = list(attrs.keys())
                for attr_name, attr_value in attrs.items():
                    setattr(self, attr_name, attr_value)

            def __repr__(self):
                if hasattr(self, "name"):
                    return f"<{name}:{self.name}>"
                else:
                    return f"<parglare:{name} instance at {hex(id(self))}>"

            def to_str(self):
                def visit(n, subresults, depth):
                    indent = "  " * (depth + 1)
                    if hasattr(n, "_pg_children"):
                        s = "{} [{}->{}]\n{}".format(
                            n.__class__.__name__,
                            n._pg_start_position,
                            n._pg_end_position,
                            "\n".join(
                                [
                                    f"{indent}{n._pg_children_names[i]}={subresult}"
                                    for (i, subresult) in enumerate(subresults)
                                ]
                            ),
                        )
                    elif isinstance(n, list):
                        s = "{}[\n{}\n{}]".format(
                            indent,
                            "\n".join([f"{indent}{el}" for el in subresults]),
                            indent,
                        )
                    else:
                        s = repr(n)
                    return s

                return visitor(self, ast_tree_iterator, visit)

        ParglareClass.__name__ = str(symbol.fqn)
        if symbol.fqn in context.extra.classes:
            # If rule has multiple definition merge attributes.
            context.extra.classes[symbol.fqn]._pg_attrs.update(attrs)
        else:
            context.extra.classes[symbol.fqn] = ParglareClass

        symbol.action_name = "obj"

    return prods


def get_production_rule_meta_datas(raw_meta_datas):
    meta_datas = {}
    for meta_data in raw_meta_datas:
        if meta_data in ["left", "reduce"]:
            meta_datas["assoc"] = ASSOC_LEFT
        elif meta_data in ["right", "shift"]:
            meta_datas["assoc"] = ASSOC_RIGHT
        elif meta_data == "dynamic":
            meta_datas["dynamic"] = True
        elif meta_data == "nops":
            meta_datas["nops"] = True
        elif meta_data == "nopse":
            meta_datas["nopse"] = True
        elif isinstance(meta_data, int):
            meta_datas["priority"] = meta_data
        else:
            # User meta-data
            assert isinstance(meta_data, list)
            name, _, value = meta_data
            meta_datas.setdefault("user_meta", {})[name] = value
    return meta_datas


def act_production(_, nodes):
    assignments = nodes[0]
    meta_datas = {}
    if len(nodes) > 1:
        meta_datas = get_production_rule_meta_datas(nodes[2])

    return (assignments, meta_datas)


def act_production_group(context, nodes):
    # Group name will be known when the grammar rule is
    # reduced so store these production for later.
    productions = nodes[1]
    reference = Reference(Location(context), "resolving", context.extra.imported_with)
    context.extra.groups.append((reference, productions))
    return reference


def _set_term_props(term, props):
    for t in props:
        if isinstance(t, int):
            term.prior = t
        elif isinstance(t, list):
            # User meta-data
            name, _, value = t
            term.add_user_meta_data(name, value)
        elif t == "finish":
            term.finish = True
        elif t == "nofinish":
            term.finish = False
        elif t == "prefer":
            term.prefer = True
        elif t == "dynamic":
            term.dynamic = True
        else:
            print(t)
            raise AssertionError()


def act_term_rule(context, nodes):
    name = nodes[0]
    recognizer = nodes[2]

    check_name(context, name)
    term = Terminal(
        name,
        recognizer,
        location=Location(context),
        imported_with=context.extra.imported_with,
    )
    if len(nodes) > 4:
        _set_term_props(term, nodes[4])
    return term


def act_term_rule_empty_body(context, nodes):
    name = nodes[0]

    check_name(context, name)
    term = Terminal(
        name,
        location=Location(context),
        imported_with=context.extra.imported_with,
    )
    term.recognizer = None
    if len(nodes) > 3:
        _set_term_props(term, nodes[3])
    return term


def act_term_rule_with_action(context, nodes):
    if len(nodes) > 1:
        action_name, term = nodes
        # Strip @ char
        action_name = action_name[1:]
        term.action_name = action_name
    else:
        term = nodes[0]

    return term


def act_gsymbol_reference(context, nodes):
    """Repetition operators (`*`, `+`, `?`) will create additional productions in
    the grammar with name generated from original symbol name and suffixes:
    - `_0` - for `*`
    - `_1` - for `+`
    - `_opt` - for `?`

    Zero or more produces `one or more` productions and additional productions
    of the form:

    ```
    somerule_0: somerule_1 | EMPTY;
    ```

    In addition if separator is used another suffix is added which is the name
    of the separator rule, for example:

    ```
    spam*[comma] --> spam_0_comma and spam_1_comma
    spam+[comma] --> spam_1_comma
    spam* --> spam_0 and spam_1
    spam? --> spam_opt
    ```

    """
    symbol_ref, rep_op = nodes
    if rep_op:
        if len(rep_op) > 1:
            rep_op, modifiers = rep_op
        else:
            rep_op = rep_op[0]
            modifiers = None

        sep_ref = None
        if modifiers:
            sep_ref = modifiers[1]
            sep_ref = Reference(Location(context), sep_ref, context.extra.imported_with)
            symbol_ref.separator = sep_ref

        if rep_op.startswith("*"):
            symbol_ref.multiplicity = MULT_ZERO_OR_MORE
        elif rep_op.startswith("+"):
            symbol_ref.multiplicity = MULT_ONE_OR_MORE
        else:
            symbol_ref.multiplicity = MULT_OPTIONAL

        if rep_op.endswith("!"):
            symbol_ref.greedy = True

    return symbol_ref


def act_gsymbol_string_recognizer(context, nodes):
    recognizer = act_recognizer_str(context, nodes)

    terminal_ref = Reference(
        Location(context), escape(recognizer.name), context.extra.imported_with
    )

    if terminal_ref.name not in context.extra.inline_terminals:
        check_name(context, terminal_ref.name)
        context.extra.inline_terminals[terminal_ref.name] = Terminal(
            terminal_ref.name, recognizer, location=Location(context)
        )

    return terminal_ref


def act_assignment(_, nodes):
    gsymbol_reference = nodes[0]
    if isinstance(gsymbol_reference, list):
        # Named match
        name, op, gsymbol_reference = gsymbol_reference
    else:
        name, op = None, None

    return Assignment(name, op, gsymbol_reference)


def act_recognizer_str(context, nodes):
    value = nodes[0]
    value = (
        value.replace(r"\"", '"')
        .replace(r"\'", "'")
        .replace(r"\\", "\\")
        .replace(r"\n", "\n")
        .replace(r"\t", "\t")
    )
    return StringRecognizer(value, ignore_case=context.extra.ignore_case)


def act_recognizer_regex(context, nodes):
    value = nodes[0]
    return RegExRecognizer(
        value,
        re_flags=context.extra.re_flags,
        ignore_case=context.extra.ignore_case,
    )


def act_str_term(context, value):
    value = value[1:-1]
    value = value.replace(r"\\", "\\")
    value = value.replace(r"\'", "'")
    return value


def act_regex_term(context, value):
    return value[1:-1]


pg_actions = {
    "PGFile": act_pgfile,
    "Imports": collect,
    "Import": act_import,
    "ProductionRules": [act_production_rules, pass_single],
    "ProductionRule": act_production_rule,
    "ProductionRuleWithAction": act_production_rule_with_action,
    "ProductionRuleRHS": collect_sep,
    "Production": act_production,
    "ProductionGroup": act_production_group,
    "TerminalRules": collect,
    "TerminalRule": [
        act_term_rule,
        act_term_rule_empty_body,
        act_term_rule,
        act_term_rule_empty_body,
    ],
    "TerminalRuleWithAction": act_term_rule_with_action,
    "ProductionMetaDatas": collect_sep,
    "TerminalMetaDatas": collect_sep,
    "Assignment": act_assignment,
    "Assignments": collect,
    "GrammarSymbolReference": act_gsymbol_reference,
    "GrammarSymbol": [
        lambda context, nodes: Reference(
            Location(context), nodes[0], context.extra.imported_with
        ),
        act_gsymbol_string_recognizer,
    ],
    "Recognizer": [act_recognizer_str, act_recognizer_regex],
    "StrConst": act_str_term,
    "RegExTerm": act_regex_term,
    # Constants
    "IntConst": lambda _, value: int(value),
    "FloatConst": lambda _, value: float(value),
    "BoolConst": lambda _, value: value and value.lower() == "true",
}


class ParglareMetaClass(type):
    def __repr__(cls):
        return f"<parglare:{cls.__name__} class at {id(cls)}>"


def ast_tree_iterator(root):
    if hasattr(root, "_pg_children"):
        return iter(root._pg_children)
    if isinstance(root, list):
        return iter(root)
    return iter([])
