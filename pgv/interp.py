"""E2 -- guarded-effect summaries by truth-table enumeration.

A *region* (list of statements) is interpreted abstractly under a **valuation**:
the rule supplies an oracle that gives the truth value of every *atomic* condition
(after copy propagation of locals) and maps every side-effecting statement to an
abstract effect token.  Nothing of the analysed program is executed or computed:
expressions stay syntax; only the branch structure is followed.  Enumerating all
valuations of the (finite) atom space gives the region's complete decision table,
which the rule compares with a specification table.

Unknown atom / unknown effect / unsupported statement => AnalysisError (exit 2).
"""
from __future__ import annotations

import ast
from .core import AnalysisError, UnknownAtom, at_wrap, clone, unparse

PRINT_FUNCS = {"a_print", "h_print", "prints", "print", "s_header", "s_emph"}

EXC_PARENTS = {
    "JSONDecodeError": "ValueError",
    "UnicodeDecodeError": "ValueError",
    "ValueError": "Exception",
    "KeyError": "LookupError",
    "IndexError": "LookupError",
    "LookupError": "Exception",
    "FileNotFoundError": "OSError",
    "PermissionError": "OSError",
    "OSError": "Exception",
    "TypeError": "Exception",
    "AttributeError": "Exception",
    "StopIteration": "Exception",
    "Exception": "BaseException",
}


def exc_matches(raised, handler_type_names):
    t = raised
    while t:
        if t in handler_type_names:
            return True
        t = EXC_PARENTS.get(t)
    return False


class _Subst(ast.NodeTransformer):
    def __init__(self, env):
        self.env = env
        self.shadow = []

    def _shadowed(self, name):
        return any(name in s for s in self.shadow)

    def visit_Name(self, node):
        if isinstance(node.ctx, ast.Load) and node.id in self.env and not self._shadowed(node.id):
            return clone(self.env[node.id])
        return node

    def _comp(self, node):
        bound = set()
        for gen in node.generators:
            for n in ast.walk(gen.target):
                if isinstance(n, ast.Name):
                    bound.add(n.id)
        # iter of the first generator is evaluated in the enclosing scope
        first = node.generators[0]
        first.iter = self.visit(first.iter)
        self.shadow.append(bound)
        for i, gen in enumerate(node.generators):
            if i:
                gen.iter = self.visit(gen.iter)
            gen.ifs = [self.visit(x) for x in gen.ifs]
        if isinstance(node, ast.DictComp):
            node.key = self.visit(node.key)
            node.value = self.visit(node.value)
        else:
            node.elt = self.visit(node.elt)
        self.shadow.pop()
        return node

    visit_ListComp = visit_SetComp = visit_GeneratorExp = visit_DictComp = _comp

    def visit_Lambda(self, node):
        bound = {a.arg for a in node.args.args + node.args.kwonlyargs}
        self.shadow.append(bound)
        node.body = self.visit(node.body)
        self.shadow.pop()
        return node


def subst(expr, env):
    return _Subst(env or {}).visit(clone(expr))


class Exit:
    def __init__(self, kind, value=None, node=None):
        self.kind = kind  # 'fall' | 'return' | 'raise' | 'break' | 'continue'
        self.value = value
        self.node = node

    def __repr__(self):
        return f"Exit({self.kind}, {unparse(self.value) if self.value is not None else None})"


class Interp:
    def __init__(
        self,
        atom,
        effect,
        env=None,
        on_loop=None,
        raises=None,
        ignore_calls=PRINT_FUNCS,
        assert_is_effect=False,
        watch=(),
        mark_all=False,
        local_mutations_ok=False,
    ):
        self.atom = atom
        self.effect_fn = effect
        self.env = dict(env or {})
        self.on_loop = on_loop
        self.raises = raises
        self.ignore_calls = set(ignore_calls)
        self.effects = []
        self.trace = []  # (expr text, truth) of atoms consulted, for diagnostics
        self.assert_is_effect = assert_is_effect
        self.watch = set(watch)  # call names recorded as ("CALL", name, call) even inside values
        self.fresh = {}  # locals bound to fresh container displays (kept symbolic)
        self.mark_all = mark_all  # snapshot-mark values assigned before any effect too
        self.local_mutations_ok = local_mutations_ok  # in-place growth of fresh locals is not an effect
        self.local_mutations = {}

    # ------------------------------------------------------------- expressions
    def sub(self, expr):
        return subst(expr, self.env)

    def truth(self, expr, substituted=False):
        e = expr if substituted else self.sub(expr)
        if isinstance(e, ast.BoolOp):
            if isinstance(e.op, ast.And):
                return all(self.truth(v, True) for v in e.values)
            return any(self.truth(v, True) for v in e.values)
        if isinstance(e, ast.UnaryOp) and isinstance(e.op, ast.Not):
            return not self.truth(e.operand, True)
        if isinstance(e, ast.Constant):
            return bool(e.value)
        if isinstance(e, ast.IfExp):
            return self.truth(e.body if self.truth(e.test, True) else e.orelse, True)
        if isinstance(e, ast.Compare) and len(e.ops) > 1:
            left = e.left
            for op, right in zip(e.ops, e.comparators):
                if not self.truth(ast.Compare(left=left, ops=[op], comparators=[right]), True):
                    return False
                left = right
            return True
        if (
            isinstance(e, ast.Compare)
            and len(e.ops) == 1
            and isinstance(e.left, ast.Constant)
            and isinstance(e.comparators[0], ast.Constant)
            and isinstance(e.ops[0], (ast.Is, ast.IsNot, ast.Eq, ast.NotEq))
        ):
            same = e.left.value == e.comparators[0].value and type(e.left.value) is type(
                e.comparators[0].value
            )
            return same if isinstance(e.ops[0], (ast.Is, ast.Eq)) else not same
        if isinstance(e, ast.JoinedStr):
            return True
        if isinstance(e, (ast.List, ast.Tuple, ast.Set)) and not e.elts:
            return False
        if isinstance(e, ast.Dict) and not e.keys:
            return False
        if isinstance(e, (ast.List, ast.Tuple, ast.Set)) and e.elts and not any(
            isinstance(x, ast.Starred) for x in e.elts
        ):
            return True
        v = self.atom(e, self)
        if v is None:
            raise UnknownAtom(f"unknown condition atom: {unparse(e)}")
        self.trace.append((unparse(e), bool(v)))
        return bool(v)

    def value(self, expr):
        """Copy-propagated expression with decidable conditional expressions resolved."""
        if self.watch:
            self._record_calls(expr)
        e = self.sub(expr)
        e = self._resolve_ifexp(e)
        return e

    def _record_calls(self, orig):
        """watched calls written in the original statement (not those that copy
        propagation brings in) are recorded as effects, innermost first"""
        todo = [orig]
        found = []
        while todo:
            x = todo.pop()
            if isinstance(x, ast.Lambda):
                continue
            if isinstance(x, ast.Call):
                f = x.func
                nm = f.id if isinstance(f, ast.Name) else f.attr if isinstance(f, ast.Attribute) else None
                if nm in self.watch:
                    found.append(("CALL", nm, self.sub(x)))
            todo.extend(ast.iter_child_nodes(x))
        for f in reversed(found):
            self.effects.append(f)

    def _resolve_ifexp(self, e):
        """resolve every decidable conditional expression (also nested in call arguments),
        except inside comprehensions / lambdas whose tests may use bound variables"""
        interp = self

        class R(ast.NodeTransformer):
            def visit_IfExp(self, node):
                try:
                    t = interp.truth(node.test, True)
                except AnalysisError:
                    return self.generic_visit(node)
                return self.visit(node.body if t else node.orelse)

            def _skip(self, node):
                return node

            visit_ListComp = visit_SetComp = visit_DictComp = visit_GeneratorExp = visit_Lambda = _skip

        return R().visit(e)

    # ------------------------------------------------------------- statements
    def run(self, stmts):
        for st in stmts:
            ex = self.stmt(st)
            if ex is not None:
                return ex
        return Exit("fall")

    def _block(self, stmts):
        ex = self.run(stmts)
        return None if ex.kind == "fall" else ex

    def emit(self, st, original=None):
        if self.local_mutations_ok and isinstance(st, ast.Expr) and isinstance(st.value, ast.Call):
            f = st.value.func
            if (
                isinstance(f, ast.Attribute) and isinstance(f.value, ast.Name) and f.value.id in self.fresh
                and f.attr in ("append", "extend", "add", "update", "insert", "setdefault")
            ):
                self.local_mutations.setdefault(f.value.id, []).append(st)
                return
        tok = self.effect_fn(st, self)
        if tok is None:
            return
        if tok is NotImplemented:
            raise AnalysisError(f"unknown effect: {unparse(original or st)}")
        if isinstance(tok, list):
            self.effects.extend(tok)
        else:
            self.effects.append(tok)

    def _is_ignored_call(self, call):
        f = call.func
        nm = f.id if isinstance(f, ast.Name) else f.attr if isinstance(f, ast.Attribute) else None
        return nm in self.ignore_calls

    def _check_raise(self, st):
        """If the oracle says this statement raises, return the exception type name."""
        if self.raises is None:
            return None
        return self.raises(st, self)

    def stmt(self, st):
        if isinstance(st, ast.If):
            return self._block(st.body if self.truth(st.test) else st.orelse)
        if isinstance(st, ast.Assign):
            r = self._check_raise(st)
            if r:
                return Exit("raise", ast.Name(id=r, ctx=ast.Load()), st)
            val = self.value(st.value)
            for t in st.targets:
                self._assign(t, val, st)
            return None
        if isinstance(st, ast.AnnAssign):
            if st.value is not None:
                self._assign(st.target, self.value(st.value), st)
            return None
        if isinstance(st, ast.AugAssign):
            if isinstance(st.target, ast.Name):
                cur = self.env.get(st.target.id, ast.Name(id=st.target.id, ctx=ast.Load()))
                self.env[st.target.id] = ast.BinOp(left=cur, op=st.op, right=self.value(st.value))
            else:
                self.emit(self._sub_stmt(st), st)
            return None
        if isinstance(st, ast.Expr):
            if isinstance(st.value, ast.Constant):
                return None  # docstring
            if isinstance(st.value, ast.Call) and self._is_ignored_call(st.value):
                return None
            r = self._check_raise(st)
            if r:
                return Exit("raise", ast.Name(id=r, ctx=ast.Load()), st)
            if self.watch and isinstance(st.value, ast.Call):
                self._record_calls(st.value)
                f = st.value.func
                nm = f.id if isinstance(f, ast.Name) else f.attr if isinstance(f, ast.Attribute) else None
                if nm in self.watch:
                    return None
            self.emit(self._sub_stmt(st), st)
            return None
        if isinstance(st, ast.Return):
            r = self._check_raise(st)
            if r:
                return Exit("raise", ast.Name(id=r, ctx=ast.Load()), st)
            return Exit("return", self.value(st.value) if st.value is not None else None, st)
        if isinstance(st, ast.Raise):
            return Exit("raise", self.value(st.exc) if st.exc is not None else None, st)
        if isinstance(st, ast.Break):
            return Exit("break", node=st)
        if isinstance(st, ast.Continue):
            return Exit("continue", node=st)
        if isinstance(st, (ast.Pass, ast.Global, ast.Nonlocal, ast.Import, ast.ImportFrom)):
            return None
        if isinstance(st, ast.Assert):
            if self.assert_is_effect:
                self.emit(self._sub_stmt(st), st)
            return None
        if isinstance(st, (ast.FunctionDef, ast.ClassDef)):
            self.env.pop(st.name, None)
            return None
        if isinstance(st, ast.Delete):
            self.emit(self._sub_stmt(st), st)
            return None
        if isinstance(st, ast.With):
            for item in st.items:
                if "suppress" in unparse(item.context_expr):
                    continue
                self.emit(ast.Expr(value=self.sub(item.context_expr)), st)
                if item.optional_vars is not None:
                    self._assign(item.optional_vars, self.sub(item.context_expr), st)
            return self._block(st.body)
        if isinstance(st, ast.Try):
            return self._try(st)
        if isinstance(st, (ast.For, ast.While)):
            if self.on_loop is None:
                raise AnalysisError(f"loop inside analysed region: {unparse(st)[:80]}")
            return self.on_loop(st, self)
        raise AnalysisError(f"unsupported statement in region: {type(st).__name__}")

    def _try(self, st):
        ex = None
        for s in st.body:
            ex = self.stmt(s)
            if ex is not None:
                break
        if ex is not None and ex.kind == "raise":
            raised = unparse(ex.value).split("(")[0] if ex.value is not None else None
            for h in st.handlers:
                names = self._handler_names(h)
                if raised is not None and (names is None or exc_matches(raised, names)):
                    if h.name:
                        self.env[h.name] = ast.Name(id=f"<exc {raised}>", ctx=ast.Load())
                    ex = self.run(h.body)
                    if ex.kind == "fall":
                        ex = None
                    break
        elif ex is None and st.orelse:
            ex = self.run(st.orelse)
            if ex.kind == "fall":
                ex = None
        if st.finalbody:
            ex2 = self.run(st.finalbody)
            if ex2.kind != "fall":
                return ex2
        return ex

    @staticmethod
    def _handler_names(h):
        if h.type is None:
            return None
        if isinstance(h.type, ast.Tuple):
            return {unparse(e).split(".")[-1] for e in h.type.elts}
        return {unparse(h.type).split(".")[-1]}

    def _sub_stmt(self, st):
        s = clone(st)
        return _Subst(self.env).visit(s)

    def _assign(self, target, val, st):
        if isinstance(target, ast.Name) and isinstance(val, (ast.Dict, ast.List, ast.Set)):
            # a fresh mutable container is an object with identity: keep its name symbolic
            # (copy propagation of the display would lose later in-place mutation)
            self.fresh[target.id] = val
            self.env.pop(target.id, None)
            return
        if isinstance(target, ast.Name):
            if (self.effects or self.mark_all) and not isinstance(val, (ast.Constant, ast.Name)) and not (
                isinstance(val, ast.Call)
                and isinstance(val.func, ast.Name)
                and val.func.id == "__at"
            ):
                # snapshot: the value was computed after len(effects) effects
                val = at_wrap(val, len(self.effects))
            self.env[target.id] = val
        elif isinstance(target, (ast.Tuple, ast.List)):
            if isinstance(val, (ast.Tuple, ast.List)) and len(val.elts) == len(target.elts):
                for t, v in zip(target.elts, val.elts):
                    self._assign(t, v, st)
            else:
                for i, t in enumerate(target.elts):
                    self._assign(
                        t,
                        ast.Subscript(value=val, slice=ast.Constant(value=i), ctx=ast.Load()),
                        st,
                    )
        else:
            s = ast.Assign(targets=[self.sub(target)], value=val, lineno=0, type_comment=None)
            self.emit(s, st)


def text(e):
    return unparse(e)
