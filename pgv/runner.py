"""check runner shared by the CLI and the self-validation harness"""
import importlib
import json
import os
import sys

from .core import Report


PROPS = [f"C{i:02d}" for i in range(1, 21)]
DOC = ""


def run_check(prop, tier="quick", root=None, quiet=False):
    rep = Report(prop, tier, root)
    if rep.repo is not None:
        try:
            mod = importlib.import_module(f"pgv.rules.{prop}")
        except ModuleNotFoundError:
            print(f"ANALYSIS-ERROR property={prop}: no checker implemented")
            return 2, rep
        try:
            mod.check(rep)
            if tier == "thorough" and hasattr(mod, "check_thorough"):
                mod.check_thorough(rep)
            from .rules.packs import run_packs

            run_packs(rep)
            from .rules.common import rule_debug_pure

            rule_debug_pure(rep, set(rep.repo.consulted))
        except Exception as e:  # never a traceback-exit-1
            with rep.rule("internal", "checker crashed") as r:
                raise
    code = rep.finish(quiet=quiet)
    return code, rep


def main(argv):
    if len(argv) < 2:
        print(DOC)
        return 2
    cmd = argv[1]
    if cmd == "check":
        prop = argv[2]
        tier = os.environ.get("VERIF_TIER", "quick")
        root = None
        i = 3
        while i < len(argv):
            if argv[i] == "--tier":
                tier = argv[i + 1]
                i += 2
            elif argv[i] == "--root":
                root = argv[i + 1]
                i += 2
            else:
                i += 1
        if tier == "thorough":
            from . import selfcheck

            code, rep = run_check(prop, tier, root, quiet=False)
            if root is None:
                sc = selfcheck.run_for_property(prop, rep)
                if code == 0 and sc != 0:
                    code = sc
            return code
        code, _ = run_check(prop, tier, root)
        return code
    if cmd == "replay":
        with open(argv[2]) as f:
            v = json.load(f)
        prop = v["property"]
        code, rep = run_check(prop, "quick", None, quiet=True)
        hit = [
            x
            for r in rep.rules
            for x in r.violations
            if x["rule"] == v["rule"] and x["construct"] == v["construct"]
        ]
        if hit:
            print(f"REPRODUCED {v['rule']} {v['construct']}: {hit[0]['message']} at {hit[0]['at']}")
            print(f"VIOLATION property={prop} replay={argv[2]}")
            return 1
        print(f"not reproduced on the current tree: {v['rule']} {v['construct']}")
        return 0
    if cmd == "selfcheck":
        from . import selfcheck

        return selfcheck.main(argv[2:])
    print(DOC)
    return 2


