"""E4 -- call graph over the driver modules, with MRO resolution of self-calls from an
entry class, bound-method aliases, constructors, and unique-name resolution of methods on
other receivers (an over-approximation used only for *may* facts)."""
from __future__ import annotations

import ast

from .core import call_name, is_name, is_self_attr, walk_no_nested

DRIVER_MODS = (
    "parglare.parser", "parglare.glr", "parglare.trees", "parglare.common", "parglare.exceptions",
    "parglare.actions", "parglare.termui",
)


class CallGraph:
    def __init__(self, repo, entry_cls_qual, modules=DRIVER_MODS):
        self.repo = repo
        self.cls = repo.cls(entry_cls_qual)
        self.modules = [m for m in modules if m in repo.modules]
        self.funcs = [f for f in repo.all_funcs() if f.module.name in self.modules]
        # method name -> [Func] over all classes of the driver modules
        self.by_name = {}
        for f in self.funcs:
            if f.cls is not None and f.outer is None:
                self.by_name.setdefault(f.name, []).append(f)
        self.edges = {}  # Func -> [(callee Func, call node, kind)]
        self.unresolved = []

    def resolve(self, f, call, aliases):
        """list of (callee, kind)"""
        fn = call.func
        out = []
        if is_self_attr(fn):
            owner = self.cls if (f.cls is not None and f.cls in self.cls.mro()) else f.cls
            m = owner.find_method(fn.attr) if owner is not None else None
            if m is not None:
                return [(m, "self")]
            return []
        if isinstance(fn, ast.Name):
            if fn.id in aliases:
                m = self.cls.find_method(aliases[fn.id])
                if m is not None:
                    return [(m, "alias")]
            # nested function of f
            for g in self.repo.all_funcs():
                if g.outer is f and g.name == fn.id:
                    return [(g, "nested")]
            origin = f.module.imports.get(fn.id)
            cands = []
            if fn.id in f.module.funcs:
                cands.append(f.module.funcs[fn.id])
            elif fn.id in f.module.classes:
                init = f.module.classes[fn.id].find_method("__init__")
                if init is not None:
                    cands.append(init)
            elif origin:
                modname, _, nm = origin.rpartition(".")
                m2 = self.repo.modules.get(modname)
                if m2 is not None:
                    if nm in m2.funcs:
                        cands.append(m2.funcs[nm])
                    elif nm in m2.classes:
                        init = m2.classes[nm].find_method("__init__")
                        if init is not None:
                            cands.append(init)
                    elif nm in m2.imports:  # re-export through parglare/__init__
                        o2 = m2.imports[nm]
                        mn2, _, n2 = o2.rpartition(".")
                        m3 = self.repo.modules.get(mn2)
                        if m3 is not None and n2 in m3.classes:
                            init = m3.classes[n2].find_method("__init__")
                            if init is not None:
                                cands.append(init)
            return [(c, "name") for c in cands]
        if isinstance(fn, ast.Attribute):
            # super().__init__ / super().m
            if isinstance(fn.value, ast.Call) and is_name(fn.value.func, "super") and f.cls is not None:
                for b in f.cls.mro()[1:]:
                    if fn.attr in b.methods:
                        return [(b.methods[fn.attr], "super")]
                return []
            cands = [g for g in self.by_name.get(fn.attr, []) if g.module.name in self.modules]
            if cands and fn.attr not in ("get", "append", "pop", "add", "update", "items", "values", "keys",
                                         "sort", "format", "join", "replace", "extend", "copy", "remove",
                                         "insert", "setdefault", "popitem", "reverse", "count", "index",
                                         "startswith", "endswith", "strip", "lower", "group", "match"):
                return [(c, "by-name") for c in cands]
        return []

    def aliases(self, f):
        out = {}
        for st in walk_no_nested(f.node):
            if (
                isinstance(st, ast.Assign) and len(st.targets) == 1 and isinstance(st.targets[0], ast.Name)
                and is_self_attr(st.value) and self.cls.find_method(st.value.attr)
            ):
                out[st.targets[0].id] = st.value.attr
        return out

    def property_reads(self, f):
        """attribute reads that resolve to a unique @property in the driver modules
        (e.g. forest.solutions) -- treated as calls"""
        out = []
        for n in walk_no_nested(f.node):
            if isinstance(n, ast.Attribute) and isinstance(n.ctx, ast.Load):
                for g in self.by_name.get(n.attr, []):
                    if any(isinstance(d, ast.Name) and d.id == "property" for d in g.node.decorator_list):
                        if n.attr in ("solutions", "ambiguities", "line", "column", "line_end", "column_end"):
                            out.append((g, n))
        return out

    def callees(self, f):
        if f in self.edges:
            return self.edges[f]
        al = self.aliases(f)
        out = []
        for c in walk_no_nested(f.node):
            if isinstance(c, ast.Call):
                res = self.resolve(f, c, al)
                for g, kind in res:
                    out.append((g, c, kind))
                # bound methods handed to callbacks
                for a in list(c.args) + [k.value for k in c.keywords]:
                    if is_self_attr(a):
                        m = self.cls.find_method(a.attr)
                        if m is not None:
                            out.append((m, c, "callback"))
        for g, n in self.property_reads(f):
            out.append((g, n, "property"))
        self.edges[f] = out
        return out

    def reachable(self, entry):
        seen = {}
        todo = [(entry, None)]
        while todo:
            f, via = todo.pop()
            if f in seen:
                continue
            seen[f] = via
            for g, c, kind in self.callees(f):
                if g not in seen:
                    todo.append((g, (f, c, kind)))
        return seen

    def path_to(self, seen, f):
        out = []
        while f is not None and seen.get(f) is not None:
            caller, c, kind = seen[f]
            out.append(f"{caller.qual_in_module} -> {f.qual_in_module} ({kind})")
            f = caller
        return list(reversed(out))
