"""Seeded faults (must fire) and benign refactors (must stay silent), DESIGN section 8.
Each edit is a text replacement that must match exactly once in the current source
(otherwise the variant is reported as skipped: 'locator no longer applies')."""

T = "parglare/tables/__init__.py"
P = "parglare/parser.py"
G = "parglare/glr.py"
GR = "parglare/grammar.py"
TR = "parglare/trees.py"

MUTANTS = []


def fault(id, prop, file, old, new, expect, **kw):
    MUTANTS.append(dict(id=id, prop=prop, file=file, old=old, new=new, expect=expect, kind="fault", **kw))


def benign(id, prop, file, old, new, **kw):
    MUTANTS.append(dict(id=id, prop=prop, file=file, old=old, new=new, kind="benign", **kw))


# ---------------------------------------------------------------- C06
benign("C06.b-gt-ge-after-eq", "C06", T, "elif prod.prior > sh_prior:", "elif prod.prior >= sh_prior:")
fault("C06.gt-lt", "C06", T, "elif prod.prior > sh_prior:", "elif prod.prior < sh_prior:", "R06.table")
fault("C06.right-guard", "C06", T, "elif prod.prior > sh_prior:", "elif prod.prior > sh_prior and prod.assoc != ASSOC_RIGHT:", "R06.table")
fault("C06.extra-guard", "C06", T, "elif prod.prior > sh_prior:", "elif prod.prior > sh_prior and len(state.items) > 1:", "R06.table")
fault("C06.prior-falsy", "C06", GR, "        self.prior = prior\n        self.dynamic = dynamic", "        self.prior = prior if prior else DEFAULT_PRIORITY\n        self.dynamic = dynamic", "R06.prod-fields")
fault("C06.eq-ge", "C06", T, "if prod.prior == sh_prior:", "if prod.prior >= sh_prior:", "R06.table")
fault("C06.swap-left-right", "C06", T,
      "if prod.assoc == ASSOC_LEFT:", "if prod.assoc == ASSOC_RIGHT:", "R06.table",
      edits=[("if prod.assoc == ASSOC_LEFT:", "if prod.assoc == ASSOC__TMP:"),
             ("elif prod.assoc == ASSOC_RIGHT:", "elif prod.assoc == ASSOC_LEFT:"),
             ("if prod.assoc == ASSOC__TMP:", "if prod.assoc == ASSOC_RIGHT:")])
fault("C06.drop-nopse", "C06", T, "and prefer_shifts_over_empty\n                                        and not prod.nopse",
      "and prefer_shifts_over_empty", "R06.table")
fault("C06.drop-nops", "C06", T, "not is_empty and prefer_shifts and not prod.nops",
      "not is_empty and prefer_shifts", "R06.table")
fault("C06.accept-prior", "C06", T, "sh_prior = DEFAULT_PRIORITY\n", "sh_prior = prod.prior\n", "R06.table")
fault("C06.shift-default", "C06", T,
      "sh_prior = state._max_prior_per_symbol[\n                                    t_shift.state.symbol\n                                ]",
      "sh_prior = DEFAULT_PRIORITY", "R06.table")
fault("C06.max-min", "C06", T, "= max(prod_prior, old_prior)", "= min(prod_prior, old_prior)", "R06.shift-prior")
fault("C06.no-fold", "C06", T, "= max(prod_prior, old_prior)", "= prod_prior", "R06.shift-prior")
benign("C06.b-rr-ge-after-eq", "C06", T, "elif prod.prior > t_reduces[0].prod.prior:", "elif prod.prior >= t_reduces[0].prod.prior:")
fault("C06.rr-lt", "C06", T, "elif prod.prior > t_reduces[0].prod.prior:", "elif prod.prior < t_reduces[0].prod.prior:", "R06.table")
fault("C06.rr-eq-le", "C06", T, "if prod.prior == t_reduces[0].prod.prior:", "if prod.prior <= t_reduces[0].prod.prior:", "R06.table")
fault("C06.rr-keep-old", "C06", T,
      "if x.action is not REDUCE\n", "if x.action is REDUCE\n", "R06.table")
fault("C06.remove-outside-conflict", "C06", T,
      "                            elif prod.prior > sh_prior:\n                                # This item operation priority is higher =>\n                                # override with reduce\n                                actions[terminal].remove(t_shift)\n",
      "                            elif prod.prior > sh_prior:\n                                pass\n", "R06.table")
fault("C06.meta-shift-left", "C06", GR, 'elif meta_data in ["right", "shift"]:', 'elif meta_data in ["right"]:', "R06.meta-map")
fault("C06.meta-swap", "C06", GR, 'if meta_data in ["left", "reduce"]:\n            meta_datas["assoc"] = ASSOC_LEFT',
      'if meta_data in ["left", "reduce"]:\n            meta_datas["assoc"] = ASSOC_RIGHT', "R06.meta-map")
fault("C06.inherit-prior", "C06", GR,
      '"priority", rule_meta_datas.get("priority", DEFAULT_PRIORITY)', '"priority", DEFAULT_PRIORITY', "R06.meta-map")
benign("C06.b-renest", "C06", T,
       "                            if prod.prior == sh_prior:\n",
       "                            if not (prod.prior != sh_prior):\n")
benign("C06.b-rename-should-reduce", "C06", T, "should_reduce", "do_reduce", count=5)
benign("C06.b-key-terminal", "C06", T,
       "sh_prior = state._max_prior_per_symbol[\n                                    t_shift.state.symbol\n                                ]",
       "sh_prior = state._max_prior_per_symbol[terminal]")

# ---------------------------------------------------------------- C18
fault("C18.bypass-or", "C18", P, "if (action is SHIFT and not to_state.symbol.dynamic) or (",
      "if (action is SHIFT or not to_state.symbol.dynamic) or (", "R18.bypass")
fault("C18.bypass-prod", "C18", P, "action is REDUCE and not production.dynamic", "action is REDUCE and production.dynamic", "R18.bypass")
fault("C18.bypass-negate-answer", "C18", P, "        return accepted\n", "        return not accepted\n", "R18.bypass")
fault("C18.arg-swap", "C18", P, "context, from_state, to_state, action, production, subresults\n        )",
      "context, to_state, from_state, action, production, subresults\n        )", "R18.bypass")
fault("C18.glr-no-init", "C18", G, "        self._init_dynamic_disambiguation(start_head)\n", "", "R18.init")
fault("C18.init-cond", "C18", P, "        if self.dynamic_filter:\n            if self.debug:\n                prints(\"\\tInitializing",
      "        if self.dynamic_filter and self.table.sr_conflicts:\n            if self.debug:\n                prints(\"\\tInitializing", "R18.init")
fault("C18.init-args", "C18", P, "self.dynamic_filter(context, None, None, None, None, None)", "self.dynamic_filter(context, None, None, None, None)", "R18.init")
fault("C18.merged-shift-skip", "C18", G,
      "                    token=head.token_ahead,\n                )\n                if self.dynamic_filter and not self._call_dynamic_filter(\n                    parent, head.state, to_state, SHIFT\n                ):\n                    continue\n            else:",
      "                    token=head.token_ahead,\n                )\n            else:", "R18.dominance")
fault("C18.reduce-filter-after", "C18", G,
      "        if self.dynamic_filter and not self._call_dynamic_filter(\n            parent, head.state, state, REDUCE, production, list(node_nonterm)\n        ):\n            # Action rejected by dynamic filter\n            return\n\n        active_head",
      "        active_head", "R18.dominance")
fault("C18.lr-skip", "C18", P, "            if self.dynamic_filter:\n                actions = self._dynamic_disambiguation(head, actions)",
      "            if self.dynamic_filter and len(actions) > 1:\n                actions = self._dynamic_disambiguation(head, actions)", "R18.dominance")
fault("C18.lr-break", "C18", P, "                    dyn_actions.append(a)\n            elif a.action is REDUCE:",
      "                    dyn_actions.append(a)\n                    break\n            elif a.action is REDUCE:", "R18.lr-filter")
fault("C18.lr-reduce-keep", "C18", P, "                ):\n                    dyn_actions.append(a)\n            else:\n                dyn_actions.append(a)",
      "                ):\n                    pass\n                dyn_actions.append(a)\n            else:\n                dyn_actions.append(a)", "R18.lr-filter")
fault("C18.mark-term-only-conflict", "C18", T,
      "                # Mark state for dynamic disambiguation\n                if term.dynamic:\n                    state.dynamic.add(term)\n\n                if len(actions) > 1:",
      "                if len(actions) > 1 and term.dynamic:\n                    state.dynamic.add(term)\n\n                if len(actions) > 1:", "R18.marks")
benign("C18.b-early-return", "C18", P,
       "        if (action is SHIFT and not to_state.symbol.dynamic) or (\n            action is REDUCE and not production.dynamic\n        ):\n            return True\n",
       "        if action is SHIFT and not to_state.symbol.dynamic:\n            return True\n        if action is REDUCE and not production.dynamic:\n            return True\n")
benign("C18.b-filter-local", "C18", G,
       "        if self.dynamic_filter and not self._call_dynamic_filter(\n            parent, head.state, state, REDUCE, production, list(node_nonterm)\n        ):\n            # Action rejected by dynamic filter\n            return\n",
       "        if self.dynamic_filter:\n            if not self._call_dynamic_filter(\n                parent, head.state, state, REDUCE, production, list(node_nonterm)\n            ):\n                return\n")

# ---------------------------------------------------------------- C07
fault("C07.no-reverse", "C07", T, "sorted(state.actions.items(), key=act_order, reverse=True)", "sorted(state.actions.items(), key=act_order)", "R07.sort-key")
fault("C07.kw-name-len", "C07", T, "len(symbol.recognizer.name)\n", "len(symbol.name)\n", "R07.sort-key")
fault("C07.tiebreak-name", "C07", T, "                symbol.fqn,\n            )\n            return cmp_str", "                symbol.name,\n            )\n            return cmp_str", "R07.sort-key")
fault("C07.no-string-term", "C07", T, "                        len(symbol.recognizer.value)\n                        if type(symbol.recognizer) is StringRecognizer\n                        else 0",
      "                        0", "R07.sort-key")
fault("C07.prior-weight", "C07", T, "symbol.prior * 1000", "symbol.prior * 100", "R07.sort-key")
fault("C07.finish-drop-keyword", "C07", T, "                        or type(symbol.recognizer) is StringRecognizer\n                        or symbol.keyword\n",
      "                        or type(symbol.recognizer) is StringRecognizer\n", "R07.finish")
fault("C07.finish-ge", "C07", T, "(symbol.prior > prior if prior else False)", "(symbol.prior >= prior if prior else False)", "R07.finish")
fault("C07.finish-explicit-ignored", "C07", T, "                if symbol.finish is not None:\n                    finish_flags.append(symbol.finish)",
      "                if symbol.finish:\n                    finish_flags.append(symbol.finish)", "R07.finish")
fault("C07.finish-forward", "C07", T, "in reversed(list(state.actions.items())):", "in list(state.actions.items()):", "R07.finish")
fault("C07.scan-le", "C07", P, "if symbol.prior < last_prior and tokens:", "if symbol.prior <= last_prior and tokens:", "R07.scan-loop")
fault("C07.scan-no-tokens", "C07", P, "if symbol.prior < last_prior and tokens:", "if symbol.prior < last_prior:", "R07.scan-loop")
fault("C07.scan-finish-any", "C07", P, "                if finish_flags[idx]:\n                    break", "                if any(finish_flags):\n                    break", "R07.scan-loop")
fault("C07.scan-all-terminals", "C07", P, "        actions = head.state.actions\n        position = head.position\n        finish_flags",
      "        actions = self.grammar.terminals.values()\n        position = head.position\n        finish_flags", "R07.scan-loop")
fault("C07.prefer-first", "C07", P, "        pref_tokens = [x for x in tokens if x.symbol.prefer]\n        if pref_tokens:",
      "        pref_tokens = [x for x in tokens if x.symbol.prefer][:1]\n        if pref_tokens:", "R07.longest-prefer")
fault("C07.longest-ge", "C07", P, "tokens = [x for x in tokens if len(x.value) == max_len]", "tokens = [x for x in tokens if len(x.value) >= max_len - 1]", "R07.longest-prefer")
fault("C07.card-first", "C07", P, "        elif len(tokens) == 1:\n            return tokens[0]\n        else:\n            raise DisambiguationError(Location(ErrorContext(head)), tokens)",
      "        else:\n            return tokens[0]", "R07.cardinality")
fault("C07.gate-custom", "C07", P, "        # do lexical disambiguation if it is enabled\n        if self.lexical_disambiguation:\n            tokens = self._lexical_disambiguation(tokens)\n",
      "        # do lexical disambiguation if it is enabled\n        if self.lexical_disambiguation and not self.custom_token_recognition:\n            tokens = self._lexical_disambiguation(tokens)\n", "R07.gate")
fault("C07.glr-default-on", "C07", G, "            if lexical_disambiguation is None:\n                lexical_disambiguation = False", "            if lexical_disambiguation is None:\n                lexical_disambiguation = True", "R07.gate")
benign("C07.b-tuple-key", "C07", T,
       """            cmp_str = "{:010d}{:500s}".format(
                symbol.prior * 1000
                + (
                    500
                    + (
                        len(symbol.recognizer.value)
                        if type(symbol.recognizer) is StringRecognizer
                        else 0
                    )
                    +
                    # For keywords use the length of the keyword text (kept as the
                    # name of the word boundary regex recognizer)
                    (
                        len(symbol.recognizer.name)
                        if type(symbol.recognizer) is RegExRecognizer and symbol.keyword
                        else 0
                    )
                ),
                symbol.fqn,
            )
            return cmp_str""",
       """            return (
                symbol.prior,
                (len(symbol.recognizer.value) if type(symbol.recognizer) is StringRecognizer else 0)
                + (len(symbol.recognizer.name) if type(symbol.recognizer) is RegExRecognizer and symbol.keyword else 0),
                symbol.fqn,
            )""")
benign("C07.b-longest-local", "C07", P,
       "        tokens = [x for x in tokens if len(x.value) == max_len]\n", "        longest = [x for x in tokens if len(x.value) == max_len]\n        tokens = longest\n")

# ---------------------------------------------------------------- C12
PS = "parglare/tables/persist.py"
fault("C12.ctime", "C12", T, "table_mtime = os.path.getmtime(table_file_name)", "table_mtime = os.path.getctime(table_file_name)", "R12.decision")
fault("C12.stale-lt", "C12", T, "if os.path.getmtime(g_file_name) > table_mtime:", "if os.path.getmtime(g_file_name) < table_mtime:", "R12.decision")
fault("C12.stale-root-only", "C12", T, "for g_file_name in grammar.imported_files:", "for g_file_name in [grammar.file_path]:", "R12.decision")
fault("C12.handler-narrow-keyerror", "C12", T, "        except ValueError:\n            # Incomplete", "        except KeyError:\n            # Incomplete", "R12.decision")
fault("C12.no-handler", "C12", T,
      "        try:\n            table = load_table(table_file_name, grammar)\n        except ValueError:\n            # Incomplete or corrupted table file (e.g. an interrupted\n            # write). Calculate the table again.\n            table = None\n",
      "        table = load_table(table_file_name, grammar)\n", "R12.decision")
fault("C12.force-load-absent", "C12", T,
      "    if force_load and not (table_file_name and os.path.exists(table_file_name)):\n        # There is no table file to load. Calculate the table.\n        force_load = False\n", "", "R12.decision")
fault("C12.cache-layout", "C12", T, "    if in_layout:\n        # For layout grammars always calculate table.", "    if in_layout and not grammar.file_path:\n        # For layout grammars always calculate table.", "R12.decision")
fault("C12.no-save", "C12", T, "        if table_file_name:\n            with contextlib.suppress(PermissionError):\n                save_table(table_file_name, table)",
      "        if table_file_name and force_create:\n            with contextlib.suppress(PermissionError):\n                save_table(table_file_name, table)", "R12.decision")
fault("C12.swap-ps-args", "C12", T, "            start_production,\n            prefer_shifts,\n            prefer_shifts_over_empty,\n            debug=debug,",
      "            start_production,\n            prefer_shifts_over_empty,\n            prefer_shifts,\n            debug=debug,", "R12.decision")
fault("C12.new-option", "C12", T, "    in_layout=False,\n    debug=False,\n    **kwargs,\n):\n    \"\"\"\n    Construct table by loading",
      "    in_layout=False,\n    debug=False,\n    merge_states_eagerly=False,\n    **kwargs,\n):\n    \"\"\"\n    Construct table by loading", "R12.key",
      edits=[("    in_layout=False,\n    debug=False,\n    **kwargs,\n):\n    \"\"\"\n    Construct table by loading",
              "    in_layout=False,\n    debug=False,\n    merge_states_eagerly=False,\n    **kwargs,\n):\n    \"\"\"\n    Construct table by loading"),
             ("            prefer_shifts_over_empty,\n            debug=debug,\n            **kwargs,", "            prefer_shifts_over_empty,\n            debug=debug,\n            merge_eagerly=merge_states_eagerly,\n            **kwargs,")])
fault("C12.writer-key", "C12", PS, 's["gotos"] = [[nonterminal.fqn', 's["goto"] = [[nonterminal.fqn', "R12.schema")
fault("C12.writer-name", "C12", PS, "[terminal.fqn, _dump_actions(actions)]", "[terminal.name, _dump_actions(actions)]", "R12.schema")
fault("C12.sorted-actions", "C12", PS, "    for action in actions:\n        a = {}", "    for action in sorted(actions, key=lambda a: a.action):\n        a = {}", "R12.schema")
fault("C12.symbol-name", "C12", PS, 's["symbol"] = state.symbol.fqn', 's["symbol"] = state.symbol.name', "R12.schema")
fault("C12.resort-on-load", "C12", PS, "table = LRTable(states, calc_finish_flags=False)", "table = LRTable(states)", "R12.fields")
fault("C12.encoding-mismatch", "C12", PS, '    with open(file_name, "w") as f:', '    with open(file_name, "w", encoding="utf-16") as f:', "R12.codec")
fault("C12.pgec-root-only", "C12", P,
      "                or any(\n                    Path(g_file).stat().st_mtime > hints_file_compiled.stat().st_mtime\n                    for g_file in self.grammar.imported_files\n                )\n",
      "                or grammar_file.stat().st_mtime > hints_file_compiled.stat().st_mtime\n", "R12.stale-domain")
fault("C12.no-calc-conflicts-on-load", "C12", T, "        self.calc_conflicts_and_dynamic_terminals(debug)\n\n    def sort_state_actions",
      "        if calc_finish_flags:\n            self.calc_conflicts_and_dynamic_terminals(debug)\n\n    def sort_state_actions", "R12.fields")
benign("C12.b-handler-exception", "C12", T, "        except ValueError:\n            # Incomplete", "        except (ValueError, KeyError):\n            # Incomplete")
benign("C12.b-narrow-json-ascii", "C12", T, "        except ValueError:\n            # Incomplete", "        except __import__('json').JSONDecodeError:\n            # Incomplete")

# ---------------------------------------------------------------- C16
fault("C16.set-per-next-symbol", "C16", T, "        for symbol, items in per_next_symbol.items():", "        for symbol in set(per_next_symbol):\n            items = per_next_symbol[symbol]", "R16.taint")
fault("C16.no-sort-call", "C16", T, "            self.sort_state_actions()\n", "", "R16.sanitiser")
fault("C16.for-actor-set", "C16", G, "self._for_actor = list(self._active_heads.values())", "self._for_actor = list(set(self._active_heads.values()))", "R16.taint")
fault("C16.tiebreak-name", "C16", T, "                symbol.fqn,\n            )\n            return cmp_str", "                symbol.name,\n            )\n            return cmp_str", "R16.sanitiser")
fault("C16.states-from-follow", "C16", T, "                for terminal in follow_set:\n                    if terminal not in actions:",
      "                for terminal in follow_set:\n                    order_log.append(terminal)\n                    if terminal not in actions:", "R16.taint",
      edits=[("                for terminal in follow_set:\n                    if terminal not in actions:",
              "                for terminal in follow_set:\n                    order_log.append(terminal)\n                    if terminal not in actions:"),
             ("    states = []\n\n    if debug:\n        h_print(\"Constructing LR automaton states...\")", "    states = []\n    order_log = []\n\n    if debug:\n        h_print(\"Constructing LR automaton states...\")")])
fault("C16.revisit-heads-set", "C16", G, "for r_head_state in to_revisit:\n                        r_head = self._active_heads[r_head_state]",
      "for r_head in {self._active_heads[s] for s in to_revisit}:", "R16.taint")
fault("C16.dump-sorted", "C16", PS, "    for action in actions:\n        a = {}", "    for action in sorted(actions, key=lambda a: a.action):\n        a = {}", "R16.dump")
fault("C16.accepted-set", "C16", G, "        self._accepted_heads = []\n", "        self._accepted_heads = set()\n", "R16.driver-order")
benign("C16.b-sorted-follow", "C16", T, "                for terminal in follow_set:\n                    if terminal not in actions:", "                for terminal in sorted(follow_set, key=lambda t: t.fqn):\n                    if terminal not in actions:")

# ---------------------------------------------------------------- C15
fault("C15.errors-not-reset", "C15", P, "        self.errors = []\n        self.in_error_recovery = False\n", "        self.in_error_recovery = False\n", "R15.reinit")
fault("C15.glr-for-shifter-not-reset", "C15", G, "        self._last_shifted_heads = []\n        self._for_shifter = []\n", "        self._last_shifted_heads = []\n", "R15.reinit")
fault("C15.glr-accepted-not-reset", "C15", G, "        # Accepted (finished) heads\n        self._accepted_heads = []\n", "", "R15.reinit")
fault("C15.flag-to-init", "C15", G, "        self.errors = []\n        self._in_error_reporting = False\n", "        self.errors = []\n", "R15.reinit")
fault("C15.enter-no-per-symbol", "C15", G, "        self._active_heads_per_symbol = {}\n        for head in farthest_heads:", "        for head in farthest_heads:", "R15.reinit")
# since D21 behaviour preserving
benign("C15.b-no-restore", "C15", T, "    grammar.productions[0].rhs = _old_start_production_rhs\n", "")
# since D21 every build re-points the augmented production first: behaviour preserving
benign("C15.b-restore-conditional", "C15", T, "    grammar.productions[0].rhs = _old_start_production_rhs\n", "    if itemset_type is LR_1:\n        grammar.productions[0].rhs = _old_start_production_rhs\n")
# since D21 every build re-points the augmented production first: behaviour preserving
benign("C15.b-raise-between", "C15", T, "    state_queue = [s]\n    state_id = 1\n", "    state_queue = [s]\n    state_id = 1\n    if not grammar.productions[0].rhs:\n        raise GrammarError(location=None, message='empty')\n")
# since D21 behaviour preserving
benign("C15.b-inplace-swap", "C15", T, "    grammar.productions[0].rhs = ProductionRHS([start_prod_symbol, STOP])", "    grammar.productions[0].rhs[:] = ProductionRHS([start_prod_symbol, STOP])")
fault("C15.cache-follow", "C15", T, "    if first_sets is None:\n        first_sets = first(grammar)\n\n    follow_sets = {}",
      "    if first_sets is None:\n        first_sets = first(grammar)\n    if hasattr(grammar, '_follow_sets'):\n        return grammar._follow_sets\n\n    follow_sets = {}", None,
      edits=[("    if first_sets is None:\n        first_sets = first(grammar)\n\n    follow_sets = {}",
              "    if first_sets is None:\n        first_sets = first(grammar)\n    if hasattr(grammar, '_follow_sets'):\n        return grammar._follow_sets\n\n    follow_sets = {}"),
             ("                            follow_sets[symbol].update(prod_follow)\n    return follow_sets", "                            follow_sets[symbol].update(prod_follow)\n    grammar._follow_sets = follow_sets\n    return follow_sets")])
fault("C15.write-table-in-parse", "C15", P, "            act = actions[0]\n", "            act = actions[0]\n            cur_state.actions[head.token_ahead.symbol] = [act]\n", "R15.table-readonly")
fault("C15.symbol-prior-write", "C15", P, "        tokens = []\n        last_prior = -1\n", "        tokens = []\n        last_prior = -1\n        for s_ in actions:\n            s_.prior = max(s_.prior, 0)\n", "R15.shared-writes")
fault("C15.mutable-extra", "C15", P, "def parse(self, input_str, position=0, file_name=None, extra=None):", "def parse(self, input_str, position=0, file_name=None, extra={}):", "R15.defaults")
fault("C15.register-symbol-in-parser", "C15", P, "        self.layout_parser = None\n", "        self.layout_parser = None\n        self.grammar.register_symbol(EMPTY)\n", "R15.shared-writes")
benign("C15.b-prologue-helper", "C15", G,
       "        self.errors = []\n        self._in_error_reporting = False\n        self._expected = set()\n        self._tokens_ahead = []\n        self._last_shifted_heads = []\n        self._for_shifter = []\n",
       "        self._reset_error_state()\n",
       edits=[("        self.errors = []\n        self._in_error_reporting = False\n        self._expected = set()\n        self._tokens_ahead = []\n        self._last_shifted_heads = []\n        self._for_shifter = []\n",
               "        self._reset_error_state()\n"),
              ("    def _find_lookaheads(self):\n", "    def _reset_error_state(self):\n        self.errors = []\n        self._in_error_reporting = False\n        self._expected = set()\n        self._tokens_ahead = []\n        self._last_shifted_heads = []\n        self._for_shifter = []\n\n    def _find_lookaheads(self):\n")])
benign("C15.b-try-finally", "C15", T, "    grammar.productions[0].rhs = _old_start_production_rhs\n    table = LRTable(states, **kwargs)", "    grammar.productions[0].rhs = _old_start_production_rhs\n    table = LRTable(states, **kwargs)\n    assert grammar.productions[0].rhs is _old_start_production_rhs")

# ---------------------------------------------------------------- C09
A = "parglare/actions.py"
fault("C09.deferred-opt-not-none", "C09", P, "                                assgn_results[a.name] = bool(subresults[a.index])\n                    if isinstance(sem_action, list):\n                        if assignments:\n                            result = sem_action[node.production.prod_symbol_id](",
      "                                assgn_results[a.name] = subresults[a.index] is not None\n                    if isinstance(sem_action, list):\n                        if assignments:\n                            result = sem_action[node.production.prod_symbol_id](", "R09.siblings")
fault("C09.no-reverse", "C09", P, "                subresults.reverse()\n", "", "R09.siblings")
fault("C09.prod-id", "C09", P, "                    result = sem_action[production.prod_symbol_id](context, subresults)", "                    result = sem_action[production.prod_id](context, subresults)", "R09.siblings")
fault("C09.eq-bool", "C09", P, "                    if a.op == \"=\":\n                        assgn_results[a.name] = subresults[a.index]\n                    else:\n                        assgn_results[a.name] = bool(subresults[a.index])\n\n            if isinstance",
      "                    if a.op == \"=\":\n                        assgn_results[a.name] = bool(subresults[a.index])\n                    else:\n                        assgn_results[a.name] = bool(subresults[a.index])\n\n            if isinstance", "R09.siblings")
fault("C09.single-unwrap-deferred", "C09", P, "result = subresults[0] if len(subresults) == 1 else subresults", "result = subresults[0] if len(subresults) >= 1 else subresults", "R09.siblings")
fault("C09.term-no-additional", "C09", P, "            result = sem_action(context, token.value, *token.additional_data)\n\n        else:", "            result = sem_action(context, token.value)\n\n        else:", "R09.terminals")
fault("C09.alt-adjacent", "C09", GR, "            prod.prod_symbol_id = idx_per_symbol.get(prod.symbol, 0)\n", "            prod.prod_symbol_id = idx - first_idx.setdefault(prod.symbol, idx)\n", "R09.alt-index",
      edits=[("            prod.prod_symbol_id = idx_per_symbol.get(prod.symbol, 0)\n", "            prod.prod_symbol_id = idx - first_idx.setdefault(prod.symbol, idx)\n"),
             ("        idx_per_symbol = {}\n", "        idx_per_symbol = {}\n        first_idx = {}\n")])
fault("C09.collect-sep-falsy", "C09", A, "    e1, _, e2 = nodes\n    if e2 is not None:", "    e1, _, e2 = nodes\n    if e2:", "R09.builtins")
fault("C09.collect-both-falsy", "C09", A, "    if e2 is not None:", "    if e2:", "R09.builtins", count=2)
fault("C09.optional-swap", "C09", A, "optional = [pass_single, pass_none]", "optional = [pass_none, pass_single]", "R09.builtins")
fault("C09.tree-no-reversed", "C09", TR, "    def __reversed__(self):\n        return reversed(self.children or [])\n\n", "", "R09.protocol")
fault("C09.index-from-named", "C09", GR, "        for idx, a in enumerate(assignments):\n            if a.name:\n                a.index = idx", "        for idx, a in enumerate([x for x in assignments if x.name]):\n            if a.name:\n                a.index = idx", "R09.alt-index")
benign("C09.b-ternary", "C09", P, "            if len(subresults) == 1:\n                if debug:\n                    h_print(\"Unpacking a single subresult.\", level=1)\n                result = subresults[0]\n            else:\n                if debug:\n                    h_print(\"Result is a list of subresults.\", level=1)\n                result = subresults",
       "            result = subresults[0] if len(subresults) == 1 else subresults")

# ---------------------------------------------------------------- C08
fault("C08.reduce-layout-ahead", "C08", P, "                        layout_content=start_reduction_head.layout_content,\n                        layout_content_ahead=head.layout_content_ahead,",
      "                        layout_content=start_reduction_head.layout_content,\n                        layout_content_ahead=start_reduction_head.layout_content_ahead,", "R08.roles-lr")
fault("C08.empty-start", "C08", P, "                        start_position=head.end_position,\n                        end_position=head.end_position,", "                        start_position=head.position,\n                        end_position=head.end_position,", "R08.roles-lr")
fault("C08.reduce-layout-last", "C08", P, "layout_content=start_reduction_head.layout_content,", "layout_content=head.layout_content,", "R08.roles-lr")
fault("C08.shift-end-value-len", "C08", P, "new_position = head.position + len(head.token_ahead)", "new_position = head.position + len(head.token_ahead.value)", None)
fault("C08.start-no-span", "C08", P, "            extra,\n            start_position=position,\n            end_position=position,\n        )", "            extra,\n        )", None)
fault("C08.glr-shift-layout", "C08", G, "                    layout_content=head.layout_content_ahead,\n                    debug=self.debug,\n                )\n                parent = Parent(", "                    layout_content=head.layout_content,\n                    debug=self.debug,\n                )\n                parent = Parent(", "R08.roles-glr")
fault("C08.glr-reduce-end", "C08", G, "                            parent.start_position,\n                            path_last_parent.end_position,", "                            parent.start_position,\n                            parent.end_position,", "R08.roles-glr")
fault("C08.glr-fork-no-layout-ahead", "C08", G, "                layout_content_ahead=self.layout_content_ahead,\n                debug=self.debug,\n            )\n            new_head.parents", "                debug=self.debug,\n            )\n            new_head.parents", "R08.roles-glr")
fault("C08.glr-fork-token-pos", "C08", G, "                self.state,\n                self.position,\n                self.frontier,\n                self.extra,\n                token_ahead=token,", "                self.state,\n                token.position,\n                self.frontier,\n                self.extra,\n                token_ahead=token,", "R08.roles-glr")
fault("C08.skipws-order", "C08", P, "                layout_content_ahead = input_str[head.position : pos]\n                head.position = pos", "                head.position = pos\n                layout_content_ahead = input_str[head.position : pos]", "R08.layout-slice")
fault("C08.skipws-ws-slice", "C08", P, "            layout_content_ahead = input_str[old_pos : head.position]", "            layout_content_ahead = input_str[old_pos : head.position - 1]", None)
fault("C08.skipws-no-store", "C08", P, "        head.layout_content_ahead = layout_content_ahead\n", "        if layout_content_ahead:\n            head.layout_content_ahead = layout_content_ahead\n", "R08.layout-slice")
fault("C08.ic-literal", "C08", GR, "            if matched.lower() == self.value_cmp:\n                return matched", "            if matched.lower() == self.value_cmp:\n                return self.value", "R08.value-is-slice")
fault("C08.regex-search", "C08", GR, "m = self.regex.match(in_str, pos)", "m = self.regex.search(in_str, pos)", "R08.value-is-slice")
fault("C08.merge-context", "C08", G, "    def merge(self, other):\n        self.possibilities.extend(other.possibilities)", "    def merge(self, other):\n        for p in other.possibilities:\n            p.context = self\n        self.possibilities.extend(other.possibilities)", "R08.context-owner")
fault("C08.obj-swap", "C08", "parglare/actions.py", "instance._pg_end_position = context.end_position", "instance._pg_end_position = context.start_position", "R08.context-owner")
benign("C08.b-positional-kw", "C08", P, "                    state=act.state,\n                    frontier=head.frontier + 1,\n                    token=head.token_ahead,", "                    act.state,\n                    head.frontier + 1,\n                    token=head.token_ahead,")
benign("C08.b-inline-new-position", "C08", P, "                    position=new_position,\n                    start_position=head.position,\n                    end_position=new_position,", "                    position=head.position + len(head.token_ahead),\n                    start_position=head.position,\n                    end_position=head.position + len(head.token_ahead),")

# ---------------------------------------------------------------- C13
fault("C13.nopse-for-nops", "C13", GR, "                            assoc=assoc,\n                            nops=True,", "                            assoc=assoc,\n                            nopse=True,", "R13.expansion")
fault("C13.no-nops", "C13", GR, "                            assoc=assoc,\n                            nops=True,\n", "                            assoc=assoc,\n", "R13.expansion")
fault("C13.swap-x1-prods", "C13", GR, "                        Production(symbol, ProductionRHS([symbol, base_symbol]))\n                    )\n                    symbol.action_name = \"collect\"\n\n                productions.append(Production(symbol, ProductionRHS([base_symbol])))",
      "                        Production(symbol, ProductionRHS([base_symbol]))\n                    )\n                    symbol.action_name = \"collect\"\n\n                productions.append(Production(symbol, ProductionRHS([symbol, base_symbol])))", "R13.expansion")
fault("C13.sep-action", "C13", GR, "                    symbol.action_name = \"collect_sep\"", "                    symbol.action_name = \"collect\"", "R13.expansion")
fault("C13.opt-greedy-wrong-prod", "C13", GR, "                    Production(symbol, ProductionRHS([base_symbol])),\n                    Production(symbol, ProductionRHS([EMPTY]), assoc=assoc),\n                ]\n            )\n\n            symbol.action_name = \"optional\"",
      "                    Production(symbol, ProductionRHS([base_symbol]), assoc=assoc),\n                    Production(symbol, ProductionRHS([EMPTY])),\n                ]\n            )\n\n            symbol.action_name = \"optional\"", "R13.expansion")
fault("C13.greedy-left", "C13", GR, "        assoc = ASSOC_RIGHT if symbol_ref.greedy else ASSOC_NONE", "        assoc = ASSOC_LEFT if symbol_ref.greedy else ASSOC_NONE", "R13.expansion")
fault("C13.no-register-zero", "C13", GR, "                symbol.grammar_action = action\n\n                self.register_symbol(symbol)\n", "                symbol.grammar_action = action\n", "R13.expansion")
fault("C13.name-no-greedy", "C13", GR, "            self.separator.name if self.separator else None,\n            self.greedy,\n        )", "            self.separator.name if self.separator else None,\n        )", "R13.name-key")
fault("C13.name-elif-greedy", "C13", GR, '''        return "{}_{}{}{}".format(
            symbol_name,
            name_by_mult[multiplicity],
            f"_{separator_name}" if separator_name else "",
            "!" if greedy else "",
        )''', '''        suffix = name_by_mult[multiplicity]
        if separator_name:
            suffix += f"_{separator_name}"
        elif greedy:
            suffix += "!"
        return f"{symbol_name}_{suffix}"''', "R13.name-key")
fault("C13.zero-name-no-greedy", "C13", GR, "                    separator.name if separator else None,\n                    symbol_ref.greedy,\n                )", "                    separator.name if separator else None,\n                )", "R13.expansion")
fault("C13.op-plus-zero", "C13", GR, '        elif rep_op.startswith("+"):\n            symbol_ref.multiplicity = MULT_ONE_OR_MORE', '        elif rep_op.startswith("+"):\n            symbol_ref.multiplicity = MULT_ZERO_OR_MORE', "R13.op-map")
fault("C13.op-greedy-startswith", "C13", GR, '        if rep_op.endswith("!"):', '        if rep_op.startswith("!"):', "R13.op-map")
fault("C13.group-counter", "C13", GR, "            counter[name] += 1\n", "", "R13.groups")
benign("C13.b-fstring-name", "C13", GR, '''        return "{}_{}{}{}".format(
            symbol_name,
            name_by_mult[multiplicity],
            f"_{separator_name}" if separator_name else "",
            "!" if greedy else "",
        )''', '''        suffix = name_by_mult[multiplicity]
        if separator_name:
            suffix += f"_{separator_name}"
        if greedy:
            suffix += "!"
        return f"{symbol_name}_{suffix}"''')

# ---------------------------------------------------------------- C19
fault("C19.no-escape", "C19", GR, 'rf"\\b{re.escape(match)}\\b"', 'rf"\\b{match}\\b"', "R19.kw-rewrite")
fault("C19.partial-match", "C19", GR, "                if match == term.recognizer.value:", "                if match:", "R19.kw-rewrite")
fault("C19.lower-match", "C19", GR, "                if match == term.recognizer.value:", "                if match and match.lower() == term.recognizer.value_cmp:", "R19.kw-rewrite")
fault("C19.no-keyword-flag", "C19", GR, "                    term.keyword = True\n", "", "R19.kw-rewrite")
fault("C19.no-ignore-case", "C19", GR, "                        name=match,\n                        ignore_case=term.recognizer.ignore_case,\n", "                        name=match,\n", "R19.kw-rewrite")
fault("C19.kw-before-collect", "C19", GR, "        self._add_resolve_all_production_symbols()\n        self._enumerate_productions()\n        self._fix_keyword_terminals()\n", "        self._fix_keyword_terminals()\n        self._add_resolve_all_production_symbols()\n        self._enumerate_productions()\n", "R19.kw-rewrite")
fault("C19.ref-unescaped", "C19", GR, "Location(context), escape(recognizer.name), context.extra.imported_with", "Location(context), recognizer.name, context.extra.imported_with", "R19.inline-form")
fault("C19.no-inline-guard", "C19", GR, "                and escape(symbol.recognizer.value) == symbol_fqn\n            ):", "                and symbol.recognizer.value == symbol_fqn\n            ):", "R19.qualified-split")
fault("C19.generated-raising", "C19", GR, "            symbol = self._resolve_generated_symbol(symbol_name)\n            if not symbol:\n                # If there is no multiplicity", "            symbol = self.resolve_symbol_by_name(symbol_name, symbol_ref.location)\n            if not symbol:\n                # If there is no multiplicity", "R19.qualified-split")
fault("C19.chain-order", "C19", GR, '        value.replace(r"\\"", \'"\')\n        .replace(r"\\\'", "\'")\n        .replace(r"\\\\", "\\\\")\n', '        value.replace(r"\\\\", "\\\\")\n        .replace(r"\\"", \'"\')\n        .replace(r"\\\'", "\'")\n', "R19.escape-chain")
fault("C19.keyword-shown", "C19", P, '                if terminal.name == "KEYWORD":\n                    continue\n', "", "R19.keyword-rank")
fault("C19.kw-name-len", "C19", T, "len(symbol.recognizer.name)\n", "len(symbol.name)\n", "R19.keyword-rank")
benign("C19.b-lookaround", "C19", GR, 'rf"\\b{re.escape(match)}\\b"', 'rf"(?<!\\w){re.escape(match)}(?!\\w)"')

# ---------------------------------------------------------------- C20
fault("C20.relative-no-realpath", "C20", GR, "        import_path = path.realpath(\n            path.join(path.dirname(context.file_name), import_path)\n        )", "        import_path = path.join(path.dirname(context.file_name), import_path)", "R20.load-once")
fault("C20.construct-on-hit", "C20", GR, "            if self.file_path in self.grammar.imported_files:\n                self.pgfile = self.grammar.imported_files[self.file_path]\n            else:", "            if False:\n                self.pgfile = self.grammar.imported_files[self.file_path]\n            else:", "R20.load-once")
fault("C20.register-after-imports", "C20", GR, "        if self.file_path and self.grammar:\n            self.grammar.imported_files[self.file_path] = self\n\n        if imports:",
      "        if imports:", "R20.register-first",
      edits=[("        if self.file_path and self.grammar:\n            self.grammar.imported_files[self.file_path] = self\n\n        if imports:", "        if imports:"),
             ("        else:\n            self.imports = {}\n\n        self._check_overrides()", "        else:\n            self.imports = {}\n\n        if self.file_path and self.grammar:\n            self.grammar.imported_files[self.file_path] = self\n\n        self._check_overrides()")])
fault("C20.register-only-imported", "C20", GR, "        if self.file_path and self.grammar:\n            self.grammar.imported_files[self.file_path] = self", "        if self.file_path and self.imported_with:\n            self.grammar.imported_files[self.file_path] = self", "R20.register-first")
fault("C20.delegate-first", "C20", GR, "        try:\n            # Try to get local symbol by FQN in order to override symbols from\n            # imported grammars.\n            return self.symbols_by_name[symbol_fqn]\n        except KeyError:\n            if \".\" in symbol_fqn:",
      "        if \".\" not in symbol_fqn:\n            return self.symbols_by_name.get(symbol_fqn)\n        else:\n            if \".\" in symbol_fqn:", "R20.resolution")
fault("C20.kw-order", "C20", GR, "        self._add_resolve_all_production_symbols()\n        self._enumerate_productions()\n        self._fix_keyword_terminals()\n", "        self._fix_keyword_terminals()\n        self._add_resolve_all_production_symbols()\n        self._enumerate_productions()\n", "R20.resolution")
fault("C20.collect-always", "C20", GR, "                        if rhs_elem.fqn not in self.nonterminals:\n                            # This may happen", "                        if rhs_elem.productions:\n                            # This may happen", "R20.collect-once")
fault("C20.fqn-name-only", "C20", GR, "    @property\n    def fqn(self):\n        if self.imported_with:\n            return f\"{self.imported_with.fqn}.{self.name}\"\n        return self.name\n\n    @property\n    def action_fqn", "    @property\n    def fqn(self):\n        return self.name\n\n    @property\n    def action_fqn", "R20.resolution")
benign("C20.b-registry-get", "C20", GR, "            if self.file_path in self.grammar.imported_files:\n                self.pgfile = self.grammar.imported_files[self.file_path]\n            else:",
       "            if self.file_path in self.grammar.imported_files:\n                self.pgfile = self.grammar.imported_files[self.file_path]\n            else:  # not loaded yet")
fault("C20.no-nonterminal-unify", "C20", GR, "                        else:\n                            # Unify non-terminals\n                            production.rhs[idx] = self.nonterminals[rhs_elem.fqn]\n", "", "R20.collect-once")
fault("C20.unify-inline-only", "C20", GR, "                        else:\n                            # Unify terminals\n", "                        elif rhs_elem.imported_with is None:\n", "R20.collect-once")
fault("C20.lookup-sep-fqn", "C20", GR, "            self.separator.name if self.separator else None,\n            self.greedy,", "            self.separator.fqn if self.separator else None,\n            self.greedy,", "R13.name-key")
benign("C20.b-unify-in", "C20", GR, "                        if rhs_elem.fqn not in self.terminals:\n                            self.terminals[rhs_elem.fqn] = rhs_elem\n                        else:\n                            # Unify terminals\n                            production.rhs[idx] = self.terminals[rhs_elem.fqn]",
       "                        if rhs_elem.fqn in self.terminals:\n                            production.rhs[idx] = self.terminals[rhs_elem.fqn]\n                        else:\n                            self.terminals[rhs_elem.fqn] = rhs_elem")

# ---------------------------------------------------------------- C11
fault("C11.bound-ne", "C11", P, "        while head.position < len(head.input_str):\n            head.position += 1", "        while head.position != len(head.input_str):\n            head.position += 1", "R11.progress")
fault("C11.inc-after-test", "C11", P, "            head.position += 1\n            tokens = self._next_tokens(head)\n",
      "            tokens = self._next_tokens(head)\n            head.position += 1\n", "R11.progress")
fault("C11.no-lookahead-store", "C11", P, "                head.token_ahead = tokens[0] if len(tokens) == 1 else None\n                return True", "                return True", "R11.progress")
fault("C11.recovery-first-of-many", "C11", P, "                head.token_ahead = tokens[0] if len(tokens) == 1 else None\n", "                head.token_ahead = tokens[0]\n", "R11.progress")
fault("C11.recovery-lr-fetch", "C11", P, "            tokens = self._next_tokens(head)\n            if tokens:\n                # More than one token means lexical ambiguity. Leave it to the\n                # parser to fetch the lookahead(s) at the new position.\n                head.token_ahead = tokens[0] if len(tokens) == 1 else None\n",
      "            token = self._next_token(head)\n            if token:\n                head.token_ahead = token\n", "R10.discipline")
fault("C11.lr-span-unconditional", "C11", P, "        if successful:\n            if debug:\n                h_print(\"Recovery \")\n            error.location.end_position = head.position",
      "        error.location.end_position = head.position\n        if successful:\n            if debug:\n                h_print(\"Recovery \")", "R11.span-end")
fault("C11.glr-span-unconditional", "C11", G, "            if successful:\n                error.location.end_position = head.position\n", "            error.location.end_position = head.position\n            if successful:\n", "R11.span-end")
fault("C11.lr-no-span-end", "C11", P, "            error.location.end_position = head.position\n            if debug:\n                a_print(\n                    \"New position is \",", "            if debug:\n                a_print(\n                    \"New position is \",", "R11.span-end")
fault("C11.glr-reinsert-all", "C11", G, "                self._active_heads[head.state.state_id] = head\n                if self.debug:\n                    a_print(\n                        \"*** ERROR RECOVERY SUCCEEDED. CONTINUING.\",",
      "                if self.debug:\n                    a_print(\n                        \"*** ERROR RECOVERY SUCCEEDED. CONTINUING.\",", "R11.span-end",
      edits=[("                self._active_heads[head.state.state_id] = head\n                if self.debug:\n                    a_print(\n                        \"*** ERROR RECOVERY SUCCEEDED. CONTINUING.\",",
              "                if self.debug:\n                    a_print(\n                        \"*** ERROR RECOVERY SUCCEEDED. CONTINUING.\","),
             ("            if successful:\n                error.location.end_position = head.position\n", "            self._active_heads[head.state.state_id] = head\n            if successful:\n                error.location.end_position = head.position\n")])
fault("C11.lr-unguarded-recovery", "C11", P, "                if self.error_recovery:\n                    if self.debug:\n                        a_print(\"*** STARTING ERROR RECOVERY.\", new_line=True)", "                if True:\n                    if self.debug:\n                        a_print(\"*** STARTING ERROR RECOVERY.\", new_line=True)", "R11.gated")
fault("C11.lr-fail-continues", "C11", P, "                        continue\n                    else:\n                        break\n                else:\n                    break", "                        continue\n                    else:\n                        continue\n                else:\n                    break", "R11.gated")
fault("C11.glr-no-clear", "C11", G, "                    self._do_error_recovery()\n                    self._for_shifter = []\n                    continue", "                    self._do_error_recovery()\n                    continue", "R11.gated")
fault("C11.shift-value-len", "C11", P, "new_position = head.position + len(head.token_ahead)", "new_position = head.position + len(head.token_ahead.value)", "R11.token-length")
benign("C11.b-for-shifter-clear-first", "C11", G, "                    self._do_error_recovery()\n                    self._for_shifter = []\n                    continue", "                    self._for_shifter = []\n                    self._do_error_recovery()\n                    self._for_shifter = []\n                    continue")

# ---------------------------------------------------------------- C03
fault("C03.no-check-lazy", "C03", TR, "    def get_tree(self, idx=0):\n        self._check_index(idx)\n", "    def get_tree(self, idx=0):\n", "R03.bounds")
fault("C03.nonlazy-neg-only", "C03", TR, "    def get_nonlazy_tree(self, idx=0):\n        self._check_index(idx)\n", "    def get_nonlazy_tree(self, idx=0):\n        if idx < 0:\n            raise IndexError('Forest tree index out of range')\n", "R03.bounds")
fault("C03.check-le", "C03", TR, "        if not 0 <= idx < self.solutions:", "        if not 0 <= idx <= self.solutions:", "R03.bounds")
fault("C03.check-valueerror", "C03", TR, "            raise IndexError(\"Forest tree index out of range\")", "            raise ValueError(\"Forest tree index out of range\")", "R03.bounds")
fault("C03.len-ambiguities", "C03", TR, "    def __len__(self):\n        return self.solutions", "    def __len__(self):\n        return self.ambiguities + 1", "R03.one-count")
fault("C03.weights-amb", "C03", TR, "weights = [c.solutions for c in self.root.children]", "weights = [c.solutions if c.ambiguity > 1 else 1 for c in self.root.children]", "R03.count-decode")
fault("C03.first-tree-last", "C03", TR, "                return iter([n.possibilities[0]])", "                return iter([n.possibilities[-1]])", "R03.one-decoder")
fault("C03.lazy-own-decoder", "C03", TR, "    def _init_children(self, counter):\n        self.counter = counter\n\n    def __getattr__(self, attr):\n        if attr == \"children\":",
      "    def _init_children(self, counter):\n        self.counter = counter\n\n    def _enumerate_children(self, counter):\n        return [self.__class__(c, 0) for c in self.root.children]\n\n    def __getattr__(self, attr):\n        if attr == \"children\":", "R03.one-decoder")
fault("C03.no-mark-remove", "C03", TR, "            if check_cycle:\n                visiting.remove(id(node))\n", "", "R03.traversal")
fault("C03.visited-eq", "C03", G, "                        if id(i) not in visited:\n                            visited.add(id(i))", "                        if i not in visited:\n                            visited.add(i)", "R03.traversal")
fault("C03.select-lt", "C03", TR, "            while solutions <= counter:", "            while solutions < counter:", "R03.count-decode")
fault("C03.merge-first", "C03", G, "        self.possibilities.extend(other.possibilities)\n        self._solutions = None", "        self.possibilities.extend(other.possibilities[:1])\n        self._solutions = None", "R03.traversal")
benign("C03.b-inline-check", "C03", TR, "    def get_tree(self, idx=0):\n        self._check_index(idx)\n", "    def get_tree(self, idx=0):\n        if idx < 0 or idx >= self.solutions:\n            raise IndexError(idx)\n")

# ---------------------------------------------------------------- C14
fault("C14.lr-fetch-no-skip", "C14", P, "                if not self.in_layout:\n                    self._skipws(head, input_str)\n", "                if not self.in_layout and self.ws:\n                    self._skipws(head, input_str)\n", "R14.skip-before-fetch")
fault("C14.lr-always-fetch", "C14", P, "            if head.token_ahead is None:\n                if not self.in_layout:", "            if True:\n                if not self.in_layout:", "R14.skip-before-fetch")
fault("C14.glr-fetch-first", "C14", G, "            self._skipws(head, head.input_str)\n\n            tokens = self._next_tokens(head)\n", "            tokens = self._next_tokens(head)\n            self._skipws(head, head.input_str)\n", "R14.skip-before-fetch")
fault("C14.layout-consume", "C14", P, "                    in_layout=True,\n                    consume_input=False,", "                    in_layout=True,\n                    consume_input=True,", "R14.subparser")
fault("C14.layout-tables", "C14", P, "                    ws=None,\n                    return_position=True,", "                    ws=None,\n                    tables=tables,\n                    return_position=True,", "R14.subparser")
fault("C14.layout-ws", "C14", P, "                    actions=layout_actions,\n                    ws=None,", "                    actions=layout_actions,\n                    ws=ws,", "R14.subparser")
fault("C14.layout-cached", "C14", T, "    if in_layout:\n        # For layout grammars always calculate table.", "    if in_layout and force_create:\n        # For layout grammars always calculate table.", "R14.subparser")
fault("C14.skipws-cache", "C14", P, "            _, pos = self.layout_parser.parse(input_str, head.position)\n", "            pos = self._layout_ends.get(head.position)\n            if pos is None:\n                _, pos = self.layout_parser.parse(input_str, head.position)\n                self._layout_ends[head.position] = pos\n", None,
      edits=[("            _, pos = self.layout_parser.parse(input_str, head.position)\n", "            pos = self._layout_ends.get(head.position)\n            if pos is None:\n                _, pos = self.layout_parser.parse(input_str, head.position)\n                self._layout_ends[head.position] = pos\n"),
             ("        self.ws = ws\n        self.return_position", "        self.ws = ws\n        self._layout_ends = {}\n        self.return_position")])
fault("C14.ws-regex", "C14", P, "            old_pos = head.position\n            try:\n", "            old_pos = head.position\n            import re\n            m_ = re.compile(f\"[{self.ws}]+\").match(input_str, head.position)\n            if m_:\n                head.position = m_.end()\n            try:\n", None)
fault("C14.ws-slice-old", "C14", P, "            layout_content_ahead = input_str[old_pos : head.position]", "            layout_content_ahead = input_str[head.position : head.position]", "R08.layout-slice")
benign("C14.b-merge-ifs", "C14", P, "            if head.token_ahead is None:\n                if not self.in_layout:\n                    self._skipws(head, input_str)\n", "            if head.token_ahead is None and not self.in_layout:\n                self._skipws(head, input_str)\n            if head.token_ahead is None:\n                if False:\n                    pass\n")

# ---------------------------------------------------------------- C17
fault("C17.stop-any-position", "C17", P, "        if STOP in actions and (\n            not self.consume_input or (self.consume_input and position == in_len)\n        ):", "        if STOP in actions:", "R17.stop-offer")
fault("C17.stop-only-end", "C17", P, "            not self.consume_input or (self.consume_input and position == in_len)", "            position == in_len", "R17.stop-offer")
fault("C17.stop-and", "C17", P, "            not self.consume_input or (self.consume_input and position == in_len)", "            not self.consume_input and position == in_len", "R17.stop-offer")
fault("C17.no-lr-fallback", "C17", P, "            if not actions and not self.consume_input:\n                # If we don't have any action", "            if not actions and not self.consume_input and head.token_ahead is None:\n                # If we don't have any action", "R17.lr-fallback")
fault("C17.fallback-always", "C17", P, "            if not actions and not self.consume_input:\n                # If we don't have any action", "            if not actions:\n                # If we don't have any action", "R17.lr-fallback")
fault("C17.accept-once", "C17", G, "                if not self._in_error_reporting:\n                    self._accepted_heads.append(head)", "                if not self._in_error_reporting and head not in self._accepted_heads:\n                    self._accepted_heads.append(head)", "R17.accumulate")
fault("C17.accept-in-error-mode", "C17", G, "                if not self._in_error_reporting:\n                    self._accepted_heads.append(head)", "                if True:\n                    self._accepted_heads.append(head)", "R17.accumulate")
fault("C17.actor-break", "C17", G, "                self._for_shifter.append((head, action.state))\n            elif action.action == REDUCE:", "                self._for_shifter.append((head, action.state))\n                break\n            elif action.action == REDUCE:", "R17.accumulate")
fault("C17.clear-accepted-in-loop", "C17", G, "            self._do_shifts()\n\n            if not self._active_heads and not self._accepted_heads:", "            self._do_shifts()\n            if self._active_heads:\n                self._accepted_heads = []\n\n            if not self._active_heads and not self._accepted_heads:", "R17.accumulate")
fault("C17.stop-at-accept", "C17", G, "        while self._active_heads or self._in_error_reporting:\n            if self.debug:\n                a_print(\n                    f\"** REDUCING", "        while (self._active_heads and not self._accepted_heads) or self._in_error_reporting:\n            if self.debug:\n                a_print(\n                    f\"** REDUCING", "R17.accumulate")
fault("C17.merge-first-only", "C17", G, "        self.possibilities.extend(other.possibilities)\n        self._solutions = None", "        self.possibilities.append(other.possibilities[0])\n        self._solutions = None", "R17.forest-root")
fault("C17.root-first-head", "C17", TR, "        results = [p for r in parser._accepted_heads for p in r.parents.values()]", "        results = [p for r in parser._accepted_heads[:1] for p in r.parents.values()]", "R17.forest-root")
fault("C17.rehome", "C17", TR, "            result = results.pop()\n            self.result.merge(result)", "            result = results.pop()\n            for node in result.possibilities:\n                node.context = self.result\n            self.result.merge(result)", "R17.forest-root")
benign("C17.b-fold-redundant", "C17", P, "            not self.consume_input or (self.consume_input and position == in_len)", "            not self.consume_input or position == in_len")

# ---------------------------------------------------------------- C10
C = "parglare/common.py"
E = "parglare/exceptions.py"
fault("C10.valueerror-in-next-token", "C10", P, "        if not tokens:\n            return None\n        elif len(tokens) == 1:", "        if tokens is None:\n            raise ValueError('no tokens')\n        if not tokens:\n            return None\n        elif len(tokens) == 1:", "R10.discipline")
fault("C10.raise-in-actor", "C10", G, "        debug = self.debug\n        for action in head.state.actions.get(head.token_ahead.symbol, []):", "        debug = self.debug\n        if head.token_ahead is None:\n            raise RuntimeError('no lookahead')\n        for action in head.state.actions.get(head.token_ahead.symbol, []):", "R10.discipline")
fault("C10.append-raw", "C10", P, "                self.errors.append(\n                    self._create_error(\n                        input_str,\n                        head,\n                        symbols_expected,\n                        tokens_ahead,\n                        symbols_before=[cur_state.symbol],\n                    )\n                )",
      "                self.errors.append(Exception('syntax error'))", "R10.errors-are-syntax-errors")
fault("C10.location-head-span", "C10", P, "            Location(context=ErrorContext(context)),\n            input,", "            Location(context=context),\n            input,", "R10.errors-are-syntax-errors")
fault("C10.glr-setdefault", "C10", G, "                self._active_heads_per_symbol.setdefault(possible_lookahead, {})[\n                    h.state.state_id\n                ] = h", "                self._active_heads_per_symbol.setdefault(\n                    possible_lookahead, {h.state.state_id: h}\n                )", "R10.expected")
fault("C10.tokens-ahead-le", "C10", P, "        if context.position < len(context.input_str):\n            for terminal in self.grammar.terminals.values():", "        if context.position <= len(context.input_str):\n            for terminal in self.grammar.terminals.values():", "R10.expected")
fault("C10.lines-unguarded", "C10", E, "    lines = text.splitlines(keepends=True) or [\"\"]", "    lines = text.splitlines(keepends=True)", "R10.render")
fault("C10.is-eof-bool", "C10", C, "        return self.input_str is not None and self.start_position == len(self.input_str)", "        return bool(self.input_str) and self.start_position == len(self.input_str)", "R10.eof")
fault("C10.is-eof-gt", "C10", C, "self.start_position == len(self.input_str)", "self.start_position > len(self.input_str)", "R10.eof")
fault("C10.eof-inverted", "C10", E, "        if not location.is_eof():\n            message = f\"unexpected {token_str} \"", "        if location.is_eof():\n            message = f\"unexpected {token_str} \"", "R10.eof")
fault("C10.solutions-outside-debug", "C10", G, "            forest = Forest(self)\n            if self.debug:\n                a_print(f\"*** {forest.solutions} successful parse(s).\")", "            forest = Forest(self)\n            n_solutions = forest.solutions\n            if self.debug:\n                a_print(f\"*** {n_solutions} successful parse(s).\")", "R10.discipline")
fault("C10.expected-all", "C10", G, "        self._expected = set(h.token_ahead.symbol for h, _ in self._for_shifter)", "        self._expected = set(h.token_ahead.symbol for h in self._last_shifted_heads if h.token_ahead)", "R10.expected")
benign("C10.b-reorder", "C10", E, "        self.last_heads = last_heads\n        self.grammar = grammar\n", "        self.grammar = grammar\n        self.last_heads = last_heads\n")

# ---------------------------------------------------------------- C05
CL = "parglare/closure.py"
fault("C05.first-unstripped", "C05", T, "                    first_sets[nonterm].update(rhs_symbol_first)\n", "                    first_sets[nonterm].update(first_sets[rhs_symbol])\n", "R05.first")
fault("C05.first-self-break", "C05", T, "                if EMPTY not in first_sets[rhs_symbol]:\n                    break", "                if EMPTY not in first_sets[rhs_symbol] or rhs_symbol is nonterm:\n                    break", "R05.first")
fault("C05.first-no-break", "C05", T, "                if EMPTY not in first_sets[rhs_symbol]:\n                    break\n            else:", "                if EMPTY not in first_sets[rhs_symbol]:\n                    pass\n            else:", "R05.first")
fault("C05.first-no-rearm", "C05", T, "                    first_sets[nonterm].update(rhs_symbol_first)\n                    additions = True\n", "                    first_sets[nonterm].update(rhs_symbol_first)\n", "R05.rearm")
fault("C05.first-empty-no-rearm", "C05", T, "                    first_sets[nonterm].add(EMPTY)\n                    additions = True\n", "                    first_sets[nonterm].add(EMPTY)\n", "R05.rearm")
fault("C05.follow-update-first", "C05", T, "                        if prod_follow.difference(follow_sets[symbol]):\n                            additions = True\n                            follow_sets[symbol].update(prod_follow)",
      "                        follow_sets[symbol].update(prod_follow)\n                        if prod_follow.difference(follow_sets[symbol]):\n                            additions = True", "R05.rearm")
fault("C05.follow-first-occurrence", "C05", T, "                            additions = True\n                            follow_sets[symbol].update(prod_follow)\n    return follow_sets", "                            additions = True\n                            follow_sets[symbol].update(prod_follow)\n                        break\n    return follow_sets", "R05.nullable-scan")
fault("C05.follow-no-inherit", "C05", T, "                        else:\n                            prod_follow.update(follow_sets[p.symbol])\n", "", "R05.nullable-scan")
fault("C05.item-follow-no-break", "C05", CL, "        if EMPTY not in new_follow:\n            # If EMPTY can't be derived at current position then we have found\n            # the whole follow set.\n            break\n        else:", "        if EMPTY not in new_follow:\n            pass\n        else:", "R05.nullable-scan")
fault("C05.closure-no-requeue", "C05", CL, "                    existing_item.follow.update(follow)\n                    # If there was an update in the follow set of the existing\n                    # item we have to process it again as we have to update\n                    # follows of all items that were created from it.\n                    items_to_process.append(existing_item)",
      "                    existing_item.follow.update(follow)", "R05.rearm")
fault("C05.closure-new-no-queue", "C05", CL, "                state.items.append(new_item)\n                items_to_process.append(new_item)", "                state.items.append(new_item)", "R05.rearm")
fault("C05.propagation-partial-rearm", "C05", T, "                        if this_item.follow.difference(next_item.follow):\n                            update = True\n                            next_item.follow.update(this_item.follow)",
      "                        if this_item.follow.difference(next_item.follow):\n                            next_item.follow.update(this_item.follow)\n                            if isinstance(next_item.symbol_at_position, NonTerminal):\n                                update = True", "R05.rearm")
fault("C05.propagation-gotos-only", "C05", T, "                for target_state in chain(\n                    state.gotos.values(),\n                    [\n                        a.state\n                        for i in state.actions.values()\n                        for a in i\n                        if a.action is SHIFT\n                    ],\n                ):",
      "                for target_state in state.gotos.values():", "R05.rearm")
fault("C05.discard-in-closure", "C05", CL, "                if not follow.issubset(existing_item.follow):\n                    existing_item.follow.update(follow)", "                if not follow.issubset(existing_item.follow):\n                    existing_item.follow.discard(EMPTY)\n                    existing_item.follow.update(follow)", "R05.monotone")
fault("C05.alias-follow", "C05", T, "return LRItem(self.production, self.position + 1, set(self.follow))", "return LRItem(self.production, self.position + 1, self.follow)", "R05.monotone")
fault("C05.search-first-only", "C05", T, "                    target_state = existing_state\n                    break\n", "                    target_state = existing_state\n                break\n", "R05.states")
fault("C05.no-state-id", "C05", T, "                target_state = maybe_new_state\n                state_queue.append(target_state)\n                state_id += 1", "                target_state = maybe_new_state\n                state_queue.append(target_state)", "R05.states")
fault("C05.merge-all-items", "C05", T, "        for s in (s for s in old_state.kernel_items if s.is_at_end and s is not old):", "        for s in (s for s in old_state.items if s.is_at_end and s is not old):", "R05.states")
fault("C05.search-queue-only", "C05", T, "            for existing_state in chain(states, state_queue):", "            for existing_state in state_queue:", "R05.states")
fault("C05.reduce-skip-default-prior", "C05", T, "                for terminal in follow_set:\n                    if terminal not in actions:", "                for terminal in follow_set:\n                    if terminal.prior < DEFAULT_PRIORITY:\n                        continue\n                    if terminal not in actions:", None)
fault("C05.slr-item-follow", "C05", T, "                    follow_set = follow_sets[item.production.symbol]", "                    follow_set = follow_sets[item.production.rhs[0]] if item.production.rhs else set()", "R05.reduce-fill")
benign("C05.b-while-true", "C05", T, "    additions = True\n    while additions:\n        additions = False\n\n        for p in grammar.productions:\n            nonterm = p.symbol", "    additions = True\n    while additions:\n        additions = False\n        for p in grammar.productions:\n            nonterm = p.symbol")

# ---------------------------------------------------------------- C04
fault("C04.skip-check-with-table", "C04", P, "        self._check_parser()\n        if not self.in_layout:\n            self.error_hints", "        if table is None:\n            self._check_parser()\n        if not self.in_layout:\n            self.error_hints", "R04.gate")
fault("C04.gate-or", "C04", P, "                for src in self.table.sr_conflicts:\n                    if not src.dynamic:\n                        unhandled_conflicts.append(src)", "                for src in self.table.sr_conflicts:\n                    if not src.dynamic:\n                        unhandled_conflicts.append(src)\n                unhandled_conflicts = unhandled_conflicts[1:]", None)
fault("C04.rr-not-fatal", "C04", P, "            if unhandled_conflicts:\n                raise RRConflicts(unhandled_conflicts)", "            if unhandled_conflicts and not self.dynamic_filter:\n                raise RRConflicts(unhandled_conflicts)", "R04.gate")
fault("C04.conflict-gt2", "C04", T, "                if len(actions) > 1:\n                    if actions[0].action in [SHIFT, ACCEPT]:", "                if len(actions) > 2:\n                    if actions[0].action in [SHIFT, ACCEPT]:", "R04.conflict-table")
fault("C04.rr-prods-gt2", "C04", T, "                        if len(prods) > 1:\n                            self.rr_conflicts.append(RRConflict(state, term, prods))", "                        if len(prods) > 2:\n                            self.rr_conflicts.append(RRConflict(state, term, prods))", "R04.conflict-table")
fault("C04.sr-only-shift", "C04", T, "                    if actions[0].action in [SHIFT, ACCEPT]:", "                    if actions[0].action in [SHIFT]:", "R04.conflict-table")
fault("C04.insert-front", "C04", T, "                            if not t_reduces:\n                                actions[terminal].append(new_reduce)", "                            if not t_reduces:\n                                actions[terminal].insert(0, new_reduce)", "R04.cell-order")
fault("C04.driver-last", "C04", P, "            act = actions[0]\n\n            if act.action is SHIFT:", "            act = actions[-1]\n\n            if act.action is SHIFT:", "R04.driver-select")
fault("C04.driver-always-second", "C04", P, "                if len(act.prod.rhs) == 0 and len(actions) > 1:\n                    act = actions[1]", "                if len(actions) > 1:\n                    act = actions[1]", "R04.driver-select")
fault("C04.accept-no-break", "C04", P, "            elif act.action is ACCEPT:\n                accepted_head = head\n                break", "            elif act.action is ACCEPT:\n                accepted_head = head\n                if head.position == len(input_str):\n                    break", "R04.driver-select")
fault("C04.goto-before-pop", "C04", P, "                    del parse_stack[-r_length:]\n                    next_state = parse_stack[-1].state.gotos[production.symbol]", "                    next_state = parse_stack[-1].state.gotos[production.symbol]\n                    del parse_stack[-r_length:]", "R08.roles-lr")
fault("C04.index-empty-cell", "C04", P, "            if not actions:\n                symbols_expected = list(cur_state.actions.keys())", "            if actions is None:\n                symbols_expected = list(cur_state.actions.keys())", None)
benign("C04.b-comprehension", "C04", P, "                unhandled_conflicts = []\n                for src in self.table.sr_conflicts:\n                    if not src.dynamic:\n                        unhandled_conflicts.append(src)\n            else:\n                unhandled_conflicts = self.table.sr_conflicts",
       "                unhandled_conflicts = []\n                for src in self.table.sr_conflicts:\n                    if not src.dynamic:\n                        unhandled_conflicts.append(src)\n            else:\n                unhandled_conflicts = self.table.sr_conflicts\n            pass")

# ---------------------------------------------------------------- C02
fault("C02.return-before-link", "C02", G, "        active_head = self._active_heads.get(state.state_id, None)\n        if active_head:\n            created = active_head.create_link(parent)", "        active_head = self._active_heads.get(state.state_id, None)\n        if active_head and active_head.parents and len(node_nonterm.children) == 0:\n            return\n        if active_head:\n            created = active_head.create_link(parent)", "R02.link-no-drop")
fault("C02.no-revisit", "C02", G, "                        ]:\n                            self._do_reductions(r_head, action.prod, parent)", "                        ]:\n                            pass", "R02.revisit")
fault("C02.revisit-unlimited", "C02", G, "                            self._do_reductions(r_head, action.prod, parent)", "                            self._do_reductions(r_head, action.prod)", "R02.revisit")
fault("C02.revisit-no-for-actor-diff", "C02", G, "                ) - set(h.state.state_id for h in self._for_actor)\n", "                )\n", "R02.revisit")
fault("C02.record-only-full", "C02", G, "                if node.frontier == head.frontier:\n                    # Cache traversed", "                if update_parent is None and node.frontier == head.frontier:\n                    # Cache traversed", "R02.revisit")
fault("C02.first-parent-only", "C02", G, "                    else list(node.parents.values())\n                ):", "                    else list(node.parents.values())[:1]\n                ):", "R02.all-parents")
fault("C02.no-pushback", "C02", G, "            if end_position is not None and head.token_ahead.end_position > end_position:\n                self._for_shifter.append((head, to_state))\n                break", "            if end_position is not None and head.token_ahead.end_position > end_position:\n                break", "R02.link-no-drop")
fault("C02.traversed-and", "C02", G, "                    traversed = traversed or (\n                        update_parent and update_parent.head == node\n                    )", "                    traversed = traversed and (\n                        update_parent and update_parent.head == node\n                    )", "R02.all-parents")
fault("C02.reduce-untraversed", "C02", G, "                    elif traversed:\n                        self._reduce(", "                    else:\n                        self._reduce(", "R02.all-parents")
fault("C02.new-head-not-queued", "C02", G, "            self._for_actor.append(new_head)\n            self._active_heads[new_head.state.state_id] = new_head", "            self._active_heads[new_head.state.state_id] = new_head", "R02.link-no-drop")
fault("C02.merge-replace", "C02", G, "        self.possibilities.extend(other.possibilities)\n        self._solutions = None", "        self.possibilities = list(other.possibilities)\n        self._solutions = None", "R17.forest-root")
fault("C02.length-twice", "C02", G, "                length = length - 1\n", "                length = length - 1\n                if length > 1:\n                    length = length - 1\n", None)
benign("C02.b-invert-if", "C02", G, "                    path_last_parent = parent if last_parent is None else last_parent\n", "                    if last_parent is None:\n                        path_last_parent = parent\n                    else:\n                        path_last_parent = last_parent\n")

# ---------------------------------------------------------------- C01
fault("C01.sort-len", "C01", G, "self._for_shifter.sort(key=lambda x: x[0].token_ahead.end_position, reverse=True)", "self._for_shifter.sort(key=lambda x: len(x[0].token_ahead), reverse=True)", "R01.shift-order")
fault("C01.sort-ascending", "C01", G, "self._for_shifter.sort(key=lambda x: x[0].token_ahead.end_position, reverse=True)", "self._for_shifter.sort(key=lambda x: x[0].token_ahead.end_position)", "R01.shift-order")
fault("C01.cut-ge", "C01", G, "if end_position is not None and head.token_ahead.end_position > end_position:", "if end_position is not None and head.token_ahead.end_position >= end_position:", "R01.shift-order")
fault("C01.accept-in-error-mode", "C01", G, "                if not self._in_error_reporting:\n                    self._accepted_heads.append(head)", "                if True:\n                    self._accepted_heads.append(head)", "R17.accumulate")
fault("C01.actor-break", "C01", G, "                self._do_reductions(head, action.prod)\n            else:", "                self._do_reductions(head, action.prod)\n                break\n            else:", "R17.accumulate")
fault("C01.errors-raw", "C01", G, "        self.errors.append(\n            self._create_error(\n                input_str,\n                context,", "        self.errors.append(\n            Exception(\n                input_str,\n                context,", "R10.errors-are-syntax-errors")
fault("C01.drop-token", "C01", G, "                while tokens:\n                    token = tokens.pop()\n                    head = head.for_token(token)", "                while tokens:\n                    token = tokens.pop()\n                    if len(tokens) > 2:\n                        continue\n                    head = head.for_token(token)", None)
fault("C01.goto-head-state", "C01", G, "        state = root_head.state.gotos[production.symbol]", "        state = head.state.gotos[production.symbol]", "R08.roles-glr")
fault("C01.children-append", "C01", G, "                    new_results = [parent] + results", "                    new_results = results + [parent]", "R08.roles-glr")
fault("C01.one-subfrontier", "C01", G, "            while self._active_heads_per_symbol:\n                _, self._active_heads = self._active_heads_per_symbol.popitem()", "            if self._active_heads_per_symbol:\n                _, self._active_heads = self._active_heads_per_symbol.popitem()", "R01.main-loop")
fault("C01.record-only-full", "C01", G, "                if node.frontier == head.frontier:\n                    # Cache traversed", "                if update_parent is None and node.frontier == head.frontier:\n                    # Cache traversed", "R02.revisit")
fault("C01.follow-first-occurrence", "C01", T, "                            additions = True\n                            follow_sets[symbol].update(prod_follow)\n    return follow_sets", "                            additions = True\n                            follow_sets[symbol].update(prod_follow)\n                        break\n    return follow_sets", "R05.nullable-scan")

# ---------------------------------------------------------------- whole-tree benign transformation
# tools/benign_rename.py renames every function-local variable of the package (368 names) and
# regenerates the source with ast.unparse; all 20 checks must stay silent on it (run by
# `pgv.py selfcheck --rename`, part of every thorough run of C15).

# ---------------------------------------------------------------- added after the blind wave (wave 2)
fault("C06.prior-skip-default", "C06", GR, '            meta_datas["priority"] = meta_data\n',
      '            if meta_data != DEFAULT_PRIORITY:\n                meta_datas["priority"] = meta_data\n', "R06.meta-map")
benign("C06.b-prior-guard-noop", "C06", GR, '            meta_datas["priority"] = meta_data\n',
       '            if meta_data is not None:\n                meta_datas["priority"] = meta_data\n            else:\n                meta_datas["priority"] = meta_data\n')
fault("C06.group-no-rule-meta", "C06", GR, "_create_prods(context, gprods, gname, rule_meta_datas)", "_create_prods(context, gprods, gname, {})", "R13.groups")
fault("C13.empty-by-symbol", "C13", T, "is_empty = len(prod.rhs) == 0", "is_empty = EMPTY in prod.rhs", "R06.table")
benign("C13.b-empty-not", "C13", T, "is_empty = len(prod.rhs) == 0", "is_empty = not len(prod.rhs)")
fault("C03.len-self", "C03", TR, "        if not 0 <= idx < self.solutions:", "        if not 0 <= idx < len(self):", "R03.bounds")
fault("C03.traversed-hoisted", "C03", G,
      "            while self._active_heads_per_symbol:\n                _, self._active_heads = self._active_heads_per_symbol.popitem()\n                self._for_actor = list(self._active_heads.values())\n                # Used to optimize revisiting only heads that will\n                # traverse newly added paths.\n                # state_id -> set(state_id)\n                self._states_traversed = {}\n",
      "            self._states_traversed = {}\n            while self._active_heads_per_symbol:\n                _, self._active_heads = self._active_heads_per_symbol.popitem()\n                self._for_actor = list(self._active_heads.values())\n",
      "R02.revisit")
fault("C05.follow-before-swap", "C05", T,
      "    _old_start_production_rhs = grammar.productions[0].rhs\n    start_prod_symbol = grammar.productions[start_production].symbol\n    grammar.productions[0].rhs = ProductionRHS([start_prod_symbol, STOP])\n\n    follow_sets = follow(grammar, first_sets)\n",
      "    follow_sets = follow(grammar, first_sets)\n\n    _old_start_production_rhs = grammar.productions[0].rhs\n    start_prod_symbol = grammar.productions[start_production].symbol\n    grammar.productions[0].rhs = ProductionRHS([start_prod_symbol, STOP])\n",
      "R15.swap-restore")
# since D21 every build re-points the augmented production first: behaviour preserving
benign("C05.b-swap-in-place", "C05", T, "    grammar.productions[0].rhs = ProductionRHS([start_prod_symbol, STOP])\n", "    grammar.productions[0].rhs[0] = start_prod_symbol\n")
# since D21 every build re-points the augmented production first: behaviour preserving
benign("C14.b-no-restore", "C14", T, "    grammar.productions[0].rhs = _old_start_production_rhs\n", "")
fault("C14.reduce-layout-ahead-of-first", "C14", P,
      "                        layout_content=start_reduction_head.layout_content,\n                        layout_content_ahead=head.layout_content_ahead,",
      "                        layout_content=start_reduction_head.layout_content,\n                        layout_content_ahead=start_reduction_head.layout_content_ahead,", "R08.roles-lr")
fault("C15.pop-override", "C15", GR, "action = action_overrides.get(symbol.fqn, None)", "action = action_overrides.pop(symbol.fqn, None)", "R15.args-pure")
benign("C15.b-get-default", "C15", GR, "action = action_overrides.get(symbol.fqn, None)", "action = action_overrides.get(symbol.fqn)")
fault("C15.mem-table-cache", "C15", T, "    if table is None:\n        table = create_table(",
      "    mem = vars(grammar).setdefault(\"_tables\", {})\n    if table is None and not table_file_name:\n        table = mem.get((itemset_type, start_production))\n    if table is None:\n        mem[(itemset_type, start_production)] = table = create_table(", "R15.shared-writes")
fault("C15.marker-del-in-helper", "C15", P, "            self.clear_transient = True\n\n            return compiled_examples\n",
      "            self.clear_transient = True\n            del self._in_error_hints\n\n            return compiled_examples\n", "R15.markers",
      edits=[("            self.clear_transient = True\n\n            return compiled_examples\n", "            self.clear_transient = True\n            del self._in_error_hints\n\n            return compiled_examples\n"),
             ("        del self._in_error_hints\n        return compiled_hints", "        return compiled_hints")])
fault("C16.conflicts-before-sort", "C16", T, "        self.states = states\n        if calc_finish_flags:\n", "        self.states = states\n        self.calc_conflicts_and_dynamic_terminals(debug)\n        if calc_finish_flags:\n", "R16.sanitiser",
      edits=[("        self.states = states\n        if calc_finish_flags:\n", "        self.states = states\n        self.calc_conflicts_and_dynamic_terminals(debug)\n        if calc_finish_flags:\n"),
             ("                )\n        self.calc_conflicts_and_dynamic_terminals(debug)\n", "                )\n")])
fault("C17.custom-replaces-list", "C17", P, "                    tokens.extend(custom_tokens)\n", "                    tokens = list(custom_tokens)\n", "R17.stop-offer")
fault("C17.scan-into-callers-list", "C17", P, "                tokens.extend(self._token_recognition(head))\n", "                self._token_recognition(head, tokens)\n", "R17.stop-offer",
      edits=[("                tokens.extend(self._token_recognition(head))\n", "                self._token_recognition(head, tokens)\n"),
             ("    def _token_recognition(self, head):\n", "    def _token_recognition(self, head, tokens=None):\n"),
             ("        tokens = []\n        last_prior = -1\n", "        if tokens is None:\n            tokens = []\n        last_prior = -1\n")])
fault("C08.sibling-last-parent", "C08", G, "                    path_last_parent = parent if last_parent is None else last_parent\n",
      "                    if last_parent is None:\n                        last_parent = parent\n                    path_last_parent = last_parent\n", "R08.roles-glr")
fault("C08.end-of-current-link", "C08", G, "                            path_last_parent.end_position,\n", "                            parent.end_position,\n", "R08.roles-glr")
benign("C08.b-first-link-flipped", "C08", G, "                    path_last_parent = parent if last_parent is None else last_parent\n",
       "                    path_last_parent = last_parent if last_parent is not None else parent\n")
fault("C18.debug-overwrites-filter-args", "C18", P,
      "                production_str = f\", prod={context.production}\"\n                subresults_str = f\", subresults={subresults}\"\n",
      "                production_str = production = f\", prod={context.production}\"\n                subresults_str = subresults = f\", subresults={subresults}\"\n", "R00.debug-pure")
fault("C08.debug-escapes-layout", "C08", P,
      "            content = layout_content_ahead\n            if isinstance(layout_content_ahead, str):\n                content = content.replace(\"\\n\", \"\\\\n\")\n",
      "            content = layout_content_ahead\n            if isinstance(layout_content_ahead, str):\n                content = layout_content_ahead = content.replace(\"\\n\", \"\\\\n\")\n", "R00.debug-pure")
benign("C08.b-debug-extra-local", "C08", P,
       "            content = layout_content_ahead\n            if isinstance(layout_content_ahead, str):\n",
       "            content = layout_content_ahead\n            shown = len(content or \"\")\n            if isinstance(layout_content_ahead, str) and shown >= 0:\n")
fault("C02.gss-id-no-separator", "C02", G, '        self.id = f"{frontier}_{state.state_id}"', '        self.id = f"{frontier}{state.state_id}"', "R02.link-key")
fault("C02.gss-id-digit-separator", "C02", G, '        self.id = f"{frontier}_{state.state_id}"', '        self.id = f"{frontier}0{state.state_id}"', "R02.link-key")
benign("C02.b-gss-id-colon", "C02", G, '        self.id = f"{frontier}_{state.state_id}"', '        self.id = f"{frontier}:{state.state_id}"')
fault("C02.revisit-set-narrowed", "C02", G, "                if to_revisit:\n                    if self.debug:\n",
      "                if root_head is head and active_head is not head:\n                    to_revisit.discard(head.state.state_id)\n                if to_revisit:\n                    if self.debug:\n", "R02.revisit")
benign("C08.b-first-link-ifelse", "C08", G, "                    path_last_parent = parent if last_parent is None else last_parent\n", "                    if last_parent is None:\n                        path_last_parent = parent\n                    else:\n                        path_last_parent = last_parent\n")
fault("C10.context-interval-le", "C10", "parglare/exceptions.py", "        if current_pos <= pos < current_pos + len(line):", "        if current_pos <= pos <= current_pos + len(line):", "R10.context-line")
benign("C10.b-context-interval-and", "C10", "parglare/exceptions.py", "        if current_pos <= pos < current_pos + len(line):", "        if pos >= current_pos and not pos >= current_pos + len(line):")
fault("C10.no-revisit-in-error-mode", "C10", G, "            if created and state.state_id in self._states_traversed:", "            if created and not self._in_error_reporting and state.state_id in self._states_traversed:", "R02.revisit")
benign("C10.b-revisit-guard-nested", "C10", G, "            if created and state.state_id in self._states_traversed:\n                to_revisit = self._states_traversed[state.state_id].intersection(\n                    self._active_heads.keys()\n                ) - set(h.state.state_id for h in self._for_actor)\n",
       "            if state.state_id in self._states_traversed and created:\n                to_revisit = self._states_traversed[state.state_id].intersection(\n                    self._active_heads.keys()\n                ) - set(h.state.state_id for h in self._for_actor)\n")
fault("C11.recovery-scan-current-first", "C11", P,
      "        while head.position < len(head.input_str):\n            head.position += 1\n            tokens = self._next_tokens(head)\n            if tokens:\n                # More than one token means lexical ambiguity. Leave it to the\n                # parser to fetch the lookahead(s) at the new position.\n                head.token_ahead = tokens[0] if len(tokens) == 1 else None\n                return True\n        return False\n",
      "        while True:\n            tokens = self._next_tokens(head)\n            if tokens:\n                head.token_ahead = tokens[0] if len(tokens) == 1 else None\n                return True\n            if head.position >= len(head.input_str):\n                return False\n            head.position += 1\n", "R11.progress")
benign("C11.b-recovery-while-true", "C11", P,
       "        while head.position < len(head.input_str):\n            head.position += 1\n            tokens = self._next_tokens(head)\n            if tokens:\n                # More than one token means lexical ambiguity. Leave it to the\n                # parser to fetch the lookahead(s) at the new position.\n                head.token_ahead = tokens[0] if len(tokens) == 1 else None\n                return True\n        return False\n",
       "        while True:\n            if head.position >= len(head.input_str):\n                return False\n            head.position += 1\n            tokens = self._next_tokens(head)\n            if tokens:\n                head.token_ahead = tokens[0] if len(tokens) == 1 else None\n                return True\n")
fault("C11.snapshot-after-shifts", "C11", G, "            if not self._in_error_reporting:\n                self._last_shifted_heads = list(self._active_heads.values())\n                self._find_lookaheads()\n",
      "            if not self._in_error_reporting:\n                self._find_lookaheads()\n", "R10.errors-are-syntax-errors")
fault("C08.shift-link-cloned", "C08", G,
      "                parent = Parent(\n                    shifted_head,\n                    head,\n                    head.position,\n                    end_position,\n                    token=head.token_ahead,\n                )\n                if self.dynamic_filter and not self._call_dynamic_filter(\n                    parent, head.state, to_state, SHIFT\n                ):\n                    continue\n            else:",
      "                parent = next(iter(shifted_head.parents.values())).clone_with_root(head)\n                if self.dynamic_filter and not self._call_dynamic_filter(\n                    parent, head.state, to_state, SHIFT\n                ):\n                    continue\n            else:", "R08.roles-glr")
benign("C03.b-skip-empty-on-update", "C03", G, "        if prod_len == 0:\n            # Special case, empty reduction\n            self._reduce(",
       "        if prod_len == 0 and update_parent is not None:\n            pass\n        elif prod_len == 0:\n            # Special case, empty reduction\n            self._reduce(")
fault("C09.action-kept-when-no-grammar-action", "C09", GR, "            else:\n                symbol.action = symbol.grammar_action\n", "            elif symbol.grammar_action is not None:\n                symbol.action = symbol.grammar_action\n", "R15.actions-reset")
fault("C15.action-kept-when-no-grammar-action", "C15", GR, "            else:\n                symbol.action = symbol.grammar_action\n", "            elif symbol.grammar_action is not None:\n                symbol.action = symbol.grammar_action\n", "R15.actions-reset")
benign("C15.b-action-reset-first", "C15", GR, "            else:\n                symbol.action = symbol.grammar_action\n", "            else:\n                symbol.action = None\n                symbol.action = symbol.grammar_action\n")
fault("C09.visitor-memo-front", "C09", TR, "            results.append(cache[id(next_elem)][0])", "            results.insert(0, cache[id(next_elem)][0])", "R03.visitor-order")
fault("C08.frontier-from-head", "C08", G, "                    end_position,\n                    frontier,\n", "                    end_position,\n                    head.frontier + 1,\n", "R08.roles-glr")
fault("C13.greedy-marker-name-char", "C13", GR, '            "!" if greedy else "",\n', '            "_g" if greedy else "",\n', "R13.name-key",
      edits=[('            "!" if greedy else "",\n', '            "_g" if greedy else "",\n'), ('                        f"{symbol_name}!",\n', '                        f"{symbol_name}_g",\n')])
benign("C13.b-greedy-marker-other", "C13", GR, '            "!" if greedy else "",\n', '            "*!" if greedy else "",\n',
       edits=[('            "!" if greedy else "",\n', '            "*!" if greedy else "",\n'), ('                        f"{symbol_name}!",\n', '                        f"{symbol_name}*!",\n')])
benign("C09.b-override-subscript", "C09", GR, "            # 3. Symbol name\n            if action is None:\n                if action_overrides:\n                    action = action_overrides.get(symbol.name, None)\n",
       "            # 3. Symbol name\n            if action is None:\n                if action_overrides and symbol.name in action_overrides:\n                    action = action_overrides[symbol.name]\n")
benign("C12.b-loader-ifexp", "C12", "parglare/tables/persist.py",
       "                if \"state_id\" in json_action:\n                    act_state = states_dict[json_action[\"state_id\"]]\n                else:\n                    act_state = None\n",
       "                act_state = states_dict[json_action[\"state_id\"]] if \"state_id\" in json_action else None\n")
benign("C05.b-id-before-enqueue", "C05", T, "                state_queue.append(target_state)\n                state_id += 1\n", "                state_id += 1\n                state_queue.append(target_state)\n")
benign("C06.b-max-prior-ordered", "C06", T, "        state._max_prior_per_symbol = {}\n", "        state._max_prior_per_symbol = dict()\n")
benign("C10.b-position-none-test", "C10", "parglare/common.py", "    def evaluate_line_col(self):\n        self._line, self._column = pos_to_line_col(self.input_str, self.start_position)\n",
       "    def evaluate_line_col(self):\n        if self.start_position is not None:\n            self._line, self._column = pos_to_line_col(self.input_str, self.start_position)\n        else:\n            self._line, self._column = None, None\n")
