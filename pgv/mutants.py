"""Seeded faults (must fire) and benign refactors (must stay silent), DESIGN section 8.
Each edit is a text replacement that must match exactly once in the current source
(otherwise the variant is reported as skipped: 'locator no longer applies')."""

T = "parglare/tables/__init__.py"
P = "parglare/parser.py"
G = "parglare/glr.py"
GR = "parglare/grammar.py"
TR = "parglare/trees.py"

MUTANTS = []


def fault(id, prop, file, old, new, expect, **kw):
    MUTANTS.append(dict(id=id, prop=prop, file=file, old=old, new=new, expect=expect, kind="fault", **kw))


def benign(id, prop, file, old, new, **kw):
    MUTANTS.append(dict(id=id, prop=prop, file=file, old=old, new=new, kind="benign", **kw))


# ---------------------------------------------------------------- C06
benign("C06.b-gt-ge-after-eq", "C06", T, "elif prod.prior > sh_prior:", "elif prod.prior >= sh_prior:")
fault("C06.gt-lt", "C06", T, "elif prod.prior > sh_prior:", "elif prod.prior < sh_prior:", "R06.table")
fault("C06.right-guard", "C06", T, "elif prod.prior > sh_prior:", "elif prod.prior > sh_prior and prod.assoc != ASSOC_RIGHT:", "R06.table")
fault("C06.extra-guard", "C06", T, "elif prod.prior > sh_prior:", "elif prod.prior > sh_prior and len(state.items) > 1:", "R06.table")
fault("C06.prior-falsy", "C06", GR, "        self.prior = prior\n        self.dynamic = dynamic", "        self.prior = prior if prior else DEFAULT_PRIORITY\n        self.dynamic = dynamic", "R06.prod-fields")
fault("C06.eq-ge", "C06", T, "if prod.prior == sh_prior:", "if prod.prior >= sh_prior:", "R06.table")
fault("C06.swap-left-right", "C06", T,
      "if prod.assoc == ASSOC_LEFT:", "if prod.assoc == ASSOC_RIGHT:", "R06.table",
      edits=[("if prod.assoc == ASSOC_LEFT:", "if prod.assoc == ASSOC__TMP:"),
             ("elif prod.assoc == ASSOC_RIGHT:", "elif prod.assoc == ASSOC_LEFT:"),
             ("if prod.assoc == ASSOC__TMP:", "if prod.assoc == ASSOC_RIGHT:")])
fault("C06.drop-nopse", "C06", T, "and prefer_shifts_over_empty\n                                        and not prod.nopse",
      "and prefer_shifts_over_empty", "R06.table")
fault("C06.drop-nops", "C06", T, "not is_empty and prefer_shifts and not prod.nops",
      "not is_empty and prefer_shifts", "R06.table")
fault("C06.accept-prior", "C06", T, "sh_prior = DEFAULT_PRIORITY\n", "sh_prior = prod.prior\n", "R06.table")
fault("C06.shift-default", "C06", T,
      "sh_prior = state._max_prior_per_symbol[\n                                    t_shift.state.symbol\n                                ]",
      "sh_prior = DEFAULT_PRIORITY", "R06.table")
fault("C06.max-min", "C06", T, "= max(prod_prior, old_prior)", "= min(prod_prior, old_prior)", "R06.shift-prior")
fault("C06.no-fold", "C06", T, "= max(prod_prior, old_prior)", "= prod_prior", "R06.shift-prior")
benign("C06.b-rr-ge-after-eq", "C06", T, "elif prod.prior > t_reduces[0].prod.prior:", "elif prod.prior >= t_reduces[0].prod.prior:")
fault("C06.rr-lt", "C06", T, "elif prod.prior > t_reduces[0].prod.prior:", "elif prod.prior < t_reduces[0].prod.prior:", "R06.table")
fault("C06.rr-eq-le", "C06", T, "if prod.prior == t_reduces[0].prod.prior:", "if prod.prior <= t_reduces[0].prod.prior:", "R06.table")
fault("C06.rr-keep-old", "C06", T,
      "if x.action is not REDUCE\n", "if x.action is REDUCE\n", "R06.table")
fault("C06.remove-outside-conflict", "C06", T,
      "                            elif prod.prior > sh_prior:\n                                # This item operation priority is higher =>\n                                # override with reduce\n                                actions[terminal].remove(t_shift)\n",
      "                            elif prod.prior > sh_prior:\n                                pass\n", "R06.table")
fault("C06.meta-shift-left", "C06", GR, 'elif meta_data in ["right", "shift"]:', 'elif meta_data in ["right"]:', "R06.meta-map")
fault("C06.meta-swap", "C06", GR, 'if meta_data in ["left", "reduce"]:\n            meta_datas["assoc"] = ASSOC_LEFT',
      'if meta_data in ["left", "reduce"]:\n            meta_datas["assoc"] = ASSOC_RIGHT', "R06.meta-map")
fault("C06.inherit-prior", "C06", GR,
      '"priority", rule_meta_datas.get("priority", DEFAULT_PRIORITY)', '"priority", DEFAULT_PRIORITY', "R06.meta-map")
benign("C06.b-renest", "C06", T,
       "                            if prod.prior == sh_prior:\n",
       "                            if not (prod.prior != sh_prior):\n")
benign("C06.b-rename-should-reduce", "C06", T, "should_reduce", "do_reduce", count=5)
benign("C06.b-key-terminal", "C06", T,
       "sh_prior = state._max_prior_per_symbol[\n                                    t_shift.state.symbol\n                                ]",
       "sh_prior = state._max_prior_per_symbol[terminal]")
