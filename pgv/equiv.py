"""Equivalence modulo normalisation against the reference copy.

The rules were confirmed on the reference tree (`pgv/refsrc/`).  A maintainer's refactoring --
caching an attribute in a local, extracting a helper, a loop written as a comprehension, a
guard clause instead of a nested `if`, `math.prod` instead of `reduce` -- changes the text many
rules look at but not what the function does.  For every function whose AST differs from its
reference twin, both are brought into a normal form by a fixed sequence of *semantics preserving*
rewrites; if the normal forms are identical the function is equivalent to its twin and the rules
analyse the twin's AST instead (so every verdict is the verdict already confirmed).  If they are
not identical nothing is concluded and the rules analyse the function as written.

The rewrites (each with the side condition that makes it sound):

 N-helper   a call of a private function / method / nested function that does not exist in the
            reference is inlined when the callee is straight-line code with at most one `return`
            (its last statement); parameters become temporaries;
 N-comp     `acc = []` + `for ..: [if c:] acc.append(v)`  ->  list comprehension (same for dict
            stores and set adds); `for ..: if c: return K` / `flag = True; break` -> `any(...)`;
 N-lib      product folds (`reduce(lambda x, y: x * y, it, 1)`, `reduce(operator.mul, it, 1)`,
            `math.prod(it)`), `[a, *b]` / `[a] + b`, `set(<genexpr>)` / set comprehension,
            positional `str.format` / f-string;
 N-flow     `if c: A(jump) else: B` -> `if c: A` ; B      (else after a jump is dedented);
            a trailing `if c: A` of a loop / function body -> `if not c: continue/return` ; A;
            negations pushed inward (De Morgan; == / !=, is / is not, in / not in), the
            absorption `not c or (c and p)` -> `not c or p` in tests;
 N-temp     a local assigned once whose value is a side-effect free read (names, attributes,
            subscripts, len(), comparisons, arithmetic, dict.get ...) is replaced by its value at
            every use, provided nothing between the assignment and the use can change what the
            read yields: no rebinding of a name it mentions, no store to an attribute name it
            mentions, no store into / mutator call on a container it reads, and no call that may
            do so (transitive summaries over the package; a call of unknown code blocks every
            value that reads an attribute).

Finally locals are numbered in order of first occurrence and the dumps are compared.
"""
from __future__ import annotations

import ast
import os

from .core import clone as _clone


class copy:  # noqa: N801 -- structural clone of AST nodes (much cheaper than copy.deepcopy)
    deepcopy = staticmethod(_clone)

PURE_FUNCS = {
    "len", "isinstance", "id", "str", "repr", "int", "bool", "list", "tuple", "set", "dict", "sorted", "enumerate",
    "zip", "range", "min", "max", "any", "all", "sum", "iter", "getattr", "hasattr", "type", "frozenset", "reversed",
    "OrderedDict", "chain", "__prod", "abs", "callable", "issubclass", "takewhile",
}
PURE_METHODS = {
    "get", "keys", "values", "items", "startswith", "endswith", "join", "split", "strip", "rstrip", "lstrip", "format",
    "copy", "index", "count", "intersection", "difference", "union", "issubset", "issuperset", "lower", "upper",
    "replace", "splitlines", "find", "rfind", "encode", "isdigit", "casefold", "symmetric_difference", "isidentifier",
}
PRINT_FUNCS = {"h_print", "a_print", "prints", "print", "styled_print", "style", "s_header", "s_attention", "s_emph"}
MUTATORS = {
    "append", "extend", "insert", "remove", "pop", "clear", "update", "add", "setdefault", "sort", "reverse", "discard",
    "popitem", "appendleft", "popleft", "difference_update", "intersection_update",
}
# callee names that are neither package functions nor user callables: exception classes, file-system / regex / hashing
# helpers, output styling, click decorators -- none of them stores to an attribute of a package object
HARMLESS_EXTERNAL = {
    "AssertionError", "IndexError", "TypeError", "ValueError", "KeyError", "Path", "exists", "stat", "with_suffix", "read", "write",
    "hash", "hex", "group", "match", "reduce", "filter", "_", "_a", "err", "echo", "argument", "option", "command", "cls", "f",
}
JUMPS = (ast.Return, ast.Raise, ast.Continue, ast.Break)


_UNPARSE = {}


def unparse(n):
    """text of a (small) expression; access paths are rendered without going through ast.unparse"""
    if isinstance(n, ast.Name):
        return n.id
    if isinstance(n, ast.Attribute):
        return unparse(n.value) + "." + n.attr
    if isinstance(n, ast.Subscript) and isinstance(n.slice, (ast.Name, ast.Constant, ast.Attribute)):
        return unparse(n.value) + "[" + unparse(n.slice) + "]"
    if isinstance(n, ast.Constant):
        return repr(n.value)
    return ast.unparse(n)


# --------------------------------------------------------------------------- package summaries
class Summaries:
    """per function name: attribute names it may (transitively) store to / whose containers it may
    mutate, and whether it may call code outside the package that is not known to be pure"""

    def __init__(self, trees):
        self.direct = {}
        self.calls = {}
        self.unknown = {}
        defs = {}
        for t in trees:
            for n in ast.walk(t):
                if isinstance(n, (ast.FunctionDef, ast.AsyncFunctionDef)):
                    defs.setdefault(n.name, []).append(n)
        self.defs = defs
        classes = {n.name for t in trees for n in ast.walk(t) if isinstance(n, ast.ClassDef)}
        self.classes = classes
        # constructors by class (a class without __init__ inherits: fall back to all constructors)
        self.ctor = {}
        bases = {}
        for t in trees:
            for c in ast.walk(t):
                if isinstance(c, ast.ClassDef):
                    bases[c.name] = [b.id for b in c.bases if isinstance(b, ast.Name)] if all(isinstance(b, ast.Name) for b in c.bases) else None
                    for m in c.body:
                        if isinstance(m, ast.FunctionDef) and m.name == "__init__":
                            self.ctor[c.name] = m
        # a class without its own __init__ uses the one of its (single, package) base class
        self.bases = bases
        self.ctor_owner = {c: c for c in self.ctor}
        for _ in range(4):
            for cname, bs in bases.items():
                if cname not in self.ctor and bs is not None and len(bs) == 1 and bs[0] in self.ctor:
                    self.ctor[cname] = self.ctor[bs[0]]
                    self.ctor_owner[cname] = self.ctor_owner[bs[0]]
        for name, fns in defs.items():
            w, c, unk = set(), set(), False
            for fn in fns:
                ww, cc, uu = self._scan(fn)
                w |= ww
                c |= cc
                unk = unk or uu
            self.direct[name], self.calls[name], self.unknown[name] = w, c, unk
        self.param_mut = {name: any(self._mutates_params(fn) for fn in fns) for name, fns in defs.items()}
        # configuration attributes: stored by constructors only -- code outside the package (user actions,
        # recognisers, filters) is taken not to re-configure a parser / grammar behind its back
        in_init, elsewhere = set(), set()
        for name, fns in defs.items():
            for fn in fns:
                for n in ast.walk(fn):
                    if isinstance(n, ast.Attribute) and isinstance(n.ctx, (ast.Store, ast.Del)):
                        (in_init if name == "__init__" else elsewhere).add(n.attr)
        self.config_attrs = in_init - elsewhere
        # fixpoint
        changed = True
        self._finish = None
        while changed:
            changed = False
            for name in defs:
                for c in list(self.calls[name]):
                    if c in ("next_token", "next_tokens"):
                        c = "_" + c  # bound-method aliases used by the drivers (next_token = self._next_token)
                    if c == "keyword_rec":
                        c = "__call__"  # a RegExRecognizer of the package
                    if c not in defs and c not in classes and c not in HARMLESS_EXTERNAL and not self.unknown[name]:
                        # a callee that is not a function of the package: a user callable (recogniser, action, filter,
                        # recovery strategy) or a library call that is not known to be harmless
                        self.unknown[name] = True
                        changed = True
                    if c in defs:
                        before = (len(self.direct[name]), self.unknown[name], self.param_mut[name])
                        self.direct[name] |= self.direct[c]
                        self.unknown[name] = self.unknown[name] or self.unknown[c]
                        self.param_mut[name] = self.param_mut[name] or self.param_mut[c]  # (it may pass its own parameters on)
                        if (len(self.direct[name]), self.unknown[name], self.param_mut[name]) != before:
                            changed = True

    def computing_properties(self):
        """names of properties that compute (call something / may raise): reading them is a call"""
        out = set()
        for name, fns in self.defs.items():
            for fn in fns:
                if any(unparse(d) in ("property", "cached_property") for d in fn.decorator_list):
                    if any(isinstance(n, (ast.Call, ast.Raise)) for n in ast.walk(fn)):
                        out.add(name)
        return out

    def raising_names(self):
        """package functions that may raise on their own account (an explicit raise, transitively by name)"""
        direct = {n for n, fns in self.defs.items() if any(isinstance(x, ast.Raise) for fn in fns for x in ast.walk(fn))}
        changed = True
        while changed:
            changed = False
            for n in self.defs:
                if n not in direct and any(c in direct for c in self.calls[n]):
                    direct.add(n)
                    changed = True
        return direct

    def pure_names(self):
        """names of package functions none of whose definitions stores to an attribute / container of an existing
        object or may run unknown code (transitively)"""
        raising = self.raising_names()
        return {n for n in self.defs if not self.direct[n] and not self.unknown[n] and n != "__init__" and n not in raising}

    def _mutates_params(self, fn):
        """does fn store into / call a mutator on a container it was handed as a parameter (or one reached from it by
        subscripts)?  Such a write has no attribute name; the caller accounts for it on the arguments it passes"""
        params = {a.arg for a in fn.args.args + fn.args.kwonlyargs if a.arg not in ("self", "cls")}
        if fn.args.vararg:
            params.add(fn.args.vararg.arg)
        for n in ast.walk(fn):
            b = None
            if isinstance(n, ast.Subscript) and isinstance(n.ctx, (ast.Store, ast.Del)):
                b = n.value
            elif isinstance(n, ast.Call) and isinstance(n.func, ast.Attribute) and n.func.attr in MUTATORS:
                b = n.func.value
            elif isinstance(n, ast.AugAssign) and isinstance(n.target, ast.Name):
                b = n.target  # `p += [..]` extends a list in place
            while isinstance(b, ast.Subscript):
                b = b.value
            if isinstance(b, ast.Name) and b.id in params:
                return True
        return False

    def call_mutates_args(self, cname):
        if cname in self.classes:
            m = self.ctor.get(cname)
            if m is not None:
                return self._mutates_params(m) or any(
                    self.param_mut.get(c) if c in self.defs else (c in self.classes and self.param_mut.get("__init__")) for c in self._scan(m)[1])
            return bool(self.param_mut.get("__init__"))
        return bool(self.param_mut.get(cname))

    def call_may_raise(self, call):
        """may the call raise on its own account: an explicit `raise` in the callee (transitively, by name), or code the
        package does not define?"""
        if not hasattr(self, "_raising"):
            self._raising = self.raising_names()
        f = call.func
        name = f.attr if isinstance(f, ast.Attribute) else f.id if isinstance(f, ast.Name) else None
        if name is None:
            return True
        if isinstance(f, ast.Name) and (name in PURE_FUNCS or name in PRINT_FUNCS):
            return False
        if isinstance(f, ast.Attribute) and (name in PURE_METHODS or name in MUTATORS or name in PRINT_FUNCS):
            return False
        if name in self.classes:
            m = self.ctor.get(name)
            if m is None:
                return "__init__" in self._raising
            if any(isinstance(x, ast.Raise) for x in ast.walk(m)):
                return True
            return any((c in self._raising) or (c not in self.defs and c not in self.classes and c not in HARMLESS_EXTERNAL) for c in self._scan(m)[1])
        if name in self.defs:
            return name in self._raising or self.unknown[name]
        return True

    def _scan(self, fn):
        w, c, unk = set(), set(), False
        ctor = fn.name == "__init__"
        for n in ast.walk(fn):
            if isinstance(n, ast.Attribute) and isinstance(n.ctx, (ast.Store, ast.Del)):
                if ctor and isinstance(n.value, ast.Name) and n.value.id == "self":
                    continue  # a constructor initialises a new object: no existing object's attribute changes
                w.add(n.attr)
            elif isinstance(n, ast.Subscript) and isinstance(n.ctx, (ast.Store, ast.Del)):
                b = n.value
                if isinstance(b, ast.Attribute):
                    if ctor and isinstance(b.value, ast.Name) and b.value.id == "self":
                        continue
                    w.add(b.attr)
            elif isinstance(n, ast.Call):
                f = n.func
                if isinstance(f, ast.Attribute):
                    if f.attr in MUTATORS:
                        b = f.value
                        while isinstance(b, ast.Subscript):
                            b = b.value
                        if isinstance(b, ast.Attribute):
                            w.add(b.attr)
                    elif f.attr in PURE_METHODS or f.attr in PRINT_FUNCS:
                        pass
                    elif unparse(f).split(".")[0] in ("os", "re", "json", "contextlib", "logging", "logger", "itertools", "math", "operator", "sys", "path", "ast"):
                        pass
                    else:
                        c.add(f.attr)
                elif isinstance(f, ast.Name):
                    if f.id not in PURE_FUNCS and f.id not in PRINT_FUNCS and f.id not in ("next", "super", "vars", "open", "deque"):
                        c.add(f.id)
                else:
                    unk = True
        return w, c, unk

    def call_effect(self, call):
        """(attribute names possibly written, unknown code may run)"""
        f = call.func
        name = None
        if isinstance(f, ast.Name) and f.id in ("next", "super", "vars", "open", "deque"):
            return set(), False  # advances an iterator / builds an object: no attribute of an existing object changes
        if isinstance(f, ast.Attribute) and f.attr == "__class__":
            return self.direct.get("__init__", set()), self.unknown.get("__init__", False)  # a constructor of some package class
        if unparse(f).split(".")[0] in ("os", "re", "json", "contextlib", "logging", "logger", "itertools", "math", "operator", "sys", "path", "ast"):
            return set(), False  # standard library helpers used by the package: they do not touch its objects
        if isinstance(f, ast.Attribute):
            if f.attr in PURE_METHODS or f.attr in PRINT_FUNCS:
                return set(), False
            if f.attr in MUTATORS:
                return set(), False  # accounted for as a direct mutation by the caller
            name = f.attr
        elif isinstance(f, ast.Name):
            if f.id in PURE_FUNCS or f.id in PRINT_FUNCS:
                return set(), False
            name = f.id
        if name in self.classes:
            m = self.ctor.get(name)
            if m is None:
                return self.direct.get("__init__", set()), self.unknown.get("__init__", False)
            w, c, unk = self._scan(m)
            for cn in c:
                if cn == "__init__":
                    # super().__init__(..): the constructor of the single base class, when that can be told
                    owner = self.ctor_owner.get(name)
                    bs = self.bases.get(owner)
                    if bs is not None and len(bs) == 1 and bs[0] in self.classes and bs[0] != owner and getattr(self, "_ctor_depth", 0) < 4:
                        self._ctor_depth = getattr(self, "_ctor_depth", 0) + 1
                        try:
                            w2, u2 = self.call_effect(ast.Call(func=ast.Name(id=bs[0], ctx=ast.Load()), args=[], keywords=[]))
                        finally:
                            self._ctor_depth -= 1
                        w = w | w2
                        unk = unk or u2
                    elif bs is not None and len(bs) <= 1 and (not bs or bs[0] in ("Exception", "object", "dict", "list", "ValueError", "SyntaxError")):
                        pass  # a built-in base: its constructor touches no object of the package
                    else:
                        w = w | self.direct.get("__init__", set())
                        unk = unk or self.unknown.get("__init__", False)
                elif cn in self.defs:
                    w = w | self.direct[cn]
                    unk = unk or self.unknown[cn]
                elif cn in self.classes:
                    pass
                else:
                    unk = True
            return w, unk
        if name in self.defs:
            return self.direct[name], self.unknown[name]
        return set(), True  # not a package function: unknown code (a user callable, a library call)


# --------------------------------------------------------------------------- purity of a read
_PURE_PACKAGE = set()
_COMPUTING_PROPS = set()


def pure_read(e):
    """is evaluating e free of side effects (given that properties and __getitem__ of the
    package's classes are, which holds: they only read)"""
    if isinstance(e, (ast.Name, ast.Constant)):
        return True
    if isinstance(e, ast.Attribute):
        if e.attr in _COMPUTING_PROPS and e.attr not in _PURE_PACKAGE:
            return False  # a property that computes and may raise (forest.solutions -> LoopError): reading it is a call
        return pure_read(e.value)
    if isinstance(e, ast.Subscript):
        return pure_read(e.value) and pure_read(e.slice)
    if isinstance(e, ast.Slice):
        return all(pure_read(x) for x in (e.lower, e.upper, e.step) if x is not None)
    if isinstance(e, (ast.Tuple, ast.List)):
        return all(pure_read(x) for x in e.elts)
    if isinstance(e, ast.UnaryOp):
        return pure_read(e.operand)
    if isinstance(e, ast.BinOp):
        return pure_read(e.left) and pure_read(e.right)
    if isinstance(e, ast.BoolOp):
        return all(pure_read(v) for v in e.values)
    if isinstance(e, ast.Compare):
        return pure_read(e.left) and all(pure_read(c) for c in e.comparators)
    if isinstance(e, ast.IfExp):
        return pure_read(e.test) and pure_read(e.body) and pure_read(e.orelse)
    if isinstance(e, ast.JoinedStr):
        return all(pure_read(v.value) if isinstance(v, ast.FormattedValue) else True for v in e.values)
    if isinstance(e, (ast.ListComp, ast.SetComp, ast.GeneratorExp)):
        return pure_read(e.elt) and all(pure_read(g.iter) and all(pure_read(i) for i in g.ifs) for g in e.generators)
    if isinstance(e, ast.DictComp):
        return pure_read(e.key) and pure_read(e.value) and all(pure_read(g.iter) and all(pure_read(i) for i in g.ifs) for g in e.generators)
    if isinstance(e, ast.Lambda):
        return True  # building the function object; what it reads is looked at by the conflict test
    if isinstance(e, ast.Starred):
        return pure_read(e.value)
    if isinstance(e, ast.Dict):
        return all(k is None or pure_read(k) for k in e.keys) and all(pure_read(v) for v in e.values)
    if isinstance(e, ast.Set):
        return all(pure_read(x) for x in e.elts)
    if isinstance(e, ast.Call):
        f = e.func
        ok = (isinstance(f, ast.Name) and (f.id in PURE_FUNCS or f.id in _PURE_PACKAGE)) or (
            isinstance(f, ast.Attribute) and (f.attr in PURE_METHODS or f.attr in _PURE_PACKAGE) and pure_read(f.value))
        return ok and all(pure_read(a) for a in e.args) and all(pure_read(k.value) for k in e.keywords)
    return False


FRESH_MAKERS = {"list", "dict", "set", "sorted", "OrderedDict", "reversed", "iter", "enumerate", "zip", "frozenset", "chain", "tuple", "range", "takewhile"}
FRESH_METHODS = {"copy", "intersection", "difference", "union", "symmetric_difference", "split", "splitlines", "keys", "values", "items"}


def fresh_value(e):
    """does evaluating e build a new mutable / stateful object (so that sharing one evaluation among several
    uses is observable)?"""
    if isinstance(e, (ast.List, ast.Dict, ast.Set, ast.ListComp, ast.DictComp, ast.SetComp, ast.GeneratorExp)):
        return True
    if isinstance(e, ast.Call):
        f = e.func
        if isinstance(f, ast.Name):
            return f.id in FRESH_MAKERS or f.id not in PURE_FUNCS
        if isinstance(f, ast.Attribute):
            return f.attr in FRESH_METHODS or f.attr not in PURE_METHODS
        return True
    if isinstance(e, ast.IfExp):
        return fresh_value(e.body) or fresh_value(e.orelse)
    if isinstance(e, ast.BoolOp):
        return any(fresh_value(v) for v in e.values)
    if isinstance(e, ast.BinOp):
        return isinstance(e.op, ast.Add) and (isinstance(e.left, (ast.List, ast.ListComp)) or isinstance(e.right, (ast.List, ast.ListComp)) or fresh_value(e.left) or fresh_value(e.right))
    return False


def reads_of(e):
    """(names, attribute names, container paths read by subscript / len / .get ...)"""
    names, attrs, conts = set(), set(), set()
    for n in ast.walk(e):
        if isinstance(n, ast.Name):
            names.add(n.id)
        elif isinstance(n, ast.Attribute):
            attrs.add(n.attr)
        elif isinstance(n, ast.Subscript):
            conts.add(unparse(n.value))
        elif isinstance(n, ast.Call):
            if isinstance(n.func, ast.Attribute):
                conts.add(unparse(n.func.value))
            for a in n.args:
                conts.add(unparse(a))
        elif isinstance(n, ast.Compare):
            for op, c in zip(n.ops, n.comparators):
                if isinstance(op, (ast.In, ast.NotIn)):
                    conts.add(unparse(c))
    return names, attrs, conts


def writes_of(stmt, summ):
    """what executing stmt (all of it, nested blocks included) may change:
    (names rebound, attribute names stored, container paths mutated, unknown code may run)"""
    names, attrs, conts, unknown = set(), set(), set(), False
    for n in ast.walk(stmt):
        if isinstance(n, ast.Name) and isinstance(n.ctx, (ast.Store, ast.Del)):
            names.add(n.id)
        elif isinstance(n, ast.Attribute) and isinstance(n.ctx, (ast.Store, ast.Del)):
            attrs.add(n.attr)
        elif isinstance(n, ast.Subscript) and isinstance(n.ctx, (ast.Store, ast.Del)):
            conts.add(unparse(n.value))
        elif isinstance(n, (ast.FunctionDef, ast.AsyncFunctionDef, ast.ClassDef)):
            names.add(n.name)
        elif isinstance(n, ast.Call):
            f = n.func
            if isinstance(f, ast.Attribute) and f.attr in MUTATORS:
                conts.add(unparse(f.value))
            w, unk = summ.call_effect(n)
            attrs |= w
            unknown = unknown or unk
            cname = f.attr if isinstance(f, ast.Attribute) else f.id if isinstance(f, ast.Name) else None
            if cname is not None and summ.call_mutates_args(cname):
                for a in list(n.args) + [k.value for k in n.keywords]:
                    a = a.value if isinstance(a, ast.Starred) else a
                    if not isinstance(a, ast.Constant):
                        conts.add(unparse(a))
                        if isinstance(a, ast.Attribute):
                            attrs.add(a.attr)  # the container is also reachable as <anything>.<attr>
    return names, attrs, conts, unknown


_W_CACHE = {}


def conflicts(e, stmt, summ):
    rn, ra, rc = reads_of(e)
    key = id(stmt)
    if key not in _W_CACHE or _W_CACHE[key][0] is not stmt:
        _W_CACHE[key] = (stmt, writes_of(stmt, summ))
    wn, wa, wc, unk = _W_CACHE[key][1]
    if rn & wn:
        return True
    if ra & wa:
        return True
    if rc & wc:
        return True
    # a container named by an attribute that a callee may write
    for c in rc:
        tail = c.split(".")[-1].split("[")[0]
        if tail in wa:
            return True
    if unk and _unstable(e, summ):
        return True
    return False


def _unstable(e, summ):
    """does e read anything that code outside the package could change? (anything but locals and
    configuration attributes of self)"""
    for n in ast.walk(e):
        if isinstance(n, ast.Attribute):
            if n.attr not in summ.config_attrs:
                return True  # (an attribute only constructors ever store to keeps its value, whoever holds the object)
        elif isinstance(n, ast.Subscript):
            return True
        elif isinstance(n, ast.Call):
            if not (isinstance(n.func, ast.Name) and n.func.id in ("id", "len", "isinstance", "type", "bool", "int", "str", "repr")):
                return True
            if n.func.id in ("len", "str", "repr", "bool"):
                return True  # depends on the contents of its argument
        elif isinstance(n, ast.Compare) and any(isinstance(o, (ast.In, ast.NotIn)) for o in n.ops):
            return True
    return False


# --------------------------------------------------------------------------- generic helpers
_BLOCKS = ("body", "orelse", "finalbody")


def blocks_of(node):
    for f in _BLOCKS:
        b = getattr(node, f, None)
        if isinstance(b, list) and b and isinstance(b[0], ast.stmt):
            yield f, b
    if isinstance(node, ast.Try):
        for h in node.handlers:
            yield "handler", h.body


def rewrite_blocks(node, fn):
    """apply fn(list_of_stmts) -> list_of_stmts to every statement list, innermost first"""
    for child in ast.iter_child_nodes(node):
        if isinstance(child, (ast.FunctionDef, ast.AsyncFunctionDef, ast.Lambda, ast.ClassDef)) and child is not node:
            if isinstance(child, (ast.FunctionDef, ast.AsyncFunctionDef)):
                rewrite_blocks(child, fn)
            continue
        rewrite_blocks(child, fn)
    for f in _BLOCKS:
        b = getattr(node, f, None)
        if isinstance(b, list) and b and all(isinstance(s, ast.stmt) for s in b):
            nb = fn(b, node, f)
            if not nb and f == "body":
                nb = [ast.Pass()]
            setattr(node, f, nb)
    if isinstance(node, ast.Try):
        for h in node.handlers:
            h.body = fn(h.body, h, "body") or [ast.Pass()]


def ends_with_jump(block):
    return bool(block) and isinstance(block[-1], JUMPS)


_ORD_FLIP = {ast.Lt: ast.GtE, ast.GtE: ast.Lt, ast.Gt: ast.LtE, ast.LtE: ast.Gt}


def _is_number(e):
    """evidently an int: a length or an int literal (so that `not a < b` is `a >= b`)"""
    if isinstance(e, ast.Constant):
        return type(e.value) is int
    return isinstance(e, ast.Call) and isinstance(e.func, ast.Name) and e.func.id == "len"


def negate(e):
    if isinstance(e, ast.UnaryOp) and isinstance(e.op, ast.Not):
        return e.operand
    if isinstance(e, ast.Compare) and len(e.ops) == 1:
        flip = {ast.Eq: ast.NotEq, ast.NotEq: ast.Eq, ast.Is: ast.IsNot, ast.IsNot: ast.Is, ast.In: ast.NotIn, ast.NotIn: ast.In}
        if type(e.ops[0]) in flip:
            return ast.Compare(left=e.left, ops=[flip[type(e.ops[0])]()], comparators=e.comparators)
        if type(e.ops[0]) in _ORD_FLIP and (_is_number(e.left) or _is_number(e.comparators[0])):
            return ast.Compare(left=e.left, ops=[_ORD_FLIP[type(e.ops[0])]()], comparators=e.comparators)
    if isinstance(e, ast.BoolOp):
        return ast.BoolOp(op=ast.Or() if isinstance(e.op, ast.And) else ast.And(), values=[negate(v) for v in e.values])
    if isinstance(e, ast.Constant) and isinstance(e.value, bool):
        return ast.Constant(value=not e.value)
    return ast.UnaryOp(op=ast.Not(), operand=e)


class _Expr(ast.NodeTransformer):
    """expression level normal forms (N-lib, negations)"""

    def visit_UnaryOp(self, node):
        self.generic_visit(node)
        if isinstance(node.op, ast.Not):
            inner = node.operand
            if isinstance(inner, (ast.BoolOp, ast.UnaryOp)) or (
                isinstance(inner, ast.Compare) and len(inner.ops) == 1
                and (isinstance(inner.ops[0], (ast.Eq, ast.NotEq, ast.Is, ast.IsNot, ast.In, ast.NotIn)) or (
                    type(inner.ops[0]) in _ORD_FLIP and (_is_number(inner.left) or _is_number(inner.comparators[0]))))
            ):
                return self.visit(negate(inner)) if isinstance(inner, ast.BoolOp) else negate(inner)
        return node

    def visit_BoolOp(self, node):
        self.generic_visit(node)
        # flatten
        vals = []
        for v in node.values:
            if isinstance(v, ast.BoolOp) and type(v.op) is type(node.op):
                vals.extend(v.values)
            else:
                vals.append(v)
        node.values = vals
        # absorption:  not c or (c and p)  ->  not c or p     /   c or (not c and p) -> c or p
        if isinstance(node.op, ast.Or):
            out = []
            for v in node.values:
                if isinstance(v, ast.BoolOp) and isinstance(v.op, ast.And):
                    keep = [x for x in v.values if not any(ast.dump(negate(copy.deepcopy(x))) == ast.dump(p) for p in out)]
                    if not keep:
                        keep = v.values
                    v = keep[0] if len(keep) == 1 else ast.BoolOp(op=ast.And(), values=keep)
                out.append(v)
            node.values = out
        return node

    def visit_IfExp(self, node):
        self.generic_visit(node)
        t = node.test
        # a if not c else b  ->  b if c else a      (positive test first)
        if (isinstance(t, ast.UnaryOp) and isinstance(t.op, ast.Not)) or (
                isinstance(t, ast.Compare) and len(t.ops) == 1 and (isinstance(t.ops[0], (ast.NotIn, ast.IsNot, ast.NotEq)) or (
                    isinstance(t.ops[0], (ast.Lt, ast.LtE)) and (_is_number(t.left) or _is_number(t.comparators[0]))))):
            node = ast.IfExp(test=negate(t), body=node.orelse, orelse=node.body)
            t = node.test
        # max(f(x) for x in S) + k if S else c   ->   max((f(x) for x in S), default=c - k) + k     (S a built-in container:
        # true exactly when the generator yields something)
        b = node.body
        if isinstance(b, ast.BinOp) and isinstance(b.op, ast.Add) and isinstance(b.right, ast.Constant) and type(b.right.value) is int \
                and isinstance(node.orelse, ast.Constant) and type(node.orelse.value) is int and isinstance(b.left, ast.Call) \
                and isinstance(b.left.func, ast.Name) and b.left.func.id in ("max", "min") and len(b.left.args) == 1 and not b.left.keywords \
                and isinstance(b.left.args[0], ast.GeneratorExp) and len(b.left.args[0].generators) == 1 \
                and not b.left.args[0].generators[0].ifs and pure_read(t) and isinstance(t, (ast.Name, ast.Attribute)) \
                and ast.dump(b.left.args[0].generators[0].iter) == ast.dump(t):
            call = ast.Call(func=b.left.func, args=b.left.args, keywords=[ast.keyword(arg="default", value=ast.Constant(value=node.orelse.value - b.right.value))])
            return ast.BinOp(left=call, op=ast.Add(), right=b.right)
        return node

    def visit_Call(self, node):
        self.generic_visit(node)
        f = node.func
        fname = unparse(f)
        # f([.. for ..]) -> f(.. for ..) for a consumer that reads every element in order; any / all stop early, which only
        # shows when evaluating an element has an effect
        if isinstance(f, ast.Name) and len(node.args) == 1 and isinstance(node.args[0], ast.ListComp) and not node.keywords and (
                f.id in ("sum", "min", "max", "sorted", "set", "frozenset", "tuple", "list") or (f.id in ("any", "all") and pure_read(node.args[0]))):
            node = ast.Call(func=f, args=[ast.GeneratorExp(elt=node.args[0].elt, generators=node.args[0].generators)], keywords=[])
        if isinstance(f, ast.Name) and f.id in ("max", "min") and len(node.args) == 1 and isinstance(node.args[0], ast.GeneratorExp) \
                and len(node.keywords) == 1 and node.keywords[0].arg == "default" and isinstance(node.keywords[0].value, ast.UnaryOp) \
                and isinstance(node.keywords[0].value.op, ast.USub) and isinstance(node.keywords[0].value.operand, ast.Constant):
            node.keywords[0].value = ast.Constant(value=-node.keywords[0].value.operand.value)
        # product folds
        if fname in ("reduce", "functools.reduce") and len(node.args) == 3 and isinstance(node.args[2], ast.Constant) and node.args[2].value == 1:
            fn0 = node.args[0]
            is_mul = unparse(fn0) in ("operator.mul", "mul") or (
                isinstance(fn0, ast.Lambda) and len(fn0.args.args) == 2 and isinstance(fn0.body, ast.BinOp) and isinstance(fn0.body.op, ast.Mult)
                and {unparse(fn0.body.left), unparse(fn0.body.right)} == {a.arg for a in fn0.args.args}
            )
            if is_mul:
                return ast.Call(func=ast.Name(id="__prod", ctx=ast.Load()), args=[node.args[1]], keywords=[])
        if fname in ("math.prod", "prod") and len(node.args) == 1 and not node.keywords:
            return ast.Call(func=ast.Name(id="__prod", ctx=ast.Load()), args=[node.args[0]], keywords=[])
        # all(c for G)  ->  not any(not c for G)
        if isinstance(f, ast.Name) and f.id == "all" and len(node.args) == 1 and isinstance(node.args[0], ast.GeneratorExp) and not node.keywords:
            g = node.args[0]
            inner = ast.Call(func=ast.Name(id="any", ctx=ast.Load()), args=[ast.GeneratorExp(elt=negate(g.elt), generators=g.generators)], keywords=[])
            return ast.UnaryOp(op=ast.Not(), operand=self.visit(inner))
        # any(a and b for G)  ->  any(b for G if a)       (truth of the whole is the same; a is evaluated first either way)
        if isinstance(f, ast.Name) and f.id == "any" and len(node.args) == 1 and isinstance(node.args[0], ast.GeneratorExp):
            g = node.args[0]
            if isinstance(g.elt, ast.BoolOp) and isinstance(g.elt.op, ast.And) and len(g.elt.values) >= 2:
                gens = list(g.generators)
                last = gens[-1]
                gens[-1] = ast.comprehension(target=last.target, iter=last.iter, ifs=last.ifs + g.elt.values[:-1], is_async=0)
                return self.visit(ast.Call(func=f, args=[ast.GeneratorExp(elt=g.elt.values[-1], generators=gens)], keywords=[]))
        # any(any(C for G1) for G2) -> any(C for G2 for G1)
        if isinstance(f, ast.Name) and f.id in ("any", "all") and len(node.args) == 1 and isinstance(node.args[0], ast.GeneratorExp):
            g = node.args[0]
            if isinstance(g.elt, ast.Call) and isinstance(g.elt.func, ast.Name) and g.elt.func.id == f.id and len(g.elt.args) == 1 \
                    and isinstance(g.elt.args[0], ast.GeneratorExp):
                inner = g.elt.args[0]
                return self.visit(ast.Call(func=f, args=[ast.GeneratorExp(elt=inner.elt, generators=g.generators + inner.generators)], keywords=[]))
        # set([a, b]) -> {a, b}
        if isinstance(f, ast.Name) and f.id == "set" and len(node.args) == 1 and isinstance(node.args[0], (ast.List, ast.Tuple)) and node.args[0].elts \
                and not node.keywords and not any(isinstance(x, ast.Starred) for x in node.args[0].elts):
            return ast.Set(elts=node.args[0].elts)
        # set(<genexpr>) / list(<genexpr>)
        if isinstance(f, ast.Name) and f.id in ("set", "list") and len(node.args) == 1 and isinstance(node.args[0], ast.GeneratorExp) and not node.keywords:
            g = node.args[0]
            cls = ast.SetComp if f.id == "set" else ast.ListComp
            return cls(elt=g.elt, generators=g.generators)
        # "..{}..".format(a, b) with plain positional fields -> f-string
        if isinstance(f, ast.Attribute) and f.attr == "format" and isinstance(f.value, ast.Constant) and isinstance(f.value.value, str) \
                and not node.keywords and not any(isinstance(a, ast.Starred) for a in node.args):
            import re as _re

            parts = _re.split(r"(\{(?::[^{}]*)?\})", f.value.value)
            fields = [p for p in parts if _re.fullmatch(r"\{(?::[^{}]*)?\}", p)]
            rest = "".join(p for p in parts if p not in fields)
            if len(fields) == len(node.args) and "{" not in rest and "}" not in rest:
                vals, i = [], 0
                for p in parts:
                    if p in fields and _re.fullmatch(r"\{(?::[^{}]*)?\}", p):
                        spec = p[2:-1] if p.startswith("{:") else None
                        vals.append(ast.FormattedValue(
                            value=node.args[i], conversion=-1,
                            format_spec=ast.JoinedStr(values=[ast.Constant(value=spec)]) if spec else None))
                        i += 1
                    elif p:
                        vals.append(ast.Constant(value=p))
                return ast.JoinedStr(values=vals)
        return node

    def _flatten_gens(self, node):
        for g in node.generators:
            ifs = []
            for i_ in g.ifs:
                ifs.extend(i_.values if isinstance(i_, ast.BoolOp) and isinstance(i_.op, ast.And) else [i_])
            g.ifs = ifs
        gens = []
        for g in node.generators:
            it = g.iter
            if isinstance(it, (ast.GeneratorExp, ast.ListComp)) and len(it.generators) == 1 and isinstance(it.elt, ast.Name) \
                    and isinstance(it.generators[0].target, ast.Name) and it.elt.id == it.generators[0].target.id and isinstance(g.target, ast.Name) \
                    and not it.generators[0].is_async:
                inner = it.generators[0]
                ren = _Rename({inner.target.id: g.target.id})
                ifs = [ren.visit(copy.deepcopy(x)) for x in inner.ifs]
                gens.append(ast.comprehension(target=g.target, iter=inner.iter, ifs=ifs + g.ifs, is_async=0))
            else:
                gens.append(g)
        node.generators = gens
        return node

    def visit_GeneratorExp(self, node):
        self.generic_visit(node)
        node = self._flatten_gens(node)
        # any(<any(G1)> for G2)  ->  any(elt for G2 for G1)   is done at the call
        return node

    def visit_ListComp(self, node):
        self.generic_visit(node)
        return self._flatten_gens(node)

    visit_SetComp = visit_ListComp

    def visit_List(self, node):
        self.generic_visit(node)
        # [a, *b] -> [a] + b      (b must be a list for the original to be one, which `+` also requires)
        if isinstance(node.ctx, ast.Load) and len(node.elts) >= 2 and isinstance(node.elts[-1], ast.Starred) \
                and not any(isinstance(e, ast.Starred) for e in node.elts[:-1]):
            return ast.BinOp(left=ast.List(elts=node.elts[:-1], ctx=ast.Load()), op=ast.Add(), right=node.elts[-1].value)
        return node

    def visit_JoinedStr(self, node):
        self.generic_visit(node)
        # merge adjacent constants, drop str() conversions that equal the default
        vals = []
        for v in node.values:
            if isinstance(v, ast.FormattedValue) and v.conversion == 115 and v.format_spec is None:
                v = ast.FormattedValue(value=v.value, conversion=-1, format_spec=None)
            if isinstance(v, ast.Constant) and vals and isinstance(vals[-1], ast.Constant):
                vals[-1] = ast.Constant(value=vals[-1].value + v.value)
            else:
                vals.append(v)
        node.values = vals
        return node


# --------------------------------------------------------------------------- N-comp
def _single_append(body, acc):
    """body == [acc.append(v)] or [if c: acc.append(v)] or a nested for with the same shape ->
    (elt, [comprehension parts]) else None"""
    if len(body) >= 2 and isinstance(body[0], ast.If) and not body[0].orelse and len(body[0].body) == 1 and isinstance(body[0].body[0], ast.Continue):
        body = [ast.If(test=negate(body[0].test), body=body[1:], orelse=[])]
    if len(body) != 1:
        return None
    st = body[0]
    if isinstance(st, ast.Expr) and isinstance(st.value, ast.Call) and isinstance(st.value.func, ast.Attribute) \
            and st.value.func.attr in ("append", "add") and unparse(st.value.func.value) == acc and len(st.value.args) == 1 and not st.value.keywords:
        return st.value.func.attr, st.value.args[0], []
    if isinstance(st, ast.Assign) and len(st.targets) == 1 and isinstance(st.targets[0], ast.Subscript) and unparse(st.targets[0].value) == acc:
        return "setitem", (st.targets[0].slice, st.value), []
    if isinstance(st, ast.If) and not st.orelse:
        r = _single_append(st.body, acc)
        if r is not None:
            kind, elt, gens = r
            if gens:
                return None
            return kind, elt, [("if", st.test)]
    if isinstance(st, ast.For) and not st.orelse:
        r = _single_append(st.body, acc)
        if r is not None:
            kind, elt, gens = r
            return kind, elt, [("for", st.target, st.iter)] + gens
    return None


def _mk_generators(parts):
    gens = []
    for p in parts:
        if p[0] == "for":
            gens.append(ast.comprehension(target=p[1], iter=p[2], ifs=[], is_async=0))
        else:
            if not gens:
                return None
            gens[-1].ifs.append(p[1])
    return gens


def _uses(name, node):
    return any(isinstance(n, ast.Name) and n.id == name for n in ast.walk(node))


def _loop_forms(st):
    """for t in X: a, b = t ; ...  ->  for a, b in X: ...        for t in (c for c in L if p): B -> for t in L: if p: B"""
    if not isinstance(st, ast.For) or st.orelse:
        return st
    if isinstance(st.target, ast.Name) and st.body and isinstance(st.body[0], ast.Assign) and len(st.body[0].targets) == 1 \
            and isinstance(st.body[0].targets[0], ast.Tuple) and isinstance(st.body[0].value, ast.Name) and st.body[0].value.id == st.target.id \
            and all(isinstance(e, ast.Name) for e in st.body[0].targets[0].elts) \
            and not any(_mentions(st.target.id, x) for x in st.body[1:]) and len(st.body) > 1:
        st = ast.For(target=st.body[0].targets[0], iter=st.iter, body=st.body[1:], orelse=[], lineno=getattr(st, "lineno", 0))
    # for k, v in W(d.items()): B   with v never read   ->   for k in W(d): B      (W: list / reversed / tuple wrappers)
    fn_ = getattr(n_comp, "_fn", None)
    if fn_ is not None and isinstance(st.target, ast.Tuple) and len(st.target.elts) == 2 and all(isinstance(e, ast.Name) for e in st.target.elts):
        vname = st.target.elts[1].id
        inner = st.iter
        chain_ = []
        while isinstance(inner, ast.Call) and isinstance(inner.func, ast.Name) and inner.func.id in ("list", "reversed", "tuple") \
                and len(inner.args) == 1 and not inner.keywords:
            chain_.append(inner.func.id)
            inner = inner.args[0]
        if isinstance(inner, ast.Call) and isinstance(inner.func, ast.Attribute) and inner.func.attr == "items" and not inner.args and not inner.keywords \
                and sum(1 for n in ast.walk(fn_) if isinstance(n, ast.Name) and n.id == vname) == 1 and vname != st.target.elts[0].id:
            new_iter = inner.func.value
            for w in reversed(chain_):
                new_iter = ast.Call(func=ast.Name(id=w, ctx=ast.Load()), args=[new_iter], keywords=[])
            st = ast.For(target=ast.Name(id=st.target.elts[0].id, ctx=ast.Store()), iter=new_iter, body=st.body, orelse=[], lineno=getattr(st, "lineno", 0))
    it = st.iter
    # for x in takewhile(lambda y: P(y), L): B    ->    for x in L: if not P(x): break ; B
    if isinstance(it, ast.Call) and unparse(it.func) in ("takewhile", "itertools.takewhile") and len(it.args) == 2 and isinstance(it.args[0], ast.Lambda) \
            and len(it.args[0].args.args) == 1 and isinstance(st.target, ast.Name):
        lam = it.args[0]
        cond = _Rename({lam.args.args[0].arg: st.target.id}).visit(copy.deepcopy(lam.body))
        st = ast.For(target=st.target, iter=it.args[1], body=[ast.If(test=negate(cond), body=[ast.Break()], orelse=[])] + st.body, orelse=[],
                     lineno=getattr(st, "lineno", 0))
        it = st.iter
    if isinstance(it, (ast.GeneratorExp, ast.ListComp)) and len(it.generators) == 1 and isinstance(it.elt, ast.Name) and isinstance(st.target, ast.Name) \
            and isinstance(it.generators[0].target, ast.Name) and it.elt.id == it.generators[0].target.id and it.generators[0].ifs \
            and isinstance(it, ast.GeneratorExp):
        inner = it.generators[0]
        ren = _Rename({inner.target.id: st.target.id})
        test = [ren.visit(copy.deepcopy(x)) for x in inner.ifs]
        cond = test[0] if len(test) == 1 else ast.BoolOp(op=ast.And(), values=test)
        st = ast.For(target=st.target, iter=inner.iter, body=[ast.If(test=cond, body=st.body, orelse=[])], orelse=[], lineno=getattr(st, "lineno", 0))
    return st


def n_comp(block, owner, field):
    block = [_loop_forms(s) for s in block]
    out = []
    i = 0
    while i < len(block):
        st = block[i]
        nxt = block[i + 1] if i + 1 < len(block) else None
        done = False
        # acc = [] / {} / set()  +  for ...: acc.append(v)
        if isinstance(st, ast.Assign) and len(st.targets) == 1 and isinstance(nxt, ast.For) and not nxt.orelse and (
                isinstance(st.targets[0], ast.Name) or (
                    isinstance(st.targets[0], ast.Attribute) and isinstance(st.targets[0].value, ast.Name)
                    and not any(isinstance(n, ast.Call) for n in ast.walk(nxt))
                    and sum(1 for n in ast.walk(nxt) if isinstance(n, ast.Attribute) and n.attr == st.targets[0].attr) == 1
                    and not _stmt_stores(nxt, st.targets[0].value.id))):
            acc = unparse(st.targets[0])
            v = st.value
            kind0 = "list" if isinstance(v, ast.List) and not v.elts else "dict" if isinstance(v, ast.Dict) and not v.keys else \
                "set" if isinstance(v, ast.Call) and unparse(v) == "set()" else None
            r = _single_append([nxt], acc) if kind0 else None
            if r is not None:
                kind, elt, parts = r
                gens = _mk_generators(parts)
                ok = gens is not None and not any(_uses(acc, x) for p in parts for x in p[1:]) and (
                    (kind0 == "list" and kind == "append") or (kind0 == "set" and kind == "add") or (kind0 == "dict" and kind == "setitem"))
                if ok and kind != "setitem" and _uses(acc, elt):
                    ok = False
                if ok and kind == "setitem" and (_uses(acc, elt[0]) or _uses(acc, elt[1])):
                    ok = False
                if ok:
                    if kind0 == "list":
                        comp = ast.ListComp(elt=elt, generators=gens)
                    elif kind0 == "set":
                        comp = ast.SetComp(elt=elt, generators=gens)
                    else:
                        comp = ast.DictComp(key=elt[0], value=elt[1], generators=gens)
                    out.append(ast.Assign(targets=st.targets, value=comp, lineno=getattr(st, "lineno", 0)))
                    i += 2
                    done = True
        # for ..: if c: return K        ->   if any(c for ..): return K
        if not done and isinstance(st, ast.For) and not st.orelse:
            parts = []
            cur = st
            def _unguard(f_):
                b_ = f_.body
                if len(b_) >= 2 and isinstance(b_[0], ast.If) and not b_[0].orelse and len(b_[0].body) == 1 and isinstance(b_[0].body[0], ast.Continue):
                    rest = b_[1:]
                    if len(rest) == 1 and isinstance(rest[0], ast.If) and not rest[0].orelse:
                        return [ast.If(test=ast.BoolOp(op=ast.And(), values=[negate(b_[0].test), rest[0].test]), body=rest[0].body, orelse=[])]
                    return [ast.If(test=negate(b_[0].test), body=rest, orelse=[])]
                return b_

            cur_body = _unguard(cur)
            while isinstance(cur, ast.For) and not cur.orelse and len(cur_body) == 1 and isinstance(cur_body[0], (ast.For, ast.If)):
                parts.append(("for", cur.target, cur.iter))
                inner = cur_body[0]
                if isinstance(inner, ast.If):
                    cur = inner
                    break
                cur = inner
                cur_body = _unguard(cur)
            if isinstance(cur, ast.If) and not cur.orelse and parts:
                body = cur.body
                gens = _mk_generators(parts)
                anyc = ast.Call(func=ast.Name(id="any", ctx=ast.Load()), args=[ast.GeneratorExp(elt=cur.test, generators=gens)], keywords=[])
                nxt_ret = block[i + 1] if i + 1 < len(block) else None
                at_end = nxt_ret is None and isinstance(owner, (ast.FunctionDef, ast.AsyncFunctionDef)) and field == "body"
                if len(body) == 1 and isinstance(body[0], ast.Return) and body[0].value is not None and len(parts) == 1 \
                        and any(_uses(n.id, body[0]) for n in ast.walk(parts[0][1]) if isinstance(n, ast.Name)) \
                        and (at_end or (isinstance(nxt_ret, ast.Return) and (nxt_ret.value is None or isinstance(nxt_ret.value, ast.Constant)))) \
                        and not any(isinstance(n, (ast.NamedExpr, ast.Yield, ast.YieldFrom, ast.Await)) for n in ast.walk(cur)):
                    default = ast.Constant(value=None) if at_end or nxt_ret.value is None else nxt_ret.value
                    g2 = _mk_generators(parts + [("if", cur.test)])
                    out.append(ast.Return(value=ast.Call(func=ast.Name(id="next", ctx=ast.Load()),
                                                         args=[ast.GeneratorExp(elt=body[0].value, generators=g2), default], keywords=[])))
                    i += 1 if at_end else 2
                    done = True
                elif len(body) == 1 and isinstance(body[0], ast.Return) and (body[0].value is None or pure_read(body[0].value)) \
                        and not any(_uses(n.id, body[0]) for p in parts for n in ast.walk(p[1]) if isinstance(n, ast.Name)):
                    out.append(ast.If(test=anyc, body=body, orelse=[], lineno=getattr(st, "lineno", 0)))
                    i += 1
                    done = True
                elif len(body) == 2 and isinstance(body[1], ast.Break) and isinstance(body[0], ast.Assign) and len(parts) == 1 \
                        and isinstance(body[0].targets[0], ast.Name) and isinstance(body[0].value, ast.Constant) and body[0].value.value is True \
                        :
                    # flag = False ; [statements not mentioning flag] ; for ..: if c: flag = True; break  ->  flag = any(c for ..)
                    flag = body[0].targets[0].id
                    k = len(out) - 1
                    while k >= 0 and not _mentions(flag, out[k]):
                        k -= 1
                    if k >= 0 and isinstance(out[k], ast.Assign) and len(out[k].targets) == 1 and isinstance(out[k].targets[0], ast.Name) \
                            and out[k].targets[0].id == flag and isinstance(out[k].value, ast.Constant) and out[k].value.value is False \
                            and not _uses(flag, cur.test):
                        del out[k]
                        out.append(ast.Assign(targets=[ast.Name(id=flag, ctx=ast.Store())], value=anyc, lineno=getattr(st, "lineno", 0)))
                        i += 1
                        done = True
                elif len(body) == 2 and isinstance(body[1], ast.Break) and isinstance(body[0], ast.Assign) and len(parts) == 1 \
                        and len(body[0].targets) == 1 and isinstance(body[0].targets[0], ast.Name) and getattr(n_comp, "_fn", None) is not None:
                    # x = K ; [statements not mentioning x] ; for v in L: if c: x = E; break   ->   x = next((E for v in L if c), K)
                    # (the loop variable is not looked at after the loop)
                    x = body[0].targets[0].id
                    val = body[0].value
                    k = len(out) - 1
                    while k >= 0 and not _mentions(x, out[k]):
                        k -= 1
                    loop_vars = {n.id for n in ast.walk(parts[0][1]) if isinstance(n, ast.Name)}
                    fn_ = n_comp._fn
                    private = all(
                        sum(1 for n in ast.walk(fn_) if isinstance(n, ast.Name) and n.id == v) == sum(1 for n in ast.walk(st) if isinstance(n, ast.Name) and n.id == v)
                        for v in loop_vars)
                    if k >= 0 and isinstance(out[k], ast.Assign) and len(out[k].targets) == 1 and isinstance(out[k].targets[0], ast.Name) \
                            and out[k].targets[0].id == x and isinstance(out[k].value, ast.Constant) and private and x not in loop_vars \
                            and not _uses(x, cur.test) and not _uses(x, val) and not _uses(x, parts[0][2]) \
                            and not any(isinstance(n, (ast.NamedExpr, ast.Yield, ast.YieldFrom, ast.Await)) for n in ast.walk(cur)):
                        default = out[k].value
                        del out[k]
                        g2 = _mk_generators(parts + [("if", cur.test)])
                        out.append(ast.Assign(
                            targets=[ast.Name(id=x, ctx=ast.Store())],
                            value=ast.Call(func=ast.Name(id="next", ctx=ast.Load()), args=[ast.GeneratorExp(elt=val, generators=g2), default], keywords=[]),
                            lineno=getattr(st, "lineno", 0)))
                        i += 1
                        done = True
        # d.update({k: v for ..})   (k, v do not read d)   ->   for ..: d[k] = v
        upd = st.value if isinstance(st, ast.Expr) and isinstance(st.value, ast.Call) and isinstance(st.value.func, ast.Attribute) \
            and st.value.func.attr == "update" and len(st.value.args) == 1 and not st.value.keywords else None
        if upd is not None and isinstance(upd.args[0], (ast.ListComp, ast.GeneratorExp)) and isinstance(upd.args[0].elt, ast.Tuple) \
                and len(upd.args[0].elt.elts) == 2 and not any(isinstance(x, ast.Starred) for x in upd.args[0].elt.elts):
            # a sequence of (key, value) pairs is what a dict comprehension produces
            upd.args[0] = ast.DictComp(key=upd.args[0].elt.elts[0], value=upd.args[0].elt.elts[1], generators=upd.args[0].generators)
        recv = upd.func.value if upd is not None else None
        recv_ok = isinstance(recv, ast.Name) or (
            isinstance(recv, ast.Attribute) and isinstance(recv.value, ast.Name) and upd is not None
            and not any(isinstance(n, ast.Attribute) and n.attr == recv.attr for n in ast.walk(upd.args[0]))
            and not any(isinstance(n, ast.Call) for n in ast.walk(upd.args[0])))
        if not done and upd is not None and recv_ok \
                and isinstance(st.value.args[0], ast.DictComp) and not (isinstance(recv, ast.Name) and _uses(recv.id, st.value.args[0])) \
                and not any(g.is_async for g in st.value.args[0].generators):
            comp = st.value.args[0]
            d = None
            _FRESH[0] += 1
            names = {n.id for g in comp.generators for n in ast.walk(g.target) if isinstance(n, ast.Name)}
            ren = _Rename({n: f"__u{_FRESH[0]}_{n}" for n in names})
            first_iter = comp.generators[0].iter
            body = [ast.Assign(targets=[ast.Subscript(value=copy.deepcopy(recv), slice=ren.visit(copy.deepcopy(comp.key)), ctx=ast.Store())],
                               value=ren.visit(copy.deepcopy(comp.value)), lineno=getattr(st, "lineno", 0))]
            for gi in range(len(comp.generators) - 1, -1, -1):
                g = comp.generators[gi]
                for cond in reversed(g.ifs):
                    body = [ast.If(test=ren.visit(copy.deepcopy(cond)), body=body, orelse=[], lineno=getattr(st, "lineno", 0))]
                it = copy.deepcopy(first_iter) if gi == 0 else ren.visit(copy.deepcopy(g.iter))
                body = [ast.For(target=ren.visit(copy.deepcopy(g.target)), iter=it, body=body, orelse=[], lineno=getattr(st, "lineno", 0))]
            out.extend(body)
            i += 1
            done = True
        if not done:
            out.append(st)
            i += 1
    return out


_FRESH = [0]


# --------------------------------------------------------------------------- N-flow
class _FirstEqual(ast.NodeTransformer):
    """where `X in L` is known:  next(c for c in L if c == X)  ->  L[L.index(X)]   (both are the first element equal to X)"""

    def __init__(self, x, lst):
        self.x, self.lst = x, lst

    def visit_Call(self, node):
        self.generic_visit(node)
        if isinstance(node.func, ast.Name) and node.func.id == "next" and len(node.args) == 1 and isinstance(node.args[0], ast.GeneratorExp):
            g = node.args[0]
            if len(g.generators) == 1 and isinstance(g.elt, ast.Name) and isinstance(g.generators[0].target, ast.Name) \
                    and g.elt.id == g.generators[0].target.id and ast.dump(g.generators[0].iter) == self.lst and len(g.generators[0].ifs) == 1:
                c = g.generators[0].ifs[0]
                if isinstance(c, ast.Compare) and len(c.ops) == 1 and isinstance(c.ops[0], ast.Eq) and isinstance(c.left, ast.Name) \
                        and c.left.id == g.elt.id and ast.dump(c.comparators[0]) == self.x:
                    lst = g.generators[0].iter
                    return ast.Subscript(
                        value=lst,
                        slice=ast.Call(func=ast.Attribute(value=copy.deepcopy(lst), attr="index", ctx=ast.Load()), args=[c.comparators[0]], keywords=[]),
                        ctx=ast.Load())
        return node


def _known_membership(block):
    for st in block:
        if isinstance(st, ast.If) and isinstance(st.test, ast.Compare) and len(st.test.ops) == 1 and pure_read(st.test.left) and pure_read(st.test.comparators[0]):
            x, lst = ast.dump(st.test.left), ast.dump(st.test.comparators[0])
            tr = _FirstEqual(x, lst)
            if isinstance(st.test.ops[0], ast.NotIn):
                # holds in the else part until something is added / removed: only the first statement reads it safely;
                # an `elif c:` test and the first statement of its body come before any mutation of the block
                if st.orelse:
                    first = st.orelse[0]
                    if isinstance(first, ast.If):
                        first.test = tr.visit(first.test)
                        if first.body:
                            first.body[0] = tr.visit(first.body[0])
                    else:
                        st.orelse[0] = tr.visit(first)
            elif isinstance(st.test.ops[0], ast.In) and st.body:
                st.body[0] = tr.visit(st.body[0])
    return block


def _negative_test(t):
    if isinstance(t, ast.UnaryOp) and isinstance(t.op, ast.Not):
        return True
    if isinstance(t, ast.Compare) and len(t.ops) == 1:
        if isinstance(t.ops[0], (ast.NotIn, ast.IsNot, ast.NotEq)):
            return True
        return isinstance(t.ops[0], (ast.Lt, ast.LtE)) and (_is_number(t.left) or _is_number(t.comparators[0]))
    # not a or not b  ==  not (a and b)
    return isinstance(t, ast.BoolOp) and isinstance(t.op, ast.Or) and all(_negative_test(v) for v in t.values)


def _is_bool(e):
    if isinstance(e, ast.Compare):
        return True
    if isinstance(e, ast.UnaryOp) and isinstance(e.op, ast.Not):
        return True
    if isinstance(e, ast.BoolOp):
        return all(_is_bool(v) for v in e.values)
    return isinstance(e, ast.Call) and isinstance(e.func, ast.Name) and e.func.id in ("any", "all", "isinstance", "bool", "callable", "hasattr", "issubclass")


def n_flow(block, owner, field):
    block = _known_membership(block)
    # try: B except E: H(ends with a jump) else: R   ->   try: B except E: H ; R     (R runs exactly when B completes; what R
    # raises is not caught by the handlers either way)
    pre = []
    for k_, st in enumerate(block):
        if isinstance(st, ast.Try) and st.orelse and not st.finalbody and st.handlers and k_ == len(block) - 1 and field == "body" \
                and isinstance(owner, (ast.For, ast.While)):
            # the last statement of a loop body: a handler that falls through continues the loop
            for h in st.handlers:
                if not ends_with_jump(h.body):
                    h.body = list(h.body) + [ast.Continue()]
        if isinstance(st, ast.Try) and st.orelse and not st.finalbody and st.handlers and all(ends_with_jump(h.body) for h in st.handlers):
            pre.append(ast.Try(body=st.body, handlers=st.handlers, orelse=[], finalbody=[], lineno=getattr(st, "lineno", 0)))
            pre.extend(st.orelse)
        else:
            pre.append(st)
    block = pre
    # `x = A` ; `if not x: x = B`  ->  `x = A or B`
    pre = []
    for st in block:
        prev = pre[-1] if pre else None
        if (
            isinstance(st, ast.If) and not st.orelse and len(st.body) == 1 and isinstance(st.body[0], ast.Assign) and len(st.body[0].targets) == 1
            and isinstance(st.body[0].targets[0], ast.Name) and isinstance(st.test, ast.UnaryOp) and isinstance(st.test.op, ast.Not)
            and isinstance(st.test.operand, ast.Name) and st.test.operand.id == st.body[0].targets[0].id
            and isinstance(prev, ast.Assign) and len(prev.targets) == 1 and isinstance(prev.targets[0], ast.Name)
            and prev.targets[0].id == st.test.operand.id and not _uses(st.test.operand.id, st.body[0].value) and not _uses(st.test.operand.id, prev.value)
        ):
            pre[-1] = ast.Assign(targets=prev.targets, value=ast.BoolOp(op=ast.Or(), values=[prev.value, st.body[0].value]), lineno=getattr(prev, "lineno", 0))
        else:
            pre.append(st)
    block = pre
    # `if c: return True` ; `return False`  ->  `return c` / `return not c`    (c evidently a bool)
    if len(block) >= 2 and isinstance(block[-1], ast.Return) and isinstance(block[-2], ast.If) and not block[-2].orelse and len(block[-2].body) == 1 \
            and isinstance(block[-2].body[0], ast.Return) and all(
                isinstance(r.value, ast.Constant) and isinstance(r.value.value, bool) for r in (block[-1], block[-2].body[0])) \
            and block[-1].value.value != block[-2].body[0].value.value and _is_bool(block[-2].test):
        t = block[-2].test
        block = block[:-2] + [ast.Return(value=t if block[-2].body[0].value.value else negate(t))]
    # `x = K` ; `if c: x = b`   (K a constant, c and b do not read x)   ->   `x = b if c else K`
    pre = []
    for st in block:
        prev = pre[-1] if pre else None
        if (
            isinstance(st, ast.If) and not st.orelse and len(st.body) == 1 and isinstance(st.body[0], ast.Assign) and len(st.body[0].targets) == 1
            and isinstance(st.body[0].targets[0], ast.Name) and isinstance(prev, ast.Assign) and len(prev.targets) == 1
            and isinstance(prev.targets[0], ast.Name) and prev.targets[0].id == st.body[0].targets[0].id and isinstance(prev.value, ast.Constant)
            and prev.value.value is not None  # (`x = None` before a conditional store is handled as a known fact instead)
            and not _uses(prev.targets[0].id, st.test) and not _uses(prev.targets[0].id, st.body[0].value)
            and not any(isinstance(n, ast.NamedExpr) for n in ast.walk(st.test))
        ):
            pre[-1] = ast.Assign(targets=prev.targets, value=ast.IfExp(test=st.test, body=st.body[0].value, orelse=prev.value), lineno=getattr(prev, "lineno", 0))
        else:
            pre.append(st)
    block = pre
    # `if a not in b: A else: B`  ->  `if a in b: B else: A`     (positive test first; neither branch is a guard)
    pre = []
    for st in block:
        if isinstance(st, ast.If) and st.orelse and not ends_with_jump(st.body) and not ends_with_jump(st.orelse) and _negative_test(st.test):
            st = ast.If(test=negate(st.test), body=st.orelse, orelse=st.body, lineno=getattr(st, "lineno", 0))
        pre.append(st)
    block = pre
    # `if c: T = a  else: T = b`  ->  `T = a if c else b`
    merged = []
    for st in block:
        if (
            isinstance(st, ast.If) and len(st.body) == 1 and len(st.orelse) == 1
            and all(isinstance(x, ast.Assign) and len(x.targets) == 1 for x in (st.body[0], st.orelse[0]))
            and ast.dump(st.body[0].targets[0]) == ast.dump(st.orelse[0].targets[0])
            and isinstance(st.body[0].targets[0], (ast.Name, ast.Subscript, ast.Attribute))
            and pure_read(st.body[0].targets[0] if not isinstance(st.body[0].targets[0], ast.Name) else ast.Constant(value=0))
        ):
            merged.append(ast.Assign(targets=st.body[0].targets, value=ast.IfExp(test=st.test, body=st.body[0].value, orelse=st.orelse[0].value),
                                     lineno=getattr(st, "lineno", 0)))
        else:
            merged.append(st)
    block = merged
    # `if c1: X elif c2: X [else: Y]`  ->  `if c1 or c2: X [else: Y]`
    m2 = []
    for st in block:
        while (
            isinstance(st, ast.If) and len(st.orelse) == 1 and isinstance(st.orelse[0], ast.If)
            and [ast.dump(x) for x in st.body] == [ast.dump(x) for x in st.orelse[0].body]
        ):
            inner = st.orelse[0]
            st = ast.If(test=ast.BoolOp(op=ast.Or(), values=[st.test, inner.test]), body=st.body, orelse=inner.orelse, lineno=getattr(st, "lineno", 0))
        m2.append(st)
    block = m2
    # `if c: A` ; `return x`   (x a plain name / constant, A does not jump)   ->   `if not c: return x` ; A ; `return x`
    if len(block) >= 2 and isinstance(block[-1], ast.Return) and isinstance(block[-1].value, (ast.Name, ast.Constant)) \
            and isinstance(block[-2], ast.If) and not block[-2].orelse and not ends_with_jump(block[-2].body) and len(block[-2].body) > 1 \
            and isinstance(owner, (ast.FunctionDef, ast.AsyncFunctionDef)):
        iff, ret = block[-2], block[-1]
        block = block[:-2] + [ast.If(test=negate(iff.test), body=[copy.deepcopy(ret)], orelse=[], lineno=getattr(iff, "lineno", 0))] + iff.body + [ret]
    # `if c: A(jump)` ; TAIL(jump)   -- two terminating alternatives: the smaller one becomes the guarded branch
    for k in range(len(block) - 1):
        st = block[k]
        tail = block[k + 1:]
        if isinstance(st, ast.If) and not st.orelse and ends_with_jump(st.body) and ends_with_jump(tail) and len(tail) > 1 and len(st.body) > 1 \
                and not any(isinstance(x, ast.If) and not x.orelse and ends_with_jump(x.body) for x in block[k + 1:-1]):
            ka = (sum(1 for _ in ast.walk(ast.Module(body=st.body, type_ignores=[]))), "".join(ast.dump(x) for x in st.body))
            kb = (sum(1 for _ in ast.walk(ast.Module(body=tail, type_ignores=[]))), "".join(ast.dump(x) for x in tail))
            if kb < ka:
                block = block[:k] + [ast.If(test=negate(st.test), body=tail, orelse=[], lineno=getattr(st, "lineno", 0))] + st.body
            break
    # `if c1: J` ; `if c2: J`  (same jump, pure value)  ->  `if c1 or c2: J`
    fused = []
    for st in block:
        if (
            fused and isinstance(st, ast.If) and not st.orelse and isinstance(fused[-1], ast.If) and not fused[-1].orelse
            and len(st.body) == 1 and isinstance(st.body[0], JUMPS) and not isinstance(st.body[0], ast.Raise)
            and len(fused[-1].body) == 1 and ast.dump(st.body[0]) == ast.dump(fused[-1].body[0])
            and (not isinstance(st.body[0], ast.Return) or st.body[0].value is None or pure_read(st.body[0].value))
        ):
            prev = fused[-1]
            fused[-1] = ast.If(test=ast.BoolOp(op=ast.Or(), values=[prev.test, st.test]), body=prev.body, orelse=[], lineno=getattr(prev, "lineno", 0))
        else:
            fused.append(st)
    block = fused
    # `if c: A else: B` ; `return flag`   ->   the return is sunk into both branches (flag is a local name)
    if len(block) >= 2 and isinstance(block[-1], ast.Return) and isinstance(block[-1].value, ast.Name) and isinstance(block[-2], ast.If) \
            and block[-2].orelse and isinstance(owner, (ast.FunctionDef, ast.AsyncFunctionDef, ast.If)):
        flag = block[-1].value.id
        iff = block[-2]
        assigned = any(isinstance(n, ast.Name) and n.id == flag and isinstance(n.ctx, ast.Store) for n in ast.walk(iff))
        if assigned and not ends_with_jump(iff.body) and not ends_with_jump(iff.orelse):
            block = block[:-2] + [ast.If(test=iff.test, body=iff.body + [copy.deepcopy(block[-1])], orelse=iff.orelse + [copy.deepcopy(block[-1])],
                                         lineno=getattr(iff, "lineno", 0))]
    # `if c: B(ends with a jump)` ; J   (J a jump closing the block)   ->   `if not c: J` ; B
    if len(block) >= 2 and isinstance(block[-1], JUMPS) and isinstance(block[-2], ast.If) and not block[-2].orelse \
            and ends_with_jump(block[-2].body) and len(block[-2].body) > 1 and not (isinstance(block[-1], ast.Return) and block[-1].value is not None and not pure_read(block[-1].value)):
        iff, j = block[-2], block[-1]
        block = block[:-2] + [ast.If(test=negate(iff.test), body=[j], orelse=[], lineno=getattr(iff, "lineno", 0))] + iff.body
    out = []
    i = 0
    while i < len(block):
        st = block[i]
        if isinstance(st, ast.If) and st.orelse:
            body_j, else_j = ends_with_jump(st.body), ends_with_jump(st.orelse)
            if body_j:
                # else after a jump is dedented
                rest = st.orelse
                out.append(ast.If(test=st.test, body=st.body, orelse=[], lineno=getattr(st, "lineno", 0)))
                block = block[:i + 1] + rest + block[i + 1:]
                i += 1
                continue
            if else_j:
                rest = st.body
                out.append(ast.If(test=negate(st.test), body=st.orelse, orelse=[], lineno=getattr(st, "lineno", 0)))
                block = block[:i + 1] + rest + block[i + 1:]
                i += 1
                continue
        out.append(st)
        i += 1
    # trailing `if c: A` of a loop body / function body  ->  guard
    if out and isinstance(out[-1], ast.If) and not out[-1].orelse and field == "body" and not ends_with_jump(out[-1].body):
        last = out[-1]
        if isinstance(owner, (ast.For, ast.While)) and not (len(last.body) == 1 and isinstance(last.body[0], ast.Pass)):
            out[-1:] = [ast.If(test=negate(last.test), body=[ast.Continue()], orelse=[], lineno=getattr(last, "lineno", 0))] + last.body
        elif isinstance(owner, (ast.FunctionDef, ast.AsyncFunctionDef)) and not any(
            isinstance(n, ast.Return) and n.value is not None for n in ast.walk(owner)
        ):
            out[-1:] = [ast.If(test=negate(last.test), body=[ast.Return(value=None)], orelse=[], lineno=getattr(last, "lineno", 0))] + last.body
    # a trailing bare `return` / `continue` that is the last statement of the function / loop body does nothing
    if out and field == "body":
        if isinstance(owner, (ast.For, ast.While)) and isinstance(out[-1], ast.Continue) and len(out) > 1:
            out = out[:-1]
        elif isinstance(owner, (ast.FunctionDef, ast.AsyncFunctionDef)) and isinstance(out[-1], ast.Return) and out[-1].value is None and len(out) > 1:
            out = out[:-1]
    return out


# --------------------------------------------------------------------------- N-copy
def n_adjacent(block, owner, field):
    """t = E ; return t   /   t = E ; X = t      (t used nowhere else)   ->   return E  /  X = E       (any E: nothing runs
    between the two);   under `if x is None [and ..]:` a leading `x = None` does nothing"""
    out = []
    for st in block:
        if isinstance(st, ast.If) and st.body:
            conj = st.test.values if isinstance(st.test, ast.BoolOp) and isinstance(st.test.op, ast.And) else [st.test]
            nones = {c.left.id for c in conj if isinstance(c, ast.Compare) and len(c.ops) == 1 and isinstance(c.ops[0], ast.Is)
                     and isinstance(c.left, ast.Name) and isinstance(c.comparators[0], ast.Constant) and c.comparators[0].value is None}
            # only the first conjunct is known to hold when the later ones are evaluated; all hold in the body
            body = list(st.body)
            while len(body) > 1 and isinstance(body[0], ast.Assign) and len(body[0].targets) == 1 and isinstance(body[0].targets[0], ast.Name) \
                    and body[0].targets[0].id in nones and isinstance(body[0].value, ast.Constant) and body[0].value.value is None:
                body = body[1:]
            st.body = body
        out.append(st)
    res = []
    i = 0
    fn_owner = owner
    while i < len(out):
        st = out[i]
        nxt = out[i + 1] if i + 1 < len(out) else None
        if isinstance(st, ast.Assign) and len(st.targets) == 1 and isinstance(st.targets[0], ast.Name) and nxt is not None:
            t = st.targets[0].id
            sole = (isinstance(nxt, ast.Return) and isinstance(nxt.value, ast.Name) and nxt.value.id == t) or (
                isinstance(nxt, ast.Assign) and isinstance(nxt.value, ast.Name) and nxt.value.id == t
                and not any(_mentions(t, x) for x in nxt.targets))
            if sole and getattr(n_adjacent, "_counts", None) is not None and n_adjacent._counts.get(t) == 2:
                if isinstance(nxt, ast.Return):
                    res.append(ast.Return(value=st.value))
                else:
                    res.append(ast.Assign(targets=nxt.targets, value=st.value, lineno=getattr(st, "lineno", 0)))
                i += 2
                continue
        res.append(st)
        i += 1
    return res


def _mention_counts(fn):
    c = {}
    for n in ast.walk(fn):
        if isinstance(n, ast.Name):
            c[n.id] = c.get(n.id, 0) + 1
        elif isinstance(n, ast.arg):
            c[n.arg] = c.get(n.arg, 0) + 10
    return c


def n_known(fn):
    """`x = C` (a constant) where x is known to hold C already (assigned so earlier on every path, nothing stored
    to x since) does nothing"""
    def scan(block, facts):
        out = []
        for st in block:
            if isinstance(st, ast.Assign) and len(st.targets) == 1 and isinstance(st.targets[0], ast.Name) and isinstance(st.value, ast.Constant):
                x, c = st.targets[0].id, st.value.value
                if x in facts and facts[x] == (type(c), c):
                    continue  # redundant
                facts[x] = (type(c), c)
                out.append(st)
                continue
            # nested blocks see the facts that hold on entry
            if isinstance(st, ast.If):
                st.body = scan(st.body, dict(facts)) or [ast.Pass()]
                st.orelse = scan(st.orelse, dict(facts))
            elif isinstance(st, (ast.For, ast.While)):
                inner = {k: v for k, v in facts.items() if not _stmt_stores(st, k)}
                st.body = scan(st.body, dict(inner)) or [ast.Pass()]
            elif isinstance(st, ast.With):
                st.body = scan(st.body, dict(facts)) or [ast.Pass()]
            for k in list(facts):
                if _stmt_stores(st, k):
                    del facts[k]
            out.append(st)
        return out

    params = {a.arg for a in fn.args.args + fn.args.kwonlyargs}
    glob = {n_ for n in ast.walk(fn) if isinstance(n, (ast.Global, ast.Nonlocal)) for n_ in n.names}
    if not glob and not any(isinstance(n, (ast.Lambda,)) for n in ast.walk(fn)) and not any(
            isinstance(n, ast.FunctionDef) and n is not fn for n in ast.walk(fn)):
        fn.body = scan(fn.body, {}) or [ast.Pass()]
    return fn


def n_store_forward(fn, summ):
    """X.a = E (E a side-effect free read)  ...  X.a   ->   ... E       in the statements of the same block that
    follow, as long as nothing there can change what E or X.a yield"""
    for owner in list(ast.walk(fn)):
        for _, block in list(blocks_of(owner)):
            for i, st in enumerate(block):
                if not (isinstance(st, ast.Assign) and len(st.targets) == 1 and isinstance(st.targets[0], ast.Attribute)
                        and isinstance(st.targets[0].value, ast.Name) and pure_read(st.value) and not fresh_value(st.value)):
                    continue
                path = unparse(st.targets[0])
                e = st.value
                both = ast.Tuple(elts=[copy.deepcopy(e), ast.Attribute(value=ast.Name(id=st.targets[0].value.id, ctx=ast.Load()), attr=st.targets[0].attr, ctx=ast.Load())], ctx=ast.Load())
                for k in range(i + 1, len(block)):
                    s2 = block[k]
                    uses = [n for n in ast.walk(s2) if isinstance(n, ast.Attribute) and isinstance(n.ctx, ast.Load) and unparse(n) == path]
                    if uses:
                        if isinstance(s2, (ast.Assign, ast.AugAssign, ast.Expr, ast.Return)) and _simple_ok(s2, both, summ):
                            class _R(ast.NodeTransformer):
                                def visit_Attribute(s_, node):  # noqa: N805
                                    if isinstance(node.ctx, ast.Load) and unparse(node) == path:
                                        return copy.deepcopy(e)
                                    s_.generic_visit(node)
                                    return node
                            block[k] = _R().visit(s2)
                        else:
                            break
                    if conflicts(both, block[k], summ):
                        break
    return fn


def n_ctor_alias(fn, summ):
    """x = C(.., a, ..)  where C.__init__ stores its parameter as `self.f = p` (unconditionally, first thing it does
    with it):  a later read `x.f` yields the argument `a` -- replaced while nothing can change either"""
    for owner in list(ast.walk(fn)):
        for _, block in list(blocks_of(owner)):
            for i, st in enumerate(block):
                if not (isinstance(st, ast.Assign) and len(st.targets) == 1 and isinstance(st.targets[0], ast.Name) and isinstance(st.value, ast.Call)
                        and isinstance(st.value.func, ast.Name) and st.value.func.id in summ.ctor):
                    continue
                x = st.targets[0].id
                init = summ.ctor[st.value.func.id]
                params = [a.arg for a in init.args.args][1:]
                call = st.value
                if any(isinstance(a, ast.Starred) for a in call.args) or any(k.arg is None for k in call.keywords):
                    continue
                bind = {}
                for k, a in enumerate(call.args):
                    if k < len(params):
                        bind[params[k]] = a
                for k in call.keywords:
                    bind[k.arg] = k.value
                fields = {}
                for s_ in init.body:
                    if isinstance(s_, ast.Assign) and len(s_.targets) == 1 and isinstance(s_.targets[0], ast.Attribute) and isinstance(s_.targets[0].value, ast.Name) \
                            and s_.targets[0].value.id == "self" and isinstance(s_.value, ast.Name) and s_.value.id in bind:
                        if s_.targets[0].attr not in fields:
                            fields[s_.targets[0].attr] = bind[s_.value.id]
                # attributes the constructor (or anything it calls) may store again are left alone
                later_stores = {n.attr for n in ast.walk(init) if isinstance(n, ast.Attribute) and isinstance(n.ctx, ast.Store)}
                counts = {}
                for n in ast.walk(init):
                    if isinstance(n, ast.Attribute) and isinstance(n.ctx, ast.Store) and isinstance(n.value, ast.Name) and n.value.id == "self":
                        counts[n.attr] = counts.get(n.attr, 0) + 1
                fields = {a: v for a, v in fields.items() if counts.get(a) == 1 and pure_read(v) and not fresh_value(v)}
                if not fields:
                    continue
                # the simple, global case: the field is only ever stored by constructors, the argument is a local that
                # is bound once, and so is x: `x.f` is that local wherever it is read
                stores_, _ = _counts(fn)
                if stores_.get(x, 0) == 1:
                    for a, v in list(fields.items()):
                        if a in summ.config_attrs and isinstance(v, ast.Name) and stores_.get(v.id, 0) == 1 \
                                and not any(isinstance(q, ast.arg) and q.arg == v.id for q in ast.walk(fn)):
                            path = f"{x}.{a}"

                            class _G(ast.NodeTransformer):
                                def visit_Attribute(s_, node):  # noqa: N805
                                    if isinstance(node.ctx, ast.Load) and unparse(node) == path:
                                        return ast.Name(id=v.id, ctx=ast.Load())
                                    s_.generic_visit(node)
                                    return node
                            for k in range(i + 1, len(block)):
                                block[k] = _G().visit(block[k])
                            del fields[a]
                for k in range(i + 1, len(block)):
                    s2 = block[k]
                    for a, v in fields.items():
                        path = f"{x}.{a}"
                        probe = ast.Tuple(elts=[copy.deepcopy(v), ast.Attribute(value=ast.Name(id=x, ctx=ast.Load()), attr=a, ctx=ast.Load())], ctx=ast.Load())
                        if any(isinstance(n, ast.Attribute) and isinstance(n.ctx, ast.Load) and unparse(n) == path for n in ast.walk(s2)):
                            if isinstance(s2, (ast.Assign, ast.AugAssign, ast.Expr, ast.Return)) and _simple_ok(s2, probe, summ) and not any(
                                    conflicts(probe, block[j], summ) for j in range(i + 1, k)):
                                class _R(ast.NodeTransformer):
                                    def visit_Attribute(s_, node):  # noqa: N805
                                        if isinstance(node.ctx, ast.Load) and unparse(node) == path:
                                            return copy.deepcopy(v)
                                        s_.generic_visit(node)
                                        return node
                                block[k] = _R().visit(block[k])
                                s2 = block[k]
    return fn


def n_forward(block, owner, field):
    """v = E ; P = v   (P an attribute / subscript path)   ->   P = E ; v = P      (v becomes a cached read of P)"""
    out = list(block)
    for i in range(len(out) - 1):
        a, b = out[i], out[i + 1]
        if (
            isinstance(a, ast.Assign) and len(a.targets) == 1 and isinstance(a.targets[0], ast.Name)
            and isinstance(b, ast.Assign) and len(b.targets) == 1 and isinstance(b.targets[0], (ast.Attribute, ast.Subscript))
            and isinstance(b.value, ast.Name) and b.value.id == a.targets[0].id
            and not _uses(a.targets[0].id, b.targets[0]) and pure_read(b.targets[0])
        ):
            v = a.targets[0].id
            path_load = copy.deepcopy(b.targets[0])
            for n in ast.walk(path_load):
                if hasattr(n, "ctx") and isinstance(n.ctx, ast.Store):
                    n.ctx = ast.Load()
            out[i] = ast.Assign(targets=b.targets, value=a.value, lineno=getattr(a, "lineno", 0))
            out[i + 1] = ast.Assign(targets=[ast.Name(id=v, ctx=ast.Store())], value=path_load, lineno=getattr(b, "lineno", 0))
    return out


def n_split(block, owner, field):
    """a, b = (x, y)  ->  a = x ; b = y     when no target is read by a later component;
    a = o.attr = V  ->  o.attr = V ; a = o.attr      (o a plain name other than a; plain attributes, no setters in the package)"""
    out = []
    for st in block:
        if isinstance(st, ast.Assign) and len(st.targets) == 2 and isinstance(st.targets[0], ast.Name) and isinstance(st.targets[1], ast.Attribute) \
                and isinstance(st.targets[1].value, ast.Name) and st.targets[1].value.id != st.targets[0].id and not _uses(st.targets[0].id, st.value):
            path = st.targets[1]
            out.append(ast.Assign(targets=[path], value=st.value, lineno=getattr(st, "lineno", 0)))
            out.append(ast.Assign(targets=[st.targets[0]], value=ast.Attribute(value=ast.Name(id=path.value.id, ctx=ast.Load()), attr=path.attr, ctx=ast.Load()),
                                  lineno=getattr(st, "lineno", 0)))
            continue
        if isinstance(st, ast.Assign) and len(st.targets) == 2 and isinstance(st.targets[1], ast.Name) and isinstance(st.targets[0], ast.Attribute) \
                and isinstance(st.targets[0].value, ast.Name) and st.targets[0].value.id != st.targets[1].id and not _uses(st.targets[1].id, st.value):
            path = st.targets[0]
            out.append(ast.Assign(targets=[path], value=st.value, lineno=getattr(st, "lineno", 0)))
            out.append(ast.Assign(targets=[st.targets[1]], value=ast.Attribute(value=ast.Name(id=path.value.id, ctx=ast.Load()), attr=path.attr, ctx=ast.Load()),
                                  lineno=getattr(st, "lineno", 0)))
            continue
        if isinstance(st, ast.Assign) and len(st.targets) == 1 and isinstance(st.targets[0], ast.Tuple) and isinstance(st.value, ast.Tuple) \
                and len(st.targets[0].elts) == len(st.value.elts) and all(isinstance(t, ast.Name) for t in st.targets[0].elts) \
                and not any(isinstance(v, ast.Starred) for v in st.value.elts) and all(pure_read(v) for v in st.value.elts):
            tg = [t.id for t in st.targets[0].elts]
            ok = True
            for i, t in enumerate(tg):
                for v in st.value.elts[i + 1:]:
                    if _uses(t, v):
                        ok = False
            if ok and len(set(tg)) == len(tg):
                for t, v in zip(st.targets[0].elts, st.value.elts):
                    out.append(ast.Assign(targets=[t], value=v, lineno=getattr(st, "lineno", 0)))
                continue
        out.append(st)
    return out


def n_coalesce(fn):
    """t = x ; <region using t, not touching x> ; x = t   with t unused elsewhere   ->   the region works on x"""
    for _ in range(20):
        done = False
        for owner in list(ast.walk(fn)):
            for _, block in list(blocks_of(owner)):
                for i, st in enumerate(block):
                    if not (isinstance(st, ast.Assign) and len(st.targets) == 1 and isinstance(st.targets[0], ast.Name) and isinstance(st.value, ast.Name)):
                        continue
                    t, x = st.targets[0].id, st.value.id
                    if t == x:
                        continue
                    for j in range(i + 1, len(block)):
                        s2 = block[j]
                        if isinstance(s2, ast.Assign) and len(s2.targets) == 1 and isinstance(s2.targets[0], ast.Name) and s2.targets[0].id == x \
                                and isinstance(s2.value, ast.Name) and s2.value.id == t:
                            region = block[i + 1:j]
                            if any(_mentions(x, r) for r in region):
                                break
                            # t is not mentioned anywhere else in the function
                            total = sum(1 for n in ast.walk(fn) if (isinstance(n, ast.Name) and n.id == t) or (isinstance(n, ast.arg) and n.arg == t))
                            inside = sum(1 for r in region for n in ast.walk(r) if isinstance(n, ast.Name) and n.id == t) + 2
                            if total != inside:
                                break
                            if any(isinstance(n, (ast.Lambda, ast.FunctionDef)) for r in region for n in ast.walk(r)):
                                break
                            ren = _Rename({t: x})
                            for k in range(i + 1, j):
                                block[k] = ren.visit(block[k])
                            del block[j]
                            del block[i]
                            done = True
                            break
                    if done:
                        break
                    # a = b  where b lives only in the statements just before, starting with a plain `b = ...` of this
                    # block, and a is not mentioned there: those statements can work on a directly
                    a_, b_ = t, x
                    first = None
                    for k in range(i):
                        if _mentions(b_, block[k]):
                            first = k
                            break
                    if first is not None:
                        f0 = block[first]
                        total_b = sum(1 for n in ast.walk(fn) if (isinstance(n, ast.Name) and n.id == b_) or (isinstance(n, ast.arg) and n.arg == b_))
                        inside_b = sum(1 for r in block[first:i + 1] for n in ast.walk(r) if isinstance(n, ast.Name) and n.id == b_)
                        if (
                            isinstance(f0, ast.Assign) and len(f0.targets) == 1 and isinstance(f0.targets[0], ast.Name) and f0.targets[0].id == b_
                            and not _uses(b_, f0.value) and total_b == inside_b
                            and not any(_mentions(a_, r) for r in block[first:i])
                            and not any(isinstance(n, (ast.Lambda, ast.FunctionDef)) for r in block[first:i] for n in ast.walk(r))
                        ):
                            ren = _Rename({b_: a_})
                            for k in range(first, i):
                                block[k] = ren.visit(block[k])
                            del block[i]
                            done = True
                            break
                if done:
                    break
            if done:
                break
        if not done:
            break
    return fn


def _mentions(name, node):
    return any((isinstance(n, ast.Name) and n.id == name) or (isinstance(n, ast.arg) and n.arg == name) for n in ast.walk(node))


# --------------------------------------------------------------------------- N-order
_BARRIERS = (ast.Return, ast.Raise, ast.Break, ast.Continue, ast.Yield, ast.YieldFrom, ast.Await, ast.Try, ast.With, ast.Assert, ast.Global,
             ast.Nonlocal, ast.Import, ast.ImportFrom, ast.FunctionDef, ast.AsyncFunctionDef, ast.ClassDef, ast.Delete, ast.Lambda, ast.NamedExpr,
             ast.While)


def _order_facts(st, summ):
    """what a statement reads and writes, for the question whether two neighbours can be exchanged; None: never moved"""
    if isinstance(st, ast.Expr) and isinstance(st.value, ast.Constant):
        return None
    f = dict(rn=set(), wn=set(), ra=set(), wa=set(), cr=False, cw=False)
    for n in ast.walk(st):
        if isinstance(n, _BARRIERS):
            return None
        if isinstance(n, ast.Name):
            (f["rn"] if isinstance(n.ctx, ast.Load) else f["wn"]).add(n.id)
        elif isinstance(n, ast.Attribute):
            (f["ra"] if isinstance(n.ctx, ast.Load) else f["wa"]).add(n.attr)
            if n.attr in _COMPUTING_PROPS and n.attr not in _PURE_PACKAGE:
                return None
        elif isinstance(n, ast.Subscript):
            if isinstance(n.ctx, ast.Load):
                f["cr"] = True
            else:
                f["cw"] = True
        elif isinstance(n, (ast.For, ast.comprehension, ast.Starred)):
            f["cr"] = True
        elif isinstance(n, ast.Compare) and any(isinstance(o, (ast.In, ast.NotIn, ast.Eq, ast.NotEq, ast.Lt, ast.Gt, ast.LtE, ast.GtE)) for o in n.ops):
            f["cr"] = True  # (== on the package's objects compares fields and contents)
        elif isinstance(n, ast.AugAssign):
            f["cr"] = f["cw"] = True if not isinstance(n.target, ast.Name) else f["cw"]
            if isinstance(n.target, ast.Name):
                f["rn"].add(n.target.id)
                f["cw"] = True  # `x += [..]` extends in place
        elif isinstance(n, ast.Call):
            w, unk = summ.call_effect(n)
            if unk or summ.call_may_raise(n):
                return None
            f["wa"] |= w
            f["cr"] = True
            fn_ = n.func
            cname = fn_.attr if isinstance(fn_, ast.Attribute) else fn_.id if isinstance(fn_, ast.Name) else None
            if (isinstance(fn_, ast.Attribute) and fn_.attr in MUTATORS) or w or (cname is not None and summ.call_mutates_args(cname)):
                f["cw"] = True
    return f


def _commute(a, b):
    if a is None or b is None:
        return False
    if a["wn"] & (b["rn"] | b["wn"]) or b["wn"] & a["rn"]:
        return False
    if a["wa"] & (b["ra"] | b["wa"]) or b["wa"] & a["ra"]:
        return False
    if (a["cw"] and (b["cr"] or b["cw"])) or (b["cw"] and a["cr"]):
        return False
    return True


class _Mask(ast.NodeTransformer):
    def visit_Name(self, node):
        return ast.Name(id="_", ctx=node.ctx)


def n_order(block, summ):
    """neighbouring statements that cannot influence one another (disjoint names, disjoint attribute names, at most one of
    them touching container contents, neither able to raise on its own account or to run unknown code, no jumps) are put
    into a canonical order: the least linearisation of the dependence order by the statements' text with locals masked"""
    if len(block) < 2:
        return block
    facts = [_order_facts(s, summ) for s in block]
    if sum(1 for x in facts if x is not None) < 2:
        return block
    keys = [ast.dump(_Mask().visit(copy.deepcopy(s))) for s in block]
    n = len(block)
    deps = [set() for _ in range(n)]
    for j in range(n):
        for i in range(j):
            if not _commute(facts[i], facts[j]):
                deps[j].add(i)
    done, out = set(), []
    while len(out) < n:
        ready = [k for k in range(n) if k not in done and deps[k] <= done]
        k = min(ready, key=lambda q: (keys[q], q))
        done.add(k)
        out.append(block[k])
    return out


# --------------------------------------------------------------------------- N-webs
def n_webs(fn):
    """a local that is assigned several times, every time by a plain statement-level assignment whose value is read only
    by the statements that follow it in the same block up to the next such assignment: each assignment starts a variable
    of its own (so a name that is reused for unrelated values does not tie the two uses together)"""
    params = {a.arg for a in ast.walk(fn) if isinstance(a, ast.arg)}
    glob = {nm for n in ast.walk(fn) if isinstance(n, (ast.Global, ast.Nonlocal)) for nm in n.names}
    lazy = set()
    for n in ast.walk(fn):
        if isinstance(n, (ast.Lambda, ast.GeneratorExp)) or (isinstance(n, (ast.FunctionDef, ast.AsyncFunctionDef, ast.ClassDef)) and n is not fn):
            lazy |= {x.id for x in ast.walk(n) if isinstance(x, ast.Name)}
            if not isinstance(n, (ast.Lambda, ast.GeneratorExp)):
                lazy.add(n.name)
    stores = {}
    for n in ast.walk(fn):
        if isinstance(n, ast.Name) and isinstance(n.ctx, (ast.Store, ast.Del)):
            stores.setdefault(n.id, []).append(n)
    par = None
    for name, nodes in stores.items():
        if len(nodes) < 2 or name in params or name in glob or name in lazy:
            continue
        if par is None:
            par = _parents(fn)
        ok = True
        store_stmts = []
        for sn in nodes:
            if not isinstance(sn.ctx, ast.Store):
                ok = False
                break
            p = par.get(id(sn))
            p2 = par.get(id(p)) if isinstance(p, ast.Tuple) else p
            if not (isinstance(p2, ast.Assign) and any(t is sn or t is p for t in p2.targets)) or _uses(name, p2.value):
                ok = False
                break
            store_stmts.append(p2)
        if not ok or len({id(x) for x in store_stmts}) != len(store_stmts):
            continue
        ranges = []
        for stt in store_stmts:
            owner = par.get(id(stt))
            blk = None
            for _, b in blocks_of(owner) if owner is not None else []:
                if any(x is stt for x in b):
                    blk = b
            if blk is None:
                ok = False
                break
            i = next(k for k, x in enumerate(blk) if x is stt)
            j = len(blk)
            for k in range(i + 1, len(blk)):
                if any(blk[k] is x for x in store_stmts):
                    j = k
                    break
            rng = blk[i + 1:j]
            if any(_stmt_stores(r, name) for r in rng):
                ok = False
                break
            ranges.append((stt, rng))
        if not ok:
            continue
        covered = set()
        for stt, rng in ranges:
            for r in rng:
                for n in ast.walk(r):
                    if isinstance(n, ast.Name) and n.id == name:
                        covered.add(id(n))
        loads = [n for n in ast.walk(fn) if isinstance(n, ast.Name) and n.id == name and isinstance(n.ctx, ast.Load)]
        if any(id(n) not in covered for n in loads):
            continue
        for k, (stt, rng) in enumerate(ranges):
            new = f"{name}__w{k}"
            for t in stt.targets:
                for n in ast.walk(t):
                    if isinstance(n, ast.Name) and n.id == name and isinstance(n.ctx, ast.Store):
                        n.id = new
            for r in rng:
                for n in ast.walk(r):
                    if isinstance(n, ast.Name) and n.id == name:
                        n.id = new
    return fn


# --------------------------------------------------------------------------- N-temp
def _stores(fn, name):
    n = 0
    for x in ast.walk(fn):
        if isinstance(x, ast.Name) and x.id == name and isinstance(x.ctx, (ast.Store, ast.Del)):
            n += 1
        elif isinstance(x, ast.arg) and x.arg == name:
            n += 1
        elif isinstance(x, (ast.Global, ast.Nonlocal)) and name in x.names:
            n += 10
    return n


class _Subst(ast.NodeTransformer):
    def __init__(self, name, value):
        self.name, self.value = name, value

    def visit_Name(self, node):
        if node.id == self.name and isinstance(node.ctx, ast.Load):
            return copy.deepcopy(self.value)
        return node


def _counts(fn):
    stores, loads = {}, {}
    for x in ast.walk(fn):
        if isinstance(x, ast.Name):
            if isinstance(x.ctx, (ast.Store, ast.Del)):
                stores[x.id] = stores.get(x.id, 0) + 1
            else:
                loads[x.id] = loads.get(x.id, 0) + 1
        elif isinstance(x, ast.arg):
            stores[x.arg] = stores.get(x.arg, 0) + 1
        elif isinstance(x, (ast.Global, ast.Nonlocal)):
            for nm in x.names:
                stores[nm] = stores.get(nm, 0) + 10
        elif isinstance(x, (ast.FunctionDef, ast.AsyncFunctionDef)) and x is not fn:
            stores[x.name] = stores.get(x.name, 0) + 1
        elif isinstance(x, ast.ExceptHandler) and x.name:
            stores[x.name] = stores.get(x.name, 0) + 1
    return stores, loads


def _parents(fn):
    par = {}
    for n in ast.walk(fn):
        for c in ast.iter_child_nodes(n):
            par[id(c)] = n
    return par


def _stmt_stores(st, name):
    return any(
        (isinstance(n, ast.Name) and n.id == name and isinstance(n.ctx, (ast.Store, ast.Del)))
        or (isinstance(n, (ast.FunctionDef, ast.AsyncFunctionDef)) and n.name == name)
        for n in ast.walk(st)
    )


def _must_store(st, name):
    """does executing st (to its normal end) always rebind name?"""
    if isinstance(st, ast.Assign):
        return any(isinstance(t, ast.Name) and t.id == name for t in st.targets) or any(
            isinstance(t, ast.Tuple) and any(isinstance(e, ast.Name) and e.id == name for e in t.elts) for t in st.targets)
    if isinstance(st, ast.If) and st.orelse:
        return any(_must_store(x, name) for x in st.body) and any(_must_store(x, name) for x in st.orelse)
    if isinstance(st, ast.With):
        return any(_must_store(x, name) for x in st.body)
    return False


def _shielded(load, name, exclude, fn, par):
    """is there, on every path to `load`, a plain store `name = ...` other than `exclude` that comes after any
    point where `exclude` could have run?  Syntactic: some enclosing block has, before the statement holding
    the load, a top-level `name = ...` (not `exclude`)."""
    node = load
    while id(node) in par:
        parent = par[id(node)]
        for _, blk in blocks_of(parent):
            if node in blk:
                idx = blk.index(node)
                for k in range(idx - 1, -1, -1):
                    s = blk[k]
                    if s is exclude:
                        return False  # the excluded definition itself is the nearest store on this level
                    if _must_store(s, name) and not any(x is exclude for x in ast.walk(s)):
                        return True
                    if isinstance(s, (ast.For, ast.With)) and any(isinstance(n, ast.Name) and n.id == name for n in ast.walk(s.target if isinstance(s, ast.For) else s)) and False:
                        return True
                    if _stmt_stores(s, name):
                        return False  # a conditional / nested store: cannot tell
        if isinstance(parent, ast.For) and node is not parent.iter and any(isinstance(n, ast.Name) and n.id == name for n in ast.walk(parent.target)):
            return True  # the loop variable is bound anew for every iteration
        if isinstance(parent, (ast.While, ast.For)) and any(x is exclude for x in ast.walk(parent)):
            # the load is in a loop that also holds the definition: it can be reached over the back edge, and no
            # store inside the loop shields it (none was found on the way up)
            if not (isinstance(parent, ast.For) and node is parent.iter):
                return False
        if parent is fn:
            return False
        node = parent
    return False


def _has_use(node, mine):
    return any(id(n) in mine for n in ast.walk(node))


def _simple_ok(s, e, summ):
    """a simple statement that holds a use: its calls must not change what e reads (their order relative to the
    use inside the statement is not tracked)"""
    rn, ra, rc = reads_of(e)
    for c in ast.walk(s):
        if isinstance(c, ast.Call):
            w, unk = summ.call_effect(c)
            if (ra & w) or (unk and _unstable(e, summ)) or (
                isinstance(c.func, ast.Attribute) and c.func.attr in MUTATORS and unparse(c.func.value) in rc):
                return False
            cname = c.func.attr if isinstance(c.func, ast.Attribute) else c.func.id if isinstance(c.func, ast.Name) else None
            if cname is not None and summ.call_mutates_args(cname):
                for a in list(c.args) + [k.value for k in c.keywords]:
                    a = a.value if isinstance(a, ast.Starred) else a
                    if unparse(a) in rc or (isinstance(a, ast.Attribute) and a.attr in ra):
                        return False
    return True


def _scan_uses(stmts, t, e, summ, mine, tainted):
    """walk the statements in execution order; `tainted[0]` becomes true once something that may change what e
    reads has run on the current path; a use reached while tainted makes the inlining unsound.  Branches are
    followed separately; a loop body is checked as a whole (it may run again)."""
    for s in stmts:
        if not _has_use(s, mine):
            if conflicts(e, s, summ):
                tainted[0] = True
            continue
        if tainted[0]:
            return False
        if isinstance(s, ast.If):
            if _has_use(s.test, mine) or any(isinstance(c, ast.Call) for c in ast.walk(s.test)):
                if not _simple_ok(ast.Expr(value=s.test), e, summ):
                    return False
            t1, t2 = [tainted[0]], [tainted[0]]
            if conflicts(e, ast.Expr(value=s.test), summ):
                t1[0] = t2[0] = True
                if _has_use(ast.Module(body=s.body + s.orelse, type_ignores=[]), mine):
                    return False
            if not _scan_uses(s.body, t, e, summ, mine, t1) or not _scan_uses(s.orelse, t, e, summ, mine, t2):
                return False
            # a branch that ends in a jump does not continue to what follows
            tainted[0] = (t1[0] and not ends_with_jump(s.body)) or (t2[0] and not ends_with_jump(s.orelse)) or (
                tainted[0] and not s.orelse and False)
        elif isinstance(s, (ast.For, ast.While, ast.With, ast.Try)):
            if conflicts(e, s, summ):
                return False
        elif isinstance(s, (ast.Assign, ast.AugAssign, ast.Return, ast.Expr, ast.Raise, ast.Assert, ast.Delete)):
            if not _simple_ok(s, e, summ):
                return False
            if conflicts(e, s, summ):
                tainted[0] = True  # the statement's own store comes after its reads
        else:
            return False
    return True


_CONSUMERS = {"len", "any", "all", "sum", "min", "max", "sorted", "list", "tuple", "set", "frozenset", "bool"}


def _reiterable(e):
    if isinstance(e, (ast.List, ast.Set, ast.Dict, ast.Tuple, ast.ListComp, ast.SetComp, ast.DictComp)):
        return True
    return isinstance(e, ast.Call) and isinstance(e.func, ast.Name) and e.func.id in ("list", "set", "sorted", "tuple", "dict", "frozenset")


def _iteration_use(load, par):
    p = par.get(id(load))
    if isinstance(p, ast.comprehension):
        return p.iter is load
    if isinstance(p, ast.For):
        return p.iter is load
    if isinstance(p, ast.Call):
        return isinstance(p.func, ast.Name) and p.func.id in _CONSUMERS and len(p.args) == 1 and p.args[0] is load and not p.keywords
    if isinstance(p, ast.Compare):
        return len(p.ops) == 1 and isinstance(p.ops[0], (ast.In, ast.NotIn)) and p.comparators[0] is load
    return False


def _try_inline(fn, block, i, summ, stores, loads):
    st = block[i]
    t = st.targets[0].id
    e = st.value
    if _uses(t, e):
        return False
    if not pure_read(e):
        # a generator expression runs its element expression where it is consumed, whichever form is written
        if not (isinstance(e, ast.GeneratorExp) and pure_read(e.generators[0].iter)):
            return False
    if any(isinstance(a, ast.arg) and a.arg == t for a in ast.walk(fn)) or stores.get(t, 0) >= 10:
        return False  # a parameter / global
    later = block[i + 1:]
    # the region this definition reaches within its block: up to the next statement that stores t
    end = len(later)
    for k, s in enumerate(later):
        if _stmt_stores(s, t):
            end = k
            break
    region = later[:end]
    nxt = later[end] if end < len(later) else None
    region_loads = [n for s in region for n in ast.walk(s) if isinstance(n, ast.Name) and n.id == t and isinstance(n.ctx, ast.Load)]
    # loads in the value of the statement that re-stores t (`t = f(t)`) still see this definition
    tail_loads = []
    if nxt is not None and isinstance(nxt, (ast.Assign, ast.AugAssign)) and not isinstance(nxt, ast.AugAssign):
        if all(isinstance(x, ast.Name) for x in nxt.targets):
            tail_loads = [n for n in ast.walk(nxt.value) if isinstance(n, ast.Name) and n.id == t and isinstance(n.ctx, ast.Load)]
    all_loads = [n for n in ast.walk(fn) if isinstance(n, ast.Name) and n.id == t and isinstance(n.ctx, ast.Load)]
    mine = {id(n) for n in region_loads} | {id(n) for n in tail_loads}
    others = [n for n in all_loads if id(n) not in mine]
    if others:
        par = _parents(fn)
        if not all(_shielded(n, t, st, fn, par) for n in others):
            return False  # this definition may reach a use outside the region
    n_uses = len(mine)
    iter_only = False
    if fresh_value(e) and _reiterable(e):
        # a container built here and only ever iterated / measured: which object it is cannot be observed
        par_ = _parents(fn)
        iter_only = all(_iteration_use(n_, par_) for s_ in region + ([nxt] if tail_loads else []) for n_ in ast.walk(s_) if id(n_) in mine)
    if fresh_value(e) and n_uses > 1 and not iter_only:
        return False  # a fresh object shared by several uses
    if fresh_value(e) and not iter_only:
        for s_ in region + ([nxt] if tail_loads else []):
            for n_ in ast.walk(s_):
                if isinstance(n_, (ast.For, ast.While, ast.ListComp, ast.SetComp, ast.DictComp, ast.GeneratorExp)) and any(id(x) in mine for x in ast.walk(n_)):
                    once = isinstance(n_, ast.For) and any(id(x) in mine for x in ast.walk(n_.iter)) and not any(
                        id(x) in mine for b_ in n_.body + n_.orelse for x in ast.walk(b_))
                    if not isinstance(n_, (ast.For, ast.While)):
                        # the first iterable of a comprehension is evaluated once, where the comprehension is written
                        first = n_.generators[0].iter
                        inside = sum(1 for x in ast.walk(n_) if id(x) in mine)
                        once = inside == sum(1 for x in ast.walk(first) if id(x) in mine)
                    if not once:
                        return False  # defined once, used once per iteration: one object shared by all iterations
    scope = region + ([nxt] if tail_loads else [])
    for s_ in scope:
        for n_ in ast.walk(s_):
            if isinstance(n_, (ast.Lambda, ast.FunctionDef, ast.AsyncFunctionDef)) and _uses(t, n_):
                return False  # the value would be read when the closure runs, not where it is defined
    if n_uses == 0:
        del block[i]  # a store nothing reads
        return True
    # a generator expression evaluates only its first iterable where it is written; the rest runs where it is consumed,
    # which is the use in both forms
    e_now = e.generators[0].iter if isinstance(e, ast.GeneratorExp) else e
    if not _scan_uses(scope, t, e_now, summ, mine, [False]):
        return False
    sub = _Subst(t, e)
    for k in range(i + 1, i + 1 + len(scope)):
        block[k] = sub.visit(block[k]) if k < i + 1 + len(region) else block[k]
    if tail_loads:
        nxt.value = sub.visit(nxt.value)
    del block[i]
    return True


def n_temp(fn, summ):
    _W_CACHE.clear()
    for _ in range(60):
        stores, loads = _counts(fn)
        progressed = False
        for owner in list(ast.walk(fn)):
            for _, block in list(blocks_of(owner)):
                i = 0
                while i < len(block):
                    st = block[i]
                    if isinstance(st, ast.Assign) and len(st.targets) == 1 and isinstance(st.targets[0], ast.Name) \
                            and _try_inline(fn, block, i, summ, stores, loads):
                        progressed = True
                        stores, loads = _counts(fn)
                        continue
                    i += 1
        if not progressed:
            break
    return fn


# --------------------------------------------------------------------------- N-helper
def _inlinable(h):
    body = [s for s in h.body if not (isinstance(s, ast.Expr) and isinstance(s.value, ast.Constant))]
    if not body:
        return None
    if any(isinstance(n, ast.Call) and ((isinstance(n.func, ast.Name) and n.func.id == h.name) or (
            isinstance(n.func, ast.Attribute) and n.func.attr == h.name)) for n in ast.walk(h)):
        return None  # recursive
    if any(isinstance(n, (ast.Yield, ast.YieldFrom, ast.Await, ast.Global, ast.Nonlocal)) for n in ast.walk(h)):
        return None
    if h.args.vararg or h.args.kwarg or h.args.kwonlyargs or h.args.posonlyargs:
        return None
    decos = [unparse(d) for d in h.decorator_list]
    if any(d not in ("staticmethod",) for d in decos):
        return None
    rets = [n for s in body for n in ast.walk(s) if isinstance(n, ast.Return)]
    if len(rets) == 2 and rets[-1] is body[-1] and len(body) >= 2 and isinstance(body[-2], (ast.For, ast.While)) and not body[-2].orelse \
            and body[-1].value is not None and isinstance(body[-1].value, ast.Constant) and rets[0].value is not None:
        # search loop:  for ..: [if ..:] return V ;  return <constant>
        loop = body[-2]
        inner_loops = [n for n in ast.walk(loop) if isinstance(n, (ast.For, ast.While)) and n is not loop]
        if not any(rets[0] in list(ast.walk(il)) for il in inner_loops) and not any(isinstance(n, (ast.Break,)) for n in ast.walk(loop)):
            h._pgv_search_loop = True
            return body
        return None
    if len(rets) > 1:
        return None
    if rets and rets[0] is not body[-1]:
        return None
    if any(isinstance(n, (ast.FunctionDef, ast.Lambda)) for s in body for n in ast.walk(s)):
        return None
    return body


class _Rename(ast.NodeTransformer):
    def __init__(self, mapping):
        self.mapping = mapping

    def visit_Name(self, node):
        if node.id in self.mapping:
            v = self.mapping[node.id]
            if isinstance(v, str):
                node.id = v
                return node
            if isinstance(node.ctx, ast.Load):
                return copy.deepcopy(v)
        return node


def _tree_inlinable(h):
    """a helper all of whose `return`s sit under plain `if`s (none in a loop / try / with): its body is a decision tree
    whose leaves are the returns"""
    body = [s for s in h.body if not (isinstance(s, ast.Expr) and isinstance(s.value, ast.Constant))]
    if not body:
        return None
    if any(isinstance(n, ast.Call) and ((isinstance(n.func, ast.Name) and n.func.id == h.name) or (
            isinstance(n.func, ast.Attribute) and n.func.attr == h.name)) for n in ast.walk(h)):
        return None
    if any(isinstance(n, (ast.Yield, ast.YieldFrom, ast.Await, ast.Global, ast.Nonlocal, ast.Lambda)) for n in ast.walk(h)):
        return None
    if any(isinstance(n, (ast.FunctionDef, ast.AsyncFunctionDef, ast.ClassDef)) for s in body for n in ast.walk(s)):
        return None
    if h.args.vararg or h.args.kwarg or h.args.kwonlyargs or h.args.posonlyargs:
        return None
    if any(unparse(d) not in ("staticmethod",) for d in h.decorator_list):
        return None

    def ok(stmts):
        for st in stmts:
            if isinstance(st, ast.If):
                if not ok(st.body) or not ok(st.orelse):
                    return False
            elif not isinstance(st, ast.Return) and any(isinstance(n, ast.Return) for n in ast.walk(st)):
                return False
        return True
    return body if ok(body) else None


def _always_returns(stmts):
    if not stmts:
        return False
    last = stmts[-1]
    if isinstance(last, (ast.Return, ast.Raise)):
        return True
    return isinstance(last, ast.If) and bool(last.orelse) and _always_returns(last.body) and _always_returns(last.orelse)


def _return_tree(stmts, leaf):
    """the statements with every `return E` replaced by leaf(E) and whatever follows an `if` that returns on some path
    moved into the branches that fall through"""
    out = []
    for i, st in enumerate(stmts):
        if isinstance(st, ast.Return):
            out.extend(leaf(st.value))
            return out
        if isinstance(st, ast.If) and any(isinstance(n, ast.Return) for n in ast.walk(st)):
            rest = stmts[i + 1:]
            body = _return_tree(list(st.body) + ([] if _always_returns(st.body) else [copy.deepcopy(x) for x in rest]), leaf)
            orelse = _return_tree(list(st.orelse) + ([] if _always_returns(st.orelse) else [copy.deepcopy(x) for x in rest]), leaf)
            out.append(ast.If(test=st.test, body=body or [ast.Pass()], orelse=orelse, lineno=0))
            return out
        out.append(st)
        if isinstance(st, ast.Raise):
            return out
    out.extend(leaf(None))
    return out


def n_helper(fn, helpers, counter):
    """helpers: {('self', name) | ('', name): FunctionDef} of callables that do not exist in the reference"""
    if not helpers:
        return fn

    def callee(call):
        f = call.func
        if isinstance(f, ast.Attribute) and isinstance(f.value, ast.Name) and f.value.id in ("self", "cls") and ("self", f.attr) in helpers:
            return helpers[("self", f.attr)], True
        if isinstance(f, ast.Attribute) and ("self", f.attr) in helpers and "staticmethod" in [unparse(d) for d in helpers[("self", f.attr)].decorator_list]:
            return helpers[("self", f.attr)], True
        if isinstance(f, ast.Name) and ("", f.id) in helpers:
            return helpers[("", f.id)], False
        return None, False

    def bind_args(call, h, is_method):
        params = [a.arg for a in h.args.args]
        static = "staticmethod" in [unparse(d) for d in h.decorator_list]
        if is_method and not static:
            params = params[1:]
        defaults = h.args.defaults
        n_req = len(params) - len(defaults)
        bind = {}
        for i, a in enumerate(call.args):
            if isinstance(a, ast.Starred) or i >= len(params):
                return None
            bind[params[i]] = a
        for k in call.keywords:
            if k.arg is None or k.arg not in params or k.arg in bind:
                return None
            bind[k.arg] = k.value
        for i, p in enumerate(params):
            if p not in bind:
                if i >= n_req:
                    bind[p] = defaults[i - n_req]
                else:
                    return None
        return params, bind

    def expand(call, h, is_method, leaf):
        """statements that replace the statement holding the call; leaf(E) gives the statements for a returned value E"""
        variants = [h] + ([h._pgv_simplified] if getattr(h, "_pgv_simplified", None) is not None else [])
        body = None
        for hv in variants:
            body = _inlinable(hv)
            if body is not None:
                h = hv
                break
        tree = False
        if body is None:
            for hv in variants:
                body = _tree_inlinable(hv)
                if body is not None:
                    h = hv
                    tree = True
                    break
        if body is None:
            return None
        pb = bind_args(call, h, is_method)
        if pb is None:
            return None
        params, bind = pb
        counter[0] += 1
        tag = f"__h{counter[0]}_"
        locals_ = {n.id for s in body for n in ast.walk(s) if isinstance(n, ast.Name) and isinstance(n.ctx, (ast.Store, ast.Del))}
        mapping = {loc: tag + loc for loc in locals_ | set(params)}
        pre = [ast.Assign(targets=[ast.Name(id=tag + p, ctx=ast.Store())], value=copy.deepcopy(bind[p]), lineno=0) for p in params]
        new_body = [_Rename(dict(mapping)).visit(copy.deepcopy(s)) for s in body]
        if tree:
            return pre + _return_tree(new_body, leaf)
        if getattr(h, "_pgv_search_loop", False):
            # result variable: assigned the default, overwritten (and the loop left) where the helper returned
            res = tag + "result"
            default = new_body[-1].value
            loop = new_body[-2]

            class _Ret(ast.NodeTransformer):
                def _blk(s_, blk):  # noqa: N805
                    out = []
                    for x in blk:
                        if isinstance(x, ast.Return):
                            out.append(ast.Assign(targets=[ast.Name(id=res, ctx=ast.Store())], value=x.value, lineno=0))
                            out.append(ast.Break())
                        else:
                            out.append(s_.visit(x))
                    return out

                def visit_If(s_, node):  # noqa: N805
                    node.body = s_._blk(node.body)
                    node.orelse = s_._blk(node.orelse)
                    return node

                def visit_For(s_, node):  # noqa: N805
                    node.body = s_._blk(node.body)
                    return node

                visit_While = visit_For

            loop = _Ret().visit(loop)
            stmts = pre + new_body[:-2] + [ast.Assign(targets=[ast.Name(id=res, ctx=ast.Store())], value=default, lineno=0), loop]
            return stmts + leaf(ast.Name(id=res, ctx=ast.Load()))
        ret = None
        if new_body and isinstance(new_body[-1], ast.Return):
            ret = new_body[-1].value
            new_body = new_body[:-1]
        return pre + new_body + leaf(ret)

    def expr_inline(node):
        """a call of a helper that is a single `return <expr>`, inside an expression"""
        h2, is_m2 = callee(node)
        if h2 is None:
            return node
        for hv in [h2] + ([h2._pgv_simplified] if getattr(h2, "_pgv_simplified", None) is not None else []):
            b2 = _inlinable(hv)
            if b2 is None or len(b2) != 1 or not isinstance(b2[0], ast.Return) or b2[0].value is None:
                continue
            pb = bind_args(node, hv, is_m2)
            if pb is None:
                continue
            params, bind = pb
            expr = b2[0].value
            if any(isinstance(n, (ast.Lambda, ast.NamedExpr)) for n in ast.walk(expr)):
                continue
            uses = {p_: [n for n in ast.walk(expr) if isinstance(n, ast.Name) and n.id == p_] for p_ in params}
            if not all(pure_read(bind[p_]) for p_ in params):
                # an argument whose evaluation may do something: it must be evaluated exactly once and in the order of the
                # call -- every parameter is read once, outside any comprehension, in parameter order, and nothing else in
                # the expression does anything
                skeleton = _Rename({p_: ast.Constant(value=0) for p_ in params}).visit(copy.deepcopy(expr))
                in_comp = {id(n) for c in ast.walk(expr) if isinstance(c, (ast.ListComp, ast.SetComp, ast.DictComp, ast.GeneratorExp, ast.IfExp, ast.BoolOp))
                           for n in ast.walk(c) if isinstance(n, ast.Name)}
                order = [n.id for n in _eval_order(expr) if isinstance(n, ast.Name) and n.id in params]
                if not pure_read(skeleton) or any(len(u) != 1 for u in uses.values()) or any(id(u[0]) in in_comp for u in uses.values()) \
                        or order != params:
                    continue
            elif not pure_read(expr) and not all(isinstance(bind[p_], (ast.Name, ast.Constant)) for p_ in params):
                # the helper does something between its reads of a parameter: only plain names keep their value
                continue
            return _Rename({p_: bind[p_] for p_ in params}).visit(copy.deepcopy(expr))
        return node

    def on_block(block, owner, field):
        out = []
        for st in block:
            # [e for x in L if helper(x)] with a helper made of statements: as a loop, where the helper can be inlined
            val = st.value if isinstance(st, (ast.Assign, ast.Return)) else None
            if isinstance(val, ast.ListComp) and len(val.generators) == 1 and len(val.generators[0].ifs) == 1 \
                    and isinstance(val.generators[0].ifs[0], ast.Call) and not val.generators[0].is_async:
                hh, _m = callee(val.generators[0].ifs[0])
                if hh is not None and ast.dump(expr_inline(val.generators[0].ifs[0])) == ast.dump(val.generators[0].ifs[0]):
                    counter[0] += 1
                    tag = f"__h{counter[0]}_"
                    g = val.generators[0]
                    ren = _Rename({n.id: tag + n.id for n in ast.walk(g.target) if isinstance(n, ast.Name)})
                    acc = tag + "acc"
                    app = ast.Expr(value=ast.Call(func=ast.Attribute(value=ast.Name(id=acc, ctx=ast.Load()), attr="append", ctx=ast.Load()),
                                                  args=[ren.visit(copy.deepcopy(val.elt))], keywords=[]))
                    loop = ast.For(target=ren.visit(copy.deepcopy(g.target)), iter=g.iter,
                                   body=[ast.If(test=ren.visit(copy.deepcopy(g.ifs[0])), body=[app], orelse=[], lineno=0)], orelse=[], lineno=0)
                    out.append(ast.Assign(targets=[ast.Name(id=acc, ctx=ast.Store())], value=ast.List(elts=[], ctx=ast.Load()), lineno=0))
                    out.append(loop)
                    if isinstance(st, ast.Return):
                        out.append(ast.Return(value=ast.Name(id=acc, ctx=ast.Load())))
                    else:
                        out.append(ast.Assign(targets=st.targets, value=ast.Name(id=acc, ctx=ast.Load()), lineno=0))
                    continue
            call = None
            leaf = None
            if isinstance(st, ast.Expr) and isinstance(st.value, ast.Call):
                call = st.value
                leaf = lambda e: [] if e is None or pure_read(e) else [ast.Expr(value=e)]  # noqa: E731
            elif isinstance(st, ast.Assign) and isinstance(st.value, ast.Call):
                call = st.value
                leaf = lambda e, st=st: [ast.Assign(targets=copy.deepcopy(st).targets, value=e if e is not None else ast.Constant(value=None), lineno=0)]  # noqa: E731
            elif isinstance(st, ast.Return) and isinstance(st.value, ast.Call):
                call = st.value
                leaf = lambda e: [ast.Return(value=e)]  # noqa: E731
            elif isinstance(st, ast.If) and (isinstance(st.test, ast.Call) or (
                    isinstance(st.test, ast.UnaryOp) and isinstance(st.test.op, ast.Not) and isinstance(st.test.operand, ast.Call))):
                neg = not isinstance(st.test, ast.Call)
                call = st.test.operand if neg else st.test

                def leaf(e, st=st, neg=neg):
                    yes, no = (st.orelse, st.body) if neg else (st.body, st.orelse)
                    if e is None or isinstance(e, ast.Constant):
                        return [copy.deepcopy(x) for x in (yes if (e is not None and e.value) else no)]
                    return [ast.If(test=e, body=[copy.deepcopy(x) for x in yes] or [ast.Pass()], orelse=[copy.deepcopy(x) for x in no], lineno=0)]
            done = False
            if call is not None:
                h, is_m = callee(call)
                if h is not None and ast.dump(expr_inline(call)) == ast.dump(call):
                    r = expand(call, h, is_m, leaf)
                    if r is not None:
                        out.extend(r)
                        done = True
            if not done:
                class _E(ast.NodeTransformer):
                    def visit_Call(s, node):  # noqa: N805
                        s.generic_visit(node)
                        return expr_inline(node)
                st = _E().visit(st)
                out.append(st)
        return out

    for _ in range(3):
        rewrite_blocks(fn, on_block)
    return fn


def _eval_order(e):
    """nodes of an expression in (approximate) evaluation order: children left to right, a call's function first"""
    out = []
    for c in ast.iter_child_nodes(e):
        out.extend(_eval_order(c))
    out.append(e)
    return out


# --------------------------------------------------------------------------- final numbering and comparison
class _Number(ast.NodeTransformer):
    def __init__(self, fn):
        self.map = {}
        self.comp_stack = []
        comp_targets = set()
        for n in ast.walk(fn):
            if isinstance(n, (ast.ListComp, ast.SetComp, ast.GeneratorExp, ast.DictComp)):
                for g in n.generators:
                    comp_targets |= {id(x) for x in ast.walk(g.target) if isinstance(x, ast.Name)}
        self.locals = {
            n.id for n in ast.walk(fn)
            if isinstance(n, ast.Name) and isinstance(n.ctx, (ast.Store, ast.Del)) and id(n) not in comp_targets
        }
        for n in ast.walk(fn):
            if isinstance(n, (ast.FunctionDef, ast.AsyncFunctionDef)) and n is not fn:
                self.locals.add(n.name)
                for a in n.args.args + n.args.kwonlyargs:
                    self.locals.add(a.arg)
            if isinstance(n, ast.Lambda):
                for a in n.args.args:
                    self.locals.add(a.arg)
            if isinstance(n, ast.ExceptHandler) and n.name:
                self.locals.add(n.name)
        self.params = {a.arg for a in fn.args.args + fn.args.kwonlyargs} if isinstance(fn, ast.FunctionDef) else set()
        self.locals -= self.params
        self.glob = set()
        for n in ast.walk(fn):
            if isinstance(n, (ast.Global, ast.Nonlocal)):
                self.glob |= set(n.names)
        self.locals -= self.glob

    def _n(self, name):
        if name not in self.locals:
            return name
        if name not in self.map:
            self.map[name] = f"v{len(self.map)}"
        return self.map[name]

    def visit_Name(self, node):
        if self.comp_stack:
            for scope in reversed(self.comp_stack):
                if node.id in scope:
                    node.id = scope[node.id]
                    return node
        node.id = self._n(node.id)
        return node

    def _comp(self, node):
        # comprehension variables live in the comprehension: number them by nesting depth and position
        depth = len(self.comp_stack)
        scope = {}
        k = 0
        for g in node.generators:
            for n in ast.walk(g.target):
                if isinstance(n, ast.Name) and n.id not in scope:
                    scope[n.id] = f"c{depth}_{k}"
                    k += 1
        # the first iterable is evaluated in the enclosing scope
        first = node.generators[0]
        first.iter = self.visit(first.iter)
        self.comp_stack.append(scope)
        first.target = self.visit(first.target)
        first.ifs = [self.visit(i) for i in first.ifs]
        for g in node.generators[1:]:
            g.iter = self.visit(g.iter)
            g.target = self.visit(g.target)
            g.ifs = [self.visit(i) for i in g.ifs]
        if isinstance(node, ast.DictComp):
            node.key = self.visit(node.key)
            node.value = self.visit(node.value)
        else:
            node.elt = self.visit(node.elt)
        self.comp_stack.pop()
        return node

    visit_ListComp = visit_SetComp = visit_GeneratorExp = visit_DictComp = _comp

    def visit_arg(self, node):
        node.arg = self._n(node.arg)
        return node

    def visit_FunctionDef(self, node):
        if node.name in self.locals:
            node.name = self._n(node.name)
        self.generic_visit(node)
        return node

    def visit_ExceptHandler(self, node):
        if node.name:
            node.name = self._n(node.name)
        self.generic_visit(node)
        return node


def _strip_pos(node):
    for n in ast.walk(node):
        for a in ("lineno", "col_offset", "end_lineno", "end_col_offset"):
            if hasattr(n, a):
                try:
                    delattr(n, a)
                except AttributeError:
                    pass
    return node


def _simplify(fn, summ, canon=None):
    prev = None
    for _ in range(6):
        cur_dump = ast.dump(fn)
        if cur_dump == prev:
            break
        prev = cur_dump
        fn = _Expr().visit(fn)
        fn = n_webs(fn)
        n_comp._fn = fn
        rewrite_blocks(fn, n_comp)
        n_comp._fn = None
        rewrite_blocks(fn, n_flow)
        if canon is not None:
            fn = canon(fn)
        rewrite_blocks(fn, n_split)
        rewrite_blocks(fn, n_forward)
        n_adjacent._counts = _mention_counts(fn)
        rewrite_blocks(fn, n_adjacent)
        n_adjacent._counts = None
        fn = n_coalesce(fn)
        fn = n_known(fn)
        fn = n_temp(fn, summ)
        if not os.environ.get("PGV_NO_ORDER"):
            rewrite_blocks(fn, lambda b, o, f_: n_order(b, summ))
        fn = n_store_forward(fn, summ)
        fn = n_ctor_alias(fn, summ)
        fn = _Expr().visit(fn)
    if canon is not None:
        fn = canon(fn)
    return fn


def normal_form(fn, summ, helpers=None, canon=None):
    drop_ = getattr(fn, "_pgv_drop_nested", None)
    fn = copy.deepcopy(fn)
    if drop_:
        fn._pgv_drop_nested = drop_
    counter = [0]
    if helpers:
        for h in helpers.values():
            if not hasattr(h, "_pgv_simplified"):
                h._pgv_simplified = None
                try:
                    h._pgv_simplified = _simplify(copy.deepcopy(h), summ, canon)
                except RecursionError:
                    pass
        fn = n_helper(fn, helpers, counter)
        drop = getattr(fn, "_pgv_drop_nested", None) or set()
        if drop:
            # nested helpers that are no longer referenced after inlining
            still = {n.id for n in ast.walk(fn) if isinstance(n, ast.Name) and isinstance(n.ctx, ast.Load)}
            fn.body = [s_ for s_ in fn.body if not (isinstance(s_, ast.FunctionDef) and s_.name in drop and s_.name not in still)] or [ast.Pass()]
    fn = _simplify(fn, summ, canon)
    # docstring
    if fn.body and isinstance(fn.body[0], ast.Expr) and isinstance(fn.body[0].value, ast.Constant) and isinstance(fn.body[0].value.value, str):
        fn.body = fn.body[1:] or [ast.Pass()]
    fn = _Number(fn).visit(fn)
    ast.fix_missing_locations(fn)
    return ast.dump(fn, annotate_fields=True, include_attributes=False), fn


def funcs_of(tree):
    out = {}
    for st in tree.body:
        if isinstance(st, (ast.FunctionDef, ast.AsyncFunctionDef)):
            out[st.name] = (st, tree.body, None)
        elif isinstance(st, ast.ClassDef):
            for s in st.body:
                if isinstance(s, (ast.FunctionDef, ast.AsyncFunctionDef)):
                    out[f"{st.name}.{s.name}"] = (s, st.body, st)
    return out


def substitute_equivalents(cur_tree, ref_tree, summ, canon=None):
    _PURE_PACKAGE.clear()
    _PURE_PACKAGE.update(summ.pure_names())
    _COMPUTING_PROPS.clear()
    _COMPUTING_PROPS.update(summ.computing_properties())
    return _substitute_equivalents(cur_tree, ref_tree, summ, canon)


def _substitute_equivalents(cur_tree, ref_tree, summ, canon=None):
    """replace in cur_tree every function that is equivalent (modulo the normal form) to its
    reference twin by a copy of the twin; returns {qualname: 'equivalent' | 'differs'}"""
    cf, rf = funcs_of(cur_tree), funcs_of(ref_tree)
    report = {}
    # callables that exist only in the analysed tree (candidate helpers)
    new_helpers = {}
    for q, (fn, _, cls) in cf.items():
        if q not in rf and fn.name.startswith("_") and not (fn.name.startswith("__") and fn.name.endswith("__")):
            new_helpers[("self" if cls is not None else "", fn.name)] = fn
    for key, (rel_, h) in getattr(summ, "foreign_helpers", {}).items():
        new_helpers.setdefault(key, h)
    for q, (fn, container, cls) in cf.items():
        if q not in rf:
            continue
        ref_fn = rf[q][0]
        if ast.dump(fn) == ast.dump(ref_fn):
            continue
        helpers = dict(new_helpers)
        # nested functions that are new
        ref_nested = {n.name for n in ast.walk(ref_fn) if isinstance(n, ast.FunctionDef) and n is not ref_fn}
        fn_work = fn
        nested_new = [n for n in fn.body if isinstance(n, ast.FunctionDef) and n.name not in ref_nested]
        if nested_new:
            fn_work = copy.deepcopy(fn)
            for n in [x for x in fn_work.body if isinstance(x, ast.FunctionDef) and x.name not in ref_nested]:
                helpers[("", n.name)] = n
            fn_work._pgv_drop_nested = {n.name for n in nested_new}
        try:
            a, a_ast = normal_form(fn_work, summ, helpers, canon)
            b, b_ast = normal_form(ref_fn, summ, None, canon)
        except RecursionError:
            report[q] = "differs"
            continue
        if a == b:
            new = copy.deepcopy(ref_fn)
            new._pgv_equivalent_to_reference = True
            ast.copy_location(new, fn)
            idx = container.index(fn)
            container[idx] = new
            report[q] = "equivalent"
        else:
            report[q] = "differs"
            if os.environ.get("PGV_EQUIV_EXPLAIN"):
                import difflib

                d = difflib.unified_diff(ast.unparse(b_ast).split("\n"), ast.unparse(a_ast).split("\n"), "reference", "analysed", lineterm="", n=1)
                print("\n".join(list(d)[:int(os.environ.get("PGV_EQUIV_EXPLAIN") or 40)]))
    return report
