"""Alpha-normalisation of local names against a reference copy of the sources.

Rules name locals of the analysed functions (`t_shift`, `to_revisit`, ...).  A rename of
a local is behaviour preserving and must not change a verdict, so before analysis every
function whose AST differs from the reference copy (pgv/refsrc/, the tree the rules were
confirmed on) is structurally aligned with its reference twin and its *local* names
(variables bound inside the function: assignment / loop / comprehension / lambda / except
targets -- never parameters, globals, attributes) are consistently renamed to the reference
names wherever the alignment pairs them up.  This is a pure alpha-conversion of the
analysed program: it is only used to choose names, never to decide a verdict; code that
has no aligned twin keeps its own names.
"""
from __future__ import annotations

import ast
import builtins
import difflib
import os

REF_DIR = os.path.join(os.path.dirname(os.path.abspath(__file__)), "refsrc")
_BUILTINS = set(dir(builtins))


def _funcs(tree):
    """{qualname: FunctionDef} for module-level functions and methods (nested ones belong
    to their outermost function)."""
    out = {}
    for st in tree.body:
        if isinstance(st, (ast.FunctionDef, ast.AsyncFunctionDef)):
            out[st.name] = st
        elif isinstance(st, ast.ClassDef):
            for s in st.body:
                if isinstance(s, (ast.FunctionDef, ast.AsyncFunctionDef)):
                    out[f"{st.name}.{s.name}"] = s
    return out


def _tokens(fn):
    """structural token stream: (key, node-or-None)"""
    out = []
    for n in ast.walk(fn):
        pass
    todo = [fn]
    while todo:
        n = todo.pop()
        if isinstance(n, ast.Name):
            out.append(("Name", n))
        elif isinstance(n, ast.arg):
            out.append(("arg", n))
        elif isinstance(n, ast.Attribute):
            out.append((("Attribute", n.attr), None))
        elif isinstance(n, ast.Constant):
            out.append((("Constant", repr(n.value)[:24]), None))
        elif isinstance(n, ast.keyword):
            out.append((("keyword", n.arg), None))
        elif isinstance(n, (ast.FunctionDef, ast.AsyncFunctionDef)):
            out.append((("def", n.name if n is not fn else "<self>"), None))
        elif isinstance(n, ast.ExceptHandler):
            out.append((("except", None), n))
        else:
            out.append((type(n).__name__, None))
        todo.extend(reversed(list(ast.iter_child_nodes(n))))
    return out


def _locals(fn):
    """names bound inside fn (incl. nested functions' own locals), minus parameters of fn
    itself and of nested defs (lambda parameters are included), minus global/nonlocal"""
    bound, params, excluded = set(), set(), set()
    for n in ast.walk(fn):
        if isinstance(n, ast.Name) and isinstance(n.ctx, (ast.Store, ast.Del)):
            bound.add(n.id)
        elif isinstance(n, (ast.FunctionDef, ast.AsyncFunctionDef)):
            a = n.args
            for x in a.posonlyargs + a.args + a.kwonlyargs:
                params.add(x.arg)
            if a.vararg:
                params.add(a.vararg.arg)
            if a.kwarg:
                params.add(a.kwarg.arg)
            if n is not fn:
                excluded.add(n.name)
        elif isinstance(n, ast.Lambda):
            for x in n.args.args + n.args.kwonlyargs:
                bound.add(x.arg)
        elif isinstance(n, ast.ExceptHandler) and n.name:
            bound.add(n.name)
        elif isinstance(n, (ast.Global,)):
            excluded.update(n.names)
        elif isinstance(n, ast.ClassDef):
            excluded.add(n.name)
    return {b for b in bound if b not in params and b not in excluded and b not in _BUILTINS}


def rename_function(cur, ref):
    """alpha-rename locals of `cur` (in place) towards the names of `ref`; returns mapping"""
    if ast.dump(cur) == ast.dump(ref):
        return {}
    tc, tr = _tokens(cur), _tokens(ref)
    kc = [k if isinstance(k, tuple) else (k,) for k, _ in tc]
    kr = [k if isinstance(k, tuple) else (k,) for k, _ in tr]
    sm = difflib.SequenceMatcher(None, kc, kr, autojunk=False)
    votes = {}
    for a, b, size in sm.get_matching_blocks():
        for i in range(size):
            nc, nr = tc[a + i][1], tr[b + i][1]
            if nc is None or nr is None:
                continue
            ic = nc.id if isinstance(nc, ast.Name) else nc.arg if isinstance(nc, ast.arg) else nc.name
            ir = nr.id if isinstance(nr, ast.Name) else nr.arg if isinstance(nr, ast.arg) else nr.name
            if ic is None or ir is None:
                continue
            votes.setdefault(ic, {}).setdefault(ir, 0)
            votes[ic][ir] += 1
    lc, lr = _locals(cur), _locals(ref)
    mapping = {}
    for name in lc:
        v = votes.get(name)
        if not v:
            continue
        best, n = max(v.items(), key=lambda kv: kv[1])
        total = sum(v.values())
        if best != name and best in lr and n * 10 >= total * 6:
            mapping[name] = best
    # injective, and never onto a name that stays in use under its own name
    targets = {}
    for k, t in mapping.items():
        targets.setdefault(t, []).append(k)
    for t, ks in targets.items():
        if len(ks) > 1:
            for k in ks:
                mapping.pop(k, None)
    used_unmapped = set()
    for n in ast.walk(cur):
        if isinstance(n, ast.Name) and n.id not in mapping:
            used_unmapped.add(n.id)
        elif isinstance(n, ast.arg) and n.arg not in mapping:
            used_unmapped.add(n.arg)
    # allow swaps/cycles only if the target itself is renamed away; otherwise drop
    changed = True
    while changed:
        changed = False
        for k, t in list(mapping.items()):
            if t in used_unmapped:
                mapping.pop(k)
                used_unmapped.add(k)
                changed = True
    if not mapping:
        return {}
    for n in ast.walk(cur):
        if isinstance(n, ast.Name) and n.id in mapping:
            n.id = mapping[n.id]
        elif isinstance(n, ast.arg) and n.arg in mapping and _is_lambda_arg(cur, n):
            n.arg = mapping[n.arg]
        elif isinstance(n, ast.ExceptHandler) and n.name in mapping:
            n.name = mapping[n.name]
    return mapping


_lambda_args_cache = {}


def _is_lambda_arg(fn, argnode):
    key = id(fn)
    if key not in _lambda_args_cache:
        s = set()
        for n in ast.walk(fn):
            if isinstance(n, ast.Lambda):
                for x in n.args.args + n.args.kwonlyargs:
                    s.add(id(x))
        _lambda_args_cache[key] = s
    return id(argnode) in _lambda_args_cache[key]


def normalise_module(tree, relpath):
    """rename locals in `tree` (in place) towards pgv/refsrc/<relpath>; returns
    {function qualname: {cur name: reference name}}"""
    ref_path = os.path.join(REF_DIR, relpath)
    if not os.path.exists(ref_path):
        return {}
    try:
        with open(ref_path, encoding="utf-8") as f:
            ref = ast.parse(f.read())
        from . import canon

        ref = canon.canonicalise(ref)
    except SyntaxError:
        return {}
    cf, rf = _funcs(tree), _funcs(ref)
    out = {}
    for q, fn in cf.items():
        if q in rf:
            m = rename_function(fn, rf[q])
            if m:
                out[q] = m
    return out


# --------------------------------------------------------------------------- private names
# A consistent rename of a *private* attribute or method of the package (leading underscore,
# not a dunder) is behaviour preserving.  Rules name such members (`_states_traversed`,
# `_do_reductions`, ...), so before analysis a package-wide rename is undone: a private name
# that exists only in the analysed tree is mapped to the private name that exists only in the
# reference copy when the aligned code uses the one exactly where the reference uses the other.


def _is_private(name):
    return isinstance(name, str) and name.startswith("_") and not (name.startswith("__") and name.endswith("__"))


def _private_names(tree):
    out = set()
    for n in ast.walk(tree):
        if isinstance(n, ast.Attribute) and _is_private(n.attr):
            out.add(n.attr)
        elif isinstance(n, (ast.FunctionDef, ast.AsyncFunctionDef)) and _is_private(n.name):
            out.add(n.name)
    return out


def _ptokens(fn):
    """token stream with private member names masked: [(key, private name or None)]"""
    out = []
    todo = [fn]
    while todo:
        n = todo.pop()
        if isinstance(n, ast.Attribute):
            out.append((("Attribute", "<p>" if _is_private(n.attr) else n.attr), n.attr if _is_private(n.attr) else None))
        elif isinstance(n, ast.Name):
            out.append((("Name",), None))
        elif isinstance(n, ast.Constant):
            out.append((("Constant", repr(n.value)[:24]), None))
        elif isinstance(n, (ast.FunctionDef, ast.AsyncFunctionDef)):
            out.append((("def",), None))
        elif isinstance(n, ast.keyword):
            out.append((("keyword", n.arg), None))
        else:
            out.append(((type(n).__name__,), None))
        todo.extend(reversed(list(ast.iter_child_nodes(n))))
    return out


def private_name_map(cur_trees, ref_trees):
    """{name in the analysed tree: name in the reference} for consistently renamed private members.
    cur_trees / ref_trees: {relpath: ast.Module}"""
    pc = set().union(*[_private_names(t) for t in cur_trees.values()]) if cur_trees else set()
    pr = set().union(*[_private_names(t) for t in ref_trees.values()]) if ref_trees else set()
    cur_only, ref_only = pc - pr, pr - pc
    if not cur_only or not ref_only:
        return {}
    votes = {}
    pairs = []
    for rel, ct in cur_trees.items():
        rt = ref_trees.get(rel)
        if rt is None:
            continue
        cf, rf = _funcs(ct), _funcs(rt)
        for q in cf:
            if q in rf:
                pairs.append((cf[q], rf[q]))
        # renamed defs: pair the leftovers of each class / module by similarity
        new = [q for q in cf if q not in rf and _is_private(q.split(".")[-1]) and q.split(".")[-1] in cur_only]
        gone = [q for q in rf if q not in cf and _is_private(q.split(".")[-1]) and q.split(".")[-1] in ref_only]
        cand = []
        for a in new:
            ka = [k for k, _ in _ptokens(cf[a])]
            for b in gone:
                if a.rsplit(".", 1)[0] != b.rsplit(".", 1)[0] and "." in a and "." in b:
                    continue
                kb = [k for k, _ in _ptokens(rf[b])]
                if not (0.5 <= len(ka) / max(len(kb), 1) <= 2):
                    continue
                ratio = difflib.SequenceMatcher(None, ka, kb, autojunk=False).ratio()
                if ratio >= 0.8:
                    cand.append((ratio, a, b))
        used_a, used_b = set(), set()
        for ratio, a, b in sorted(cand, reverse=True):
            if a in used_a or b in used_b:
                continue
            used_a.add(a)
            used_b.add(b)
            na, nb = a.split(".")[-1], b.split(".")[-1]
            votes.setdefault(na, {}).setdefault(nb, 0)
            votes[na][nb] += 5
            pairs.append((cf[a], rf[b]))
    for c, r in pairs:
        if ast.dump(c) == ast.dump(r):
            continue
        tc, tr = _ptokens(c), _ptokens(r)
        sm = difflib.SequenceMatcher(None, [k for k, _ in tc], [k for k, _ in tr], autojunk=False)
        for a, b, size in sm.get_matching_blocks():
            for i in range(size):
                nc, nr = tc[a + i][1], tr[b + i][1]
                if nc and nr and nc != nr and nc in cur_only and nr in ref_only:
                    votes.setdefault(nc, {}).setdefault(nr, 0)
                    votes[nc][nr] += 1
    mapping = {}
    for name, v in votes.items():
        best, n = max(v.items(), key=lambda kv: kv[1])
        if n * 10 >= sum(v.values()) * 8:
            mapping[name] = best
    targets = {}
    for k, t in mapping.items():
        targets.setdefault(t, []).append(k)
    for t, ks in targets.items():
        if len(ks) > 1:
            for k in ks:
                mapping.pop(k, None)
    return mapping


def apply_private_map(tree, mapping):
    if not mapping:
        return
    # module-level private functions are called by plain name (and imported by name)
    module_level = {n.name for n in tree.body if isinstance(n, (ast.FunctionDef, ast.AsyncFunctionDef))}
    imported = {a.name for n in ast.walk(tree) if isinstance(n, ast.ImportFrom) for a in n.names}
    present = {n.id for n in ast.walk(tree) if isinstance(n, ast.Name)}
    by_name = {k: v for k, v in mapping.items() if (k in module_level or k in imported) and v not in present}
    for n in ast.walk(tree):
        if isinstance(n, ast.Name) and n.id in by_name:
            n.id = by_name[n.id]
        elif isinstance(n, ast.ImportFrom):
            for a in n.names:
                if a.name in by_name and a.asname is None:
                    a.name = by_name[a.name]
    for n in ast.walk(tree):
        if isinstance(n, ast.Attribute) and n.attr in mapping:
            n.attr = mapping[n.attr]
        elif isinstance(n, (ast.FunctionDef, ast.AsyncFunctionDef)) and n.name in mapping:
            n.name = mapping[n.name]
        elif (
            isinstance(n, ast.Call) and isinstance(n.func, ast.Name) and n.func.id in ("hasattr", "getattr", "setattr", "delattr")
            and len(n.args) >= 2 and isinstance(n.args[1], ast.Constant) and n.args[1].value in mapping
        ):
            n.args[1].value = mapping[n.args[1].value]
        elif isinstance(n, ast.Assign) and any(isinstance(t, ast.Name) and t.id == "__slots__" for t in n.targets):
            for c in ast.walk(n.value):
                if isinstance(c, ast.Constant) and c.value in mapping:
                    c.value = mapping[c.value]


def load_reference_trees():
    out = {}
    for root, _, files in os.walk(os.path.join(REF_DIR, "parglare")):
        for fn in files:
            if fn.endswith(".py"):
                p = os.path.join(root, fn)
                rel = os.path.relpath(p, REF_DIR)
                try:
                    with open(p, encoding="utf-8") as f:
                        out[rel] = ast.parse(f.read())
                except SyntaxError:
                    pass
    return out
