"""C13 -- repetition, optional, separator, group and greedy syntax mean what the docs say."""
from __future__ import annotations

import ast
import itertools
import re

from ..core import (
    AnalysisError,
    UnknownAtom,
    call_name,
    is_name,
    is_self_attr,
    plain,
    strip_at,
    strip_at_deep,
    unparse,
    walk_no_nested,
)
from ..interp import Interp
from ..table import Atoms, describe, explore, norm_cmp
from .common import func_cfg, kw
from .tables_region import N

MULTS = ("MULT_ONE_OR_MORE", "MULT_ZERO_OR_MORE", "MULT_OPTIONAL")
CODE = {"MULT_ONE_OR_MORE": "1", "MULT_ZERO_OR_MORE": "0", "MULT_OPTIONAL": "opt"}


# ------------------------------------------------------------------ string shape of a name
def str_parts(e):
    """flatten a string-building expression into a canonical template string:
    constants verbatim, interpolated expressions as {text}"""
    e = strip_at(e)[0]
    if isinstance(e, ast.Constant) and isinstance(e.value, str):
        return e.value
    if isinstance(e, ast.JoinedStr):
        out = ""
        for v in e.values:
            if isinstance(v, ast.Constant):
                out += v.value
            elif isinstance(v, ast.FormattedValue) and v.format_spec is None and v.conversion == -1:
                inner = str_parts_or_hole(v.value)
                out += inner
            else:
                raise AnalysisError("unsupported f-string piece in a generated name")
        return out
    if isinstance(e, ast.BinOp) and isinstance(e.op, ast.Add):
        return str_parts_or_hole(e.left) + str_parts_or_hole(e.right)
    if (
        isinstance(e, ast.Call) and isinstance(e.func, ast.Attribute) and e.func.attr == "format"
        and isinstance(e.func.value, ast.Constant) and isinstance(e.func.value.value, str) and not e.keywords
    ):
        fmt = e.func.value.value
        pieces = fmt.split("{}")
        if len(pieces) - 1 != len(e.args):
            raise AnalysisError("format string / argument count mismatch in a generated name")
        out = pieces[0]
        for a, p in zip(e.args, pieces[1:]):
            out += str_parts_or_hole(a) + p
        return out
    raise AnalysisError(f"unsupported string-building expression: {unparse(e)[:70]}")


def str_parts_or_hole(e):
    try:
        return str_parts(e)
    except AnalysisError:
        return "{" + plain(e) + "}"


# ------------------------------------------------------------------ R13.fqn-format
def fqn_template(repo, v):
    """template string make_multiplicity_fqn builds for valuation v (mult, sep, greedy)"""
    f = repo.func("parglare.grammar.make_multiplicity_fqn")
    ps = f.params
    if ps[:3] != ["symbol_name", "multiplicity", "separator_name"]:
        raise AnalysisError(f"make_multiplicity_fqn parameters changed: {ps}")
    has_greedy = "greedy" in ps
    atoms = Atoms()
    atoms.const("multiplicity == None", False).const("multiplicity != None", True)
    atoms.const("multiplicity == MULT_ONE", False).const("multiplicity", True)
    atoms.flag("separator_name", "sep").flag("separator_name != None", "sep")
    atoms.flag("greedy", "greedy")

    def run(atom):
        it = Interp(atom, lambda st, it: None if isinstance(st, ast.Assign) else NotImplemented)
        return it.run(f.body)

    leaves = explore(run, [v], atoms)
    if len(leaves) != 1:
        raise AnalysisError("make_multiplicity_fqn: ambiguous path for a fixed valuation")
    ex = leaves[0].result
    if ex.kind != "return" or ex.value is None:
        return None, leaves[0]
    return str_parts(ex.value), leaves[0]


def rule_fqn_format(rep):
    with rep.rule(
        "R13.name-key",
        "the helper-rule name is an injective function of every reference attribute that shapes "
        "the helper (base name, multiplicity, separator, greedy) and the lookup passes all of them",
    ) as r:
        repo = rep.repo
        f = repo.func("parglare.grammar.make_multiplicity_fqn")
        # code of each multiplicity
        nb = next(
            (st.value for st in walk_no_nested(f.node)
             if isinstance(st, ast.Assign) and is_name(st.targets[0], "name_by_mult") and isinstance(st.value, ast.Dict)),
            None,
        )
        r.need(nb is not None, "name_by_mult table not found")
        codes = {unparse(k): v.value for k, v in zip(nb.keys, nb.values) if isinstance(v, ast.Constant)}
        r.check(
            set(codes) == set(MULTS) and len(set(codes.values())) == 3,
            "three multiplicities, three distinct codes",
            "make_multiplicity_fqn:codes",
            f"multiplicity codes are {codes}: not one distinct code per multiplicity",
            node=nb,
        )
        seen = {}
        # the greedy marker: whatever the code appends for greedy=True, it must contain a character
        # that no symbol name can contain -- otherwise a separator (or a rule) with the right name
        # produces the same helper name (`x*[g]` vs `x*!` when the marker was "_g")
        base_tpl, _ = fqn_template(repo, dict(sep=False, greedy=False))
        g_tpl, _ = fqn_template(repo, dict(sep=False, greedy=True))
        marker = g_tpl[len(base_tpl):] if g_tpl.startswith(base_tpl) else None
        name_rx = None
        for n in ast.walk(repo.module("parglare.grammar").tree):
            if isinstance(n, ast.Tuple) and len(n.elts) == 2 and isinstance(n.elts[0], ast.Constant) and n.elts[0].value == "Name" \
                    and isinstance(n.elts[1], ast.Constant) and isinstance(n.elts[1].value, str):
                name_rx = n.elts[1].value
        r.need(name_rx is not None, "the grammar language's Name terminal was not found")
        r.check(
            bool(marker) and "{" not in marker and re.fullmatch(name_rx, "x" + marker) is None
            and all(re.fullmatch(name_rx, "x" + marker[:i] + "y" + marker[i:]) is None for i in range(len(marker) + 1)),
            f"greedy marker {marker!r} cannot be part of a symbol name ({name_rx})",
            "make_multiplicity_fqn:greedy-marker",
            f"the greedy variant of a helper rule is told apart by the suffix {marker!r}, which is also a legal tail of a "
            f"symbol name ({name_rx}): a separator with that name gives `x*[sep]` the helper name of `x*!`, and the two "
            "share one helper rule",
            node=f.node,
        )
        G = marker or "_g"
        rep._pgv_greedy_marker = G
        for sep, greedy in itertools.product((False, True), repeat=2):
            v = dict(sep=sep, greedy=greedy)
            tpl, leaf = fqn_template(repo, v)
            exp = "{symbol_name}_{name_by_mult[multiplicity]}" + ("_{separator_name}" if sep else "") + (G if greedy else "")
            r.check(
                tpl == exp,
                f"name template for separator={sep}, greedy={greedy}",
                f"make_multiplicity_fqn:sep={sep},greedy={greedy}",
                f"helper name for separator={sep}, greedy={greedy} is built as `{tpl}`; needed `{exp}` "
                "(a greedy and a non-greedy repetition of the same symbol must not share a helper rule)"
                + leaf.free_text(),
                node=f.node,
            )
            seen.setdefault(tpl, []).append((sep, greedy))
        for tpl, vs in seen.items():
            r.check(len(vs) == 1, f"template {tpl} is unique", "make_multiplicity_fqn:injective",
                    f"references with (separator, greedy) in {vs} get the same helper name `{tpl}`: whichever "
                    "is used first decides for the others", node=f.node)
        # lookup side
        prop = repo.func("parglare.grammar.Reference.multiplicity_fqn")
        calls = [c for c in walk_no_nested(prop.node) if isinstance(c, ast.Call) and is_name(c.func, "make_multiplicity_fqn")]
        r.need(len(calls) == 1, "Reference.multiplicity_fqn: call of make_multiplicity_fqn not found")
        c = calls[0]
        args = {p: unparse(a) for p, a in zip(f.params, c.args)}
        args.update({k.arg: unparse(k.value) for k in c.keywords})
        want = {
            "symbol_name": "self.fqn", "multiplicity": "self.multiplicity",
            "separator_name": "self.separator.name if self.separator else None", "greedy": "self.greedy",
        }
        for p, w in want.items():
            r.check(
                args.get(p) == w,
                f"lookup name uses {w}",
                f"Reference.multiplicity_fqn:{p}",
                f"the name a reference is looked up under passes {args.get(p)} for {p} (needed {w}): the "
                "attribute shapes the helper rule but not its lookup key",
                node=c,
            )
        rr = repo.func("parglare.grammar.Grammar._resolve_ref")
        txt = unparse(rr.node)
        r.check(
            "symbol_name = symbol_ref.multiplicity_fqn" in txt
            and re.search(r"symbol = self\.(_resolve_generated_symbol\(symbol_name\)|resolve_symbol_by_name\(symbol_name, symbol_ref\.location\))", txt) is not None
            and re.search(r"if not symbol:\s+symbol = self\._make_multiplicity_symbol\(", txt) is not None,
            "helper is created only when the lookup under that name fails",
            "_resolve_ref:lookup",
            "_resolve_ref no longer looks the helper up under Reference.multiplicity_fqn before creating it",
            node=rr.node,
        )
        # Reference.clone keeps the attributes (not used today, checked for completeness)
        cl = repo.func("parglare.grammar.Reference.clone", required=False)
        if cl is not None:
            t = unparse(cl.node)
            if "new_ref.greedy" not in t:
                r.note("Reference.clone() does not copy `greedy` (clone is unused in the package)", cl.node)


# ------------------------------------------------------------------ R13.expansion
def _nt_descr(e, v):
    """abstract descriptor of a NonTerminal(...) construction / name expression"""
    e = strip_at(e)[0]
    if isinstance(e, ast.Call) and is_name(e.func, "NonTerminal"):
        name = e.args[0] if e.args else kw(e, "name")
        d = _name_descr(name, v)
        iw = kw(e, "imported_with")
        return d + (("IW",) if iw is not None and plain(iw) == "IW" else ("no-imported_with",))
    return None


_GREEDY_MARKER = ["!"]  # set from the code by rule_expansion (the marker make_multiplicity_fqn appends)


def _name_descr(name, v):
    name = strip_at(name)[0]
    wrapper = False
    if isinstance(name, ast.JoinedStr):
        # f"{<name>}_g"
        vals = name.values
        if (
            len(vals) == 2 and isinstance(vals[0], ast.FormattedValue)
            and isinstance(vals[1], ast.Constant) and vals[1].value == _GREEDY_MARKER[0]
        ):
            wrapper = True
            name = strip_at(vals[0].value)[0]
        else:
            raise AnalysisError(f"unknown helper name form {unparse(name)[:60]}")
    if not (isinstance(name, ast.Call) and is_name(name.func, "make_multiplicity_fqn")):
        raise AnalysisError(f"helper name is not built by make_multiplicity_fqn: {unparse(name)[:60]}")
    params = ["symbol_name", "multiplicity", "separator_name", "greedy"]
    a = {p: x for p, x in zip(params, name.args)}
    a.update({k.arg: k.value for k in name.keywords})
    base = plain(a.get("symbol_name"))
    m = plain(a.get("multiplicity")) if "multiplicity" in a else None
    if m == "REF.multiplicity":
        m = v["mult"]
    s = a.get("separator_name")
    s_txt = plain(s) if s is not None else "None"
    if s_txt == "SEP.name":
        sep = True
    elif s_txt == "None":
        sep = False
    else:
        raise AnalysisError(f"unknown separator-name argument {s_txt}")
    g = a.get("greedy")
    g_txt = plain(g) if g is not None else "False"
    if g_txt == "REF.greedy":
        greedy = v["greedy"]
    elif g_txt in ("False", "True"):
        greedy = g_txt == "True"
    else:
        raise AnalysisError(f"unknown greedy argument {g_txt}")
    return (base, m, sep, greedy, wrapper)


def _prod_descr(c, v, names):
    """(lhs, rhs list, assoc, nops, nopse) of a Production(...) construction"""
    c = strip_at(c)[0]
    lhs = c.args[0]
    rhs = c.args[1]
    rhs = strip_at(rhs)[0]
    if not (isinstance(rhs, ast.Call) and is_name(rhs.func, "ProductionRHS") and isinstance(rhs.args[0], ast.List)):
        raise AnalysisError("helper production RHS is not ProductionRHS([...])")

    def sym(e):
        e0 = strip_at(e)[0]
        t = plain(e0)
        if t in ("BASE", "SEP", "EMPTY"):
            return t
        d = _nt_descr(e0, v)
        if d is not None:
            return names.get(d[:5], d[:5])
        if isinstance(e0, ast.Call) and (is_self_attr(e0.func, "resolve_symbol_by_name") or is_self_attr(e0.func, "_resolve_generated_symbol")):
            d = _name_descr(e0.args[0], v)
            return names.get(d, d)
        raise AnalysisError(f"unknown RHS element of a helper production: {t[:60]}")

    def flag(name, default):
        x = kw(c, name)
        if x is None:
            return default
        t = plain(x)
        if t.startswith("ASSOC_RIGHT if REF.greedy else ASSOC_NONE"):
            return "ASSOC_RIGHT" if v["greedy"] else "ASSOC_NONE"
        return t

    d = (sym(lhs), [sym(x) for x in rhs.args[0].elts], flag("assoc", "ASSOC_NONE"), flag("nops", "False"), flag("nopse", "False"))
    extra = sorted(f"{k.arg}={plain(k.value)[:40]}" for k in c.keywords if k.arg not in ("assoc", "nops", "nopse"))
    if extra or len(c.args) > 2:
        # anything else a helper production is given (a priority, dynamic, ...) is not in the documented expansion
        d = d + ("undocumented: " + ", ".join(extra + [plain(a)[:30] for a in c.args[2:]]),)
    return d


def rule_expansion(rep):
    with rep.rule(
        "R13.expansion",
        "productions, flags, action and registered name generated for each (multiplicity, "
        "separator, greedy) == the documented expansion (x_1: x_1 [sep] x | x; x_0: x_1 {nops} | "
        "EMPTY; x_opt: x | EMPTY; greedy => right associative; ? with separator rejected)",
    ) as r:
        repo = rep.repo
        try:
            b_, _ = fqn_template(repo, dict(sep=False, greedy=False))
            g_, _ = fqn_template(repo, dict(sep=False, greedy=True))
            if g_.startswith(b_) and g_ != b_:
                _GREEDY_MARKER[0] = g_[len(b_):]
        except AnalysisError:
            pass
        f = repo.func("parglare.grammar.Grammar._make_multiplicity_symbol")
        want_params = ["self", "symbol_ref", "base_symbol", "separator", "imported_with"]
        r.need(f.params == want_params, f"_make_multiplicity_symbol parameters changed: {f.params}")
        env = {"symbol_ref": N("REF"), "base_symbol": N("BASE"), "separator": N("SEP"), "imported_with": N("IW")}
        space = [
            dict(mult=m, sep=s, greedy=g, found=fd)
            for m in MULTS for s in (False, True) for g in (False, True) for fd in (False, True)
        ]
        atoms = Atoms()
        atoms.enum("REF.multiplicity", "mult", MULTS)
        atoms.flag("REF.greedy", "greedy").flag("SEP", "sep").flag("SEP != None", "sep")
        atoms.add(r"self\.(resolve_symbol_by_name|_resolve_generated_symbol)\(make_multiplicity_fqn\(.*\)\)", lambda v, m: v["found"])

        def run(atom):
            def eff(st, it):
                t = plain(st) if not isinstance(st, ast.stmt) else unparse(strip_at_deep(st))
                if isinstance(st, ast.Assign):
                    tgt = plain(st.targets[0])
                    if tgt.endswith(".action_name"):
                        return ("ACTION_NAME", st.targets[0].value, plain(st.value))
                    if tgt.endswith(".grammar_action"):
                        return ("GRAMMAR_ACTION", st.targets[0].value, plain(st.value))
                    return NotImplemented
                if isinstance(st, ast.Expr) and isinstance(st.value, ast.Call):
                    c = st.value
                    if is_self_attr(c.func, "register_symbol"):
                        return ("REGISTER", c.args[0])
                    if isinstance(c.func, ast.Attribute) and c.func.attr in ("append", "extend"):
                        return None  # the Production(...) calls inside are recorded by `watch`
                return NotImplemented

            it = Interp(atom, eff, env=env, watch={"Production"})
            ex = it.run(f.body)
            return list(it.effects), ex, dict(it.env)

        rows = 0
        for leaf in explore(run, space, atoms):
            effs, ex, fenv = leaf.result
            for v in leaf.valuations:
                rows += 1
                cls = f"{v['mult']},sep={v['sep']},greedy={v['greedy']}"
                try:
                    ok, msg = _check_expansion(v, effs, ex)
                except AnalysisError as e:
                    raise
                r.check(
                    ok,
                    "expansion row " + describe(v),
                    f"_make_multiplicity_symbol:{cls}",
                    f"for {describe(v)}: {msg}" + leaf.free_text(),
                    node=f.node,
                )
        r.floor("expansion rows", rows, 24)
        # the zero-or-more action
        txt = unparse(f.node)
        r.check(
            re.search(r"def action\(_, nodes\):\s+if nodes:\s+return nodes\[0\]\s+return \[\]", txt) is not None,
            "x_0 action: the collected list, or [] for the empty alternative",
            "_make_multiplicity_symbol:zero-action",
            "the action of the zero-or-more helper no longer returns nodes[0] or []",
            node=f.node,
        )


def _check_expansion(v, effs, ex):
    m, sep, g, found = v["mult"], v["sep"], v["greedy"], v["found"]
    BASE1 = ("REF.fqn", "MULT_ONE_OR_MORE", sep, False, False)
    names = {BASE1: "X1"}
    if m == "MULT_OPTIONAL" and sep:
        ok = ex.kind == "raise" and "GrammarError" in plain(ex.value)
        return ok, f"code {ex.kind}s {plain(ex.value)[:40] if ex.value is not None else ''}; documented: GrammarError (separator not allowed with ?)"
    if ex.kind != "return":
        return False, f"code exits with {ex.kind}; documented: returns the helper symbol"
    prods = [e for e in effs if e[0] == "CALL" and e[1] == "Production"]
    regs = [e for e in effs if e[0] == "REGISTER"]
    acts = [e for e in effs if e[0] in ("ACTION_NAME", "GRAMMAR_ACTION")]
    exp_prods = []
    exp_acts = []
    exp_regs = []
    if m in ("MULT_ONE_OR_MORE", "MULT_ZERO_OR_MORE"):
        if not found:
            exp_prods += [("X1", ["X1"] + (["SEP"] if sep else []) + ["BASE"], "ASSOC_NONE", "False", "False"),
                          ("X1", ["BASE"], "ASSOC_NONE", "False", "False")]
            exp_acts.append(("ACTION_NAME", "X1", "'collect_sep'" if sep else "'collect'"))
            exp_regs.append("X1")
        if m == "MULT_ZERO_OR_MORE":
            key = ("REF.fqn", "MULT_ZERO_OR_MORE", sep, g, False)
            names[key] = "X0"
            a = "ASSOC_RIGHT" if g else "ASSOC_NONE"
            exp_prods += [("X0", ["X1"], a, "True", "False"), ("X0", ["EMPTY"], a, "False", "False")]
            exp_acts.append(("GRAMMAR_ACTION", "X0", "action"))
            exp_regs.append("X0")
            ret = "X0"
        elif g:
            key = ("REF.fqn", "MULT_ONE_OR_MORE", sep, False, True)
            names[key] = "X1G"
            exp_prods += [("X1G", ["X1"], "ASSOC_RIGHT", "False", "False")]
            exp_acts.append(("ACTION_NAME", "X1G", "'pass_single'"))
            exp_regs.append("X1G")
            ret = "X1G"
        else:
            ret = "X1"
    else:
        key = ("REF.fqn", "MULT_OPTIONAL", False, g, False)
        names[key] = "XOPT"
        a = "ASSOC_RIGHT" if g else "ASSOC_NONE"
        exp_prods += [("XOPT", ["BASE"], "ASSOC_NONE", "False", "False"), ("XOPT", ["EMPTY"], a, "False", "False")]
        exp_acts.append(("ACTION_NAME", "XOPT", "'optional'"))
        exp_regs.append("XOPT")
        ret = "XOPT"

    def nm(e):
        e0 = strip_at(e)[0]
        d = _nt_descr(e0, v)
        if d is not None:
            if d[5] != "IW":
                return f"<{d[:5]} without imported_with>"
            return names.get(d[:5], str(d[:5]))
        if isinstance(e0, ast.Call) and (is_self_attr(e0.func, "resolve_symbol_by_name") or is_self_attr(e0.func, "_resolve_generated_symbol")):
            d = _name_descr(e0.args[0], v)
            return names.get(d, str(d))
        return plain(e0)[:50]

    got_prods = [_prod_descr(p[2], v, names) for p in prods]
    got_acts = [(a[0], nm(a[1]), a[2]) for a in acts]
    got_regs = [nm(x[1]) for x in regs]
    got_ret = nm(ex.value)
    problems = []
    if got_prods != exp_prods:
        problems.append(f"productions {got_prods} != documented {exp_prods}")
    if sorted(got_acts) != sorted(exp_acts):
        problems.append(f"actions {got_acts} != documented {exp_acts}")
    if got_regs != exp_regs:
        problems.append(f"registered {got_regs} != documented {exp_regs}")
    if got_ret != ret:
        problems.append(f"returns {got_ret}, documented {ret}")
    return not problems, "; ".join(problems) or "agrees"


# ------------------------------------------------------------------ R13.op-map
def rule_op_map(rep):
    with rep.rule(
        "R13.op-map",
        "each operator literal of the grammar language (* *! + +! ? ?!) maps to the right "
        "multiplicity and greedy flag; the separator modifier becomes the reference's separator",
    ) as r:
        repo = rep.repo
        gm = repo.module("parglare.grammar")
        pp = gm.globals_assigned.get("pg_productions")
        r.need(pp is not None and isinstance(pp.value, ast.List), "pg_productions literal not found")
        ops = []
        for row in pp.value.elts:
            if isinstance(row, ast.List) and row.elts and is_name(row.elts[0], "REP_OPERATOR"):
                rhs = row.elts[1]
                if isinstance(rhs, ast.List) and rhs.elts and isinstance(rhs.elts[0], ast.Constant):
                    ops.append(rhs.elts[0].value)
        r.floor("repeat operator literals in the grammar of grammars", len(ops), 6)
        f = repo.func("parglare.grammar.act_gsymbol_reference")
        body = f.body
        # find `if rep_op:` block
        top = next((st for st in body if isinstance(st, ast.If) and is_name(st.test, "rep_op")), None)
        r.need(top is not None, "act_gsymbol_reference: `if rep_op:` block not found")
        for op in ops:
            def atom(e, it, op=op):
                t = norm_cmp(plain(e))
                m = re.fullmatch(r"OP\.(startswith|endswith)\('(.*)'\)", t)
                if m:
                    return getattr(op, m.group(1))(m.group(2))
                m = re.fullmatch(r"OP (==|!=) '(.*)'", t)
                if m:
                    return (op == m.group(2)) == (m.group(1) == "==")
                m = re.fullmatch(r"'(.*)' (in|not in) OP", t)
                if m:
                    return (m.group(1) in op) == (m.group(2) == "in")
                if t in ("len(REPOP) > 1", "MODS"):
                    return False
                raise UnknownAtom(t)

            def eff(st, it):
                if isinstance(st, ast.Assign):
                    t = plain(st.targets[0])
                    if t == "REF.multiplicity":
                        return ("MULT", plain(st.value))
                    if t == "REF.greedy":
                        return ("GREEDY", plain(st.value))
                    if t == "REF.separator":
                        return ("SEP", plain(st.value))
                return NotImplemented

            it = Interp(atom, eff, env={"symbol_ref": N("REF"), "rep_op": N("OP"), "modifiers": N("MODS")})
            # interpret the statements of the block that follow the modifier unpacking
            stmts = [s for s in top.body if not (isinstance(s, ast.If) and "len(rep_op)" in unparse(s.test))]
            stmts = [s for s in stmts if not (isinstance(s, ast.Assign) and is_name(s.targets[0], "sep_ref"))]
            it.run(stmts)
            mult = [e[1] for e in it.effects if e[0] == "MULT"]
            greedy = [e[1] for e in it.effects if e[0] == "GREEDY"]
            exp_m = {"*": "MULT_ZERO_OR_MORE", "+": "MULT_ONE_OR_MORE", "?": "MULT_OPTIONAL"}[op[0]]
            exp_g = op.endswith("!")
            r.check(
                mult == [exp_m] and (greedy == ["True"]) == exp_g and len(greedy) <= 1,
                f"operator {op!r} -> {exp_m}, greedy={exp_g}",
                f"act_gsymbol_reference:{op}",
                f"operator {op!r} sets multiplicity {mult} and greedy {greedy}; documented {exp_m}, greedy={exp_g}",
                node=f.node,
            )
        txt = unparse(f.node)
        r.check(
            re.search(r"sep_ref = modifiers\[1\]\s+sep_ref = Reference\(Location\(context\), sep_ref, context\.extra\.imported_with\)\s+symbol_ref\.separator = sep_ref", txt) is not None,
            "separator modifier becomes the reference's separator",
            "act_gsymbol_reference:separator",
            "the repetition modifier is no longer stored as the reference's separator",
            node=f.node,
        )
        # Reference defaults
        init = repo.func("parglare.grammar.Reference.__init__")
        t = unparse(init.node)
        r.check("self.multiplicity = MULT_ONE" in t and "self.greedy = False" in t and "self.separator = None" in t,
                "plain references: multiplicity one, not greedy, no separator", "Reference.__init__:defaults",
                "Reference defaults changed", node=init.node)


def rule_groups(rep):
    with rep.rule(
        "R13.groups",
        "each parenthesised group becomes its own rule named <rule>_g<n> with a per-rule counter "
        "incremented between two groups, inheriting the rule's meta-data",
    ) as r:
        f = rep.repo.func("parglare.grammar.act_production_rule")
        txt = unparse(f.node)
        ok = re.search(
            r"while context\.extra\.groups:\s+ref, gprods = context\.extra\.groups\.pop\(\)\s+"
            r"gname = f'\{name\}_g\{counter\[name\] \+ 1\}'\s+ref\.name = gname\s+counter\[name\] \+= 1\s+"
            r"group_prods\.extend\(_create_prods\(context, gprods, gname, rule_meta_datas\)\)",
            txt,
        )
        r.check(
            ok is not None,
            "group naming and counter",
            "act_production_rule:groups",
            "group rules are no longer named <rule>_g<n> from a counter incremented once per group "
            "and created with the rule's meta-data",
            node=f.node,
        )
        # the rule's @action names the rule, not the anonymous rules made from its groups
        wa, wg = func_cfg(rep.repo, "parglare.grammar.act_production_rule_with_action")
        ext = [n for n, c in wg.nodes_calling("extend") if "group_productions" in unparse(c)]
        stamps = [
            n for n in wg.nodes if n.kind == "stmt" and isinstance(n.ast, ast.Assign)
            and any(isinstance(t_, ast.Attribute) and t_.attr == "action_name" for t_ in n.ast.targets)
        ]
        r.need(ext and stamps, "act_production_rule_with_action: action stamping / group extension not found")
        after = wg.reach([m for e in ext for _, m in e.succ])
        r.check(
            not any(s_ in after for s_ in stamps),
            "the rule's action name is given to the rule's own productions only (groups are added afterwards)",
            "act_production_rule_with_action:stamp-before-groups",
            "the productions of the group rules are added before the rule's @action name is stamped: the anonymous "
            "group rules get the enclosing rule's action (results differ from the documented expansion)",
            node=stamps[0].ast,
        )
        g = rep.repo.func("parglare.grammar.act_production_group")
        t = unparse(g.node)
        r.check(
            "context.extra.groups.append((reference, productions))" in t and "return reference" in t,
            "a group is replaced by a reference resolved when the rule is reduced",
            "act_production_group",
            "act_production_group no longer defers the group as (reference, productions)",
            node=g.node,
        )


def check(rep):
    rep.explanation = (
        "C13 (partial): the helper-rule generator is interpreted for every (multiplicity, "
        "separator, greedy, helper already present) and its productions, flags, action names, "
        "registered names and return value are compared with the documented expansion; the "
        "helper-name builder is shown injective in (multiplicity, separator, greedy) and the lookup "
        "passes all of them; operator literals map to multiplicity/greedy; group naming; built-in "
        "actions fit the helper productions (R09.builtins). Not decided: language/result equality "
        "with the expansion on all inputs; collisions with user rules named x_0/x_1/x_opt."
    )
    rule_fqn_format(rep)
    rule_expansion(rep)
    rule_op_map(rep)
    rule_groups(rep)
    from .C09 import rule_builtins

    rule_builtins(rep)
    from .C06 import rule_table

    # greedy is implemented as associativity, and the EMPTY alternative of x? / x* must count as an
    # empty production exactly like a hand-written one: both are rows of the S/R resolution table
    rule_table(rep)
