"""C18 -- the dynamic disambiguation filter sees every marked decision and only those."""
from __future__ import annotations

import ast
import itertools

from .. import cfg as cfgmod
from ..core import AnalysisError, UnknownAtom, call_name, dotted, is_name, is_self_attr, unparse, walk_no_nested
from ..interp import Interp
from ..table import Atoms, describe, explore
from .common import arg_of, calls_self, first_loop, func_cfg, self_attr_test, self_calls
from .tables_region import N


def _filter_call(st):
    """self.dynamic_filter(...) call inside statement/expression st, or None"""
    for c in ast.walk(st):
        if isinstance(c, ast.Call) and is_self_attr(c.func, "dynamic_filter"):
            return c
    return None


def rule_init(rep):
    with rep.rule(
        "R18.init",
        "both parse prologues call _init_dynamic_disambiguation before the main loop; it calls "
        "the filter with (context, None x5) iff a filter is set",
    ) as r:
        repo = rep.repo
        n_sites = 0
        for qual in ("parglare.parser.Parser.parse", "parglare.glr.GLRParser.parse"):
            f, g = func_cfg(repo, qual)
            loop = first_loop(f, ast.While)
            head = g.loop_heads.get(loop)
            r.need(head is not None, f"{qual}: main loop head not in CFG")
            sites = [n for n, c in g.nodes_calling("_init_dynamic_disambiguation")]
            n_sites += len(sites)
            ok = bool(sites) and g.dominated_by_nodes(head, sites)
            r.check(
                ok,
                f"{f.qual_in_module}: init call dominates the main loop",
                f"{f.qual_in_module}:init-call",
                f"{f.qual_in_module}: some path reaches the main loop without calling "
                "_init_dynamic_disambiguation (filter state of a previous parse leaks / "
                "filter never initialised)",
                node=loop,
            )
            # and it is not inside the loop / not conditional on anything but debug
            for n in sites:
                inside = n in g.reach([head]) and head in g.reach([n]) and False
                r.check(not inside, f"{f.qual_in_module}: init call outside the loop",
                        f"{f.qual_in_module}:init-in-loop", "init call inside the main loop", node=n.ast)
        r.floor("_init_dynamic_disambiguation call sites", n_sites, 2)
        # "once": no other call site anywhere in the package, and the prologue sites are not in a loop
        for fn in repo.all_funcs():
            if fn.module.name not in ("parglare.parser", "parglare.glr") or fn.name == "parse":
                continue
            for c in walk_no_nested(fn.node):
                if isinstance(c, ast.Call) and is_self_attr(c.func, "_init_dynamic_disambiguation"):
                    r.violation(
                        f"{fn.qual_in_module}:extra-init-call",
                        f"{fn.qual_in_module} calls _init_dynamic_disambiguation: the filter receives the all-None "
                        "initialisation call again in the middle of a parse (a filter that keeps state forgets it)",
                        node=c,
                    )
        for qual in ("parglare.parser.Parser.parse", "parglare.glr.GLRParser.parse"):
            f, g = func_cfg(repo, qual)
            for n, c in g.nodes_calling("_init_dynamic_disambiguation"):
                in_cycle = n in g.reach([m for _, m in n.succ])
                r.check(
                    not in_cycle,
                    f"{f.qual_in_module}: the init call is executed once per parse",
                    f"{f.qual_in_module}:init-in-loop",
                    f"{f.qual_in_module}: the init call lies on a cycle of parse(): the filter is re-initialised during the parse",
                    node=n.ast,
                )
        # decision table of _init_dynamic_disambiguation
        f = repo.func("parglare.parser.Parser._init_dynamic_disambiguation")
        ctx = f.params[1] if len(f.params) > 1 else None
        r.need(ctx is not None, "_init_dynamic_disambiguation lost its context parameter")
        atoms = Atoms().flag("self.dynamic_filter", "filter").const("self.debug", False)
        atoms.flag("self.dynamic_filter != None", "filter")
        space = [{"filter": False}, {"filter": True}]

        def run(atom):
            def eff(st, it):
                c = _filter_call(st)
                if c is not None:
                    return ("CALL", tuple(unparse(a) for a in c.args), len(c.keywords))
                return NotImplemented
            it = Interp(atom, eff, env={ctx: N("CTX")})
            ex = it.run(f.body)
            return list(it.effects), ex

        for leaf in explore(run, space, atoms):
            effs, ex = leaf.result
            for v in leaf.valuations:
                exp = [("CALL", ("CTX", "None", "None", "None", "None", "None"), 0)] if v["filter"] else []
                r.check(
                    effs == exp and ex.kind in ("fall", "return"),
                    f"init table row filter={v['filter']}",
                    "_init_dynamic_disambiguation:table",
                    f"with filter set={v['filter']}: filter calls {effs}, documented {exp}"
                    + leaf.free_text(),
                    node=f.node,
                )


ACTIONS = ("SHIFT", "REDUCE")


def rule_bypass(rep):
    with rep.rule(
        "R18.bypass",
        "_call_dynamic_filter answers True without calling the filter iff (SHIFT and target "
        "terminal not dynamic) or (REDUCE and production not dynamic); otherwise the filter's "
        "answer is returned unchanged and it receives (context, from, to, action, production, subresults)",
    ) as r:
        f = rep.repo.func("parglare.parser.Parser._call_dynamic_filter")
        want = ["context", "from_state", "to_state", "action", "production", "subresults"]
        r.need(f.params[1:7] == want, f"_call_dynamic_filter parameters changed: {f.params}")
        atoms = Atoms()
        atoms.enum("action", "action", ACTIONS)
        atoms.flag("to_state.symbol.dynamic", "tdyn").flag("production.dynamic", "pdyn")
        atoms.const("self.debug", False)
        atoms.flag("context.token == None", "tok_none")
        atoms.flag("self.dynamic_filter", "filter")
        space = [
            dict(action=a, tdyn=t, pdyn=p, tok_none=k, filter=True)
            for a in ACTIONS
            for t in (False, True)
            for p in (False, True)
            for k in (False, True)
        ]

        def run(atom):
            calls = []

            def eff(st, it):
                c = _filter_call(st)
                if c is not None:
                    calls.append(c)
                    return ("CALL", tuple(unparse(a) for a in c.args))
                if isinstance(st, ast.Assign) and unparse(st.targets[0]) == "context.token":
                    return None
                return NotImplemented

            it = Interp(atom, eff)
            ex = it.run(f.body)
            # a filter call that is assigned to a local shows up in the return value
            rv = ex.value if ex.kind == "return" else None
            rc = _filter_call(rv) if rv is not None else None
            effs = list(it.effects)
            if rc is not None:
                effs.append(("CALL", tuple(unparse(a) for a in rc.args)))
            return effs, ex, rv

        n = 0
        for leaf in explore(run, space, atoms):
            effs, ex, rv = leaf.result
            for v in leaf.valuations:
                n += 1
                bypass = (v["action"] == "SHIFT" and not v["tdyn"]) or (
                    v["action"] == "REDUCE" and not v["pdyn"]
                )
                if bypass:
                    ok = not effs and ex.kind == "return" and unparse(rv) == "True"
                    exp = "return True without calling the filter"
                else:
                    ok = (
                        effs == [("CALL", tuple(want))]
                        and ex.kind == "return"
                        and rv is not None
                        and _is_plain_filter_result(rv)
                    )
                    exp = "return self.dynamic_filter(context, from_state, to_state, action, production, subresults)"
                got = f"calls {effs}, {ex.kind} {unparse(rv) if rv is not None else ''}"
                r.check(
                    ok,
                    "bypass row " + describe(v, ["action", "tdyn", "pdyn"]),
                    "_call_dynamic_filter:" + ("bypass" if bypass else "consult") + ":" + v["action"],
                    f"for {describe(v, ['action', 'tdyn', 'pdyn'])}: code does [{got[:160]}], documented [{exp}]"
                    + leaf.free_text(),
                    node=f.node,
                )
        r.floor("bypass table rows", n, 16)


def _is_plain_filter_result(rv):
    """the returned value is the filter call itself (possibly via a local), not negated/combined"""
    from ..core import strip_at
    e, _ = strip_at(rv)
    return isinstance(e, ast.Call) and is_self_attr(e.func, "dynamic_filter")


def _guard_edges(g):
    """edges through which a decision may legally proceed: no filter set, or filter said yes"""
    return g.test_edges(self_attr_test("dynamic_filter"), "F") + g.test_edges(
        calls_self("_call_dynamic_filter"), "T"
    )


def rule_dominance_glr(rep):
    with rep.rule(
        "R18.dominance",
        "every GLR link creation / new-head registration and the LR action choice is dominated "
        "by the filter test (no filter set, or _call_dynamic_filter returned true)",
    ) as r:
        repo = rep.repo
        n_links = 0
        # _reduce: whole function is the region
        f, g = func_cfg(repo, "parglare.glr.GLRParser._reduce")
        edges = _guard_edges(g)
        for n, c in g.nodes_calling("create_link"):
            n_links += 1
            ok = g.dominated_by_edges(n, edges)
            r.check(
                ok,
                f"_reduce: create_link at {repo.loc(c)} dominated by filter",
                f"GLRParser._reduce:create_link:{_recv(c)}",
                "a reduction link can be created without consulting the dynamic filter "
                f"({unparse(c)})",
                node=c,
            )
        regs = [
            n for n in g.nodes
            if n.kind == "stmt" and isinstance(n.ast, ast.Assign)
            and any(isinstance(t, ast.Subscript) and is_self_attr(t.value, "_active_heads") for t in n.ast.targets)
        ]
        for n in regs:
            r.check(
                g.dominated_by_edges(n, edges),
                "_reduce: registration of a new head dominated by filter",
                "GLRParser._reduce:register-head",
                "a new head is registered without consulting the dynamic filter",
                node=n.ast,
            )
        _check_filter_args(r, repo, f, "REDUCE")
        # _do_shifts: region = body of the shifting loop
        f = repo.func("parglare.glr.GLRParser._do_shifts")
        loop = next((l for l in walk_no_nested(f.node) if isinstance(l, ast.While)), None)
        r.need(loop is not None, "_do_shifts: shifting loop not found")
        g = cfgmod.build_region(loop.body)
        edges = _guard_edges(g)
        for n, c in g.nodes_calling("create_link"):
            n_links += 1
            r.check(
                g.dominated_by_edges(n, edges),
                f"_do_shifts: create_link at {repo.loc(c)} dominated by filter",
                f"GLRParser._do_shifts:create_link:{_recv(c)}",
                "a shift link can be created without consulting the dynamic filter "
                "(e.g. a shift merged into an existing head)",
                node=c,
            )
        regs = [
            n for n in g.nodes
            if n.kind == "stmt" and isinstance(n.ast, ast.Assign)
            and any(isinstance(t, ast.Subscript) and is_self_attr(t.value, "_active_heads") for t in n.ast.targets)
        ]
        for n in regs:
            r.check(
                g.dominated_by_edges(n, edges),
                "_do_shifts: registration of a shifted head dominated by filter",
                "GLRParser._do_shifts:register-head",
                "a shifted head is registered without consulting the dynamic filter",
                node=n.ast,
            )
        _check_filter_args(r, repo, f, "SHIFT")
        r.floor("create_link call sites", n_links, 3)
        # reject => not taken: the false edge of each filter test must not reach a link creation
        for qual, region in (("parglare.glr.GLRParser._reduce", None), ("parglare.glr.GLRParser._do_shifts", loop.body)):
            ff = repo.func(qual)
            gg = cfgmod.build_region(region) if region is not None else func_cfg(repo, qual)[1]
            for t, lab in gg.test_edges(calls_self("_call_dynamic_filter"), "F"):
                after = gg.reach([m for l2, m in t.succ if l2 == "F"])
                bad = [n for n, c in gg.nodes_calling("create_link") if n in after]
                r.check(
                    not bad,
                    f"{ff.name}: rejected decision creates no link",
                    f"GLRParser.{ff.name}:reject",
                    "a decision rejected by the dynamic filter still reaches create_link",
                    node=t.ast,
                )
        # LR driver
        f = repo.func("parglare.parser.Parser.parse")
        loop = first_loop(f, ast.While)
        g = cfgmod.build_region(loop.body)
        # the action choice: first subscript of `actions` with a constant index
        choices = [
            n for n in g.nodes
            if n.kind == "stmt" and isinstance(n.ast, ast.Assign)
            and isinstance(n.ast.value, ast.Subscript) and is_name(n.ast.value.value, "actions")
            and isinstance(n.ast.value.slice, ast.Constant)
        ]
        r.floor("LR action choice sites", len(choices), 1)
        dd = [n for n, c in g.nodes_calling("_dynamic_disambiguation")]
        edges = g.test_edges(self_attr_test("dynamic_filter"), "F")
        for n in choices:
            ok = n not in g.reach([g.entry], avoid_nodes=dd, avoid_edges=edges)
            r.check(
                ok,
                "LR: action choice dominated by _dynamic_disambiguation when a filter is set",
                "Parser.parse:choice",
                "the LR driver can choose an action without running _dynamic_disambiguation "
                "although a filter is set",
                node=n.ast,
            )
        for n in dd:
            st = n.ast
            ok = isinstance(st, ast.Assign) and any(is_name(t, "actions") for t in st.targets)
            r.check(ok, "LR: filtered list replaces the action list", "Parser.parse:filtered-list",
                    "result of _dynamic_disambiguation is not what the driver selects from", node=st)


def _recv(call):
    return unparse(call.func.value) if isinstance(call.func, ast.Attribute) else "?"


def _check_filter_args(r, repo, f, action):
    target = repo.func("parglare.parser.Parser._call_dynamic_filter")
    cs = self_calls(f.node, "_call_dynamic_filter")
    for c in cs:
        a = arg_of(c, target, "action")
        r.check(
            a is not None and is_name(a, action),
            f"{f.name}: filter consulted with action {action}",
            f"GLRParser.{f.name}:filter-args:action",
            f"{f.name} consults the filter with action {unparse(a)} instead of {action}",
            node=c,
        )
        if action == "REDUCE":
            p = arg_of(c, target, "production")
            s = arg_of(c, target, "subresults")
            r.check(
                p is not None and is_name(p, "production"),
                "_reduce: filter receives the production",
                "GLRParser._reduce:filter-args:production",
                f"_reduce passes {unparse(p)} as production to the filter",
                node=c,
            )
            r.check(
                s is not None and "node_nonterm" in unparse(s),
                "_reduce: filter receives the sub-results of that reduction",
                "GLRParser._reduce:filter-args:subresults",
                f"_reduce passes {unparse(s)} as subresults to the filter",
                node=c,
            )


def rule_lr_filter(rep):
    with rep.rule(
        "R18.lr-filter",
        "_dynamic_disambiguation looks at every action of the cell and keeps SHIFT/REDUCE iff "
        "the filter accepts (REDUCE with its production and sub-results), everything else unchanged",
    ) as r:
        f = rep.repo.func("parglare.parser.Parser._dynamic_disambiguation")
        loop = next((s for s in f.body if isinstance(s, ast.For)), None)
        r.need(loop is not None and isinstance(loop.target, ast.Name), "action loop not found")
        r.check(
            unparse(loop.iter) == f.params[2],
            "loop ranges over the whole action list",
            "_dynamic_disambiguation:domain",
            f"the loop ranges over {unparse(loop.iter)}, not over all given actions",
            node=loop,
        )
        a = loop.target.id
        ret = [s for s in f.body if isinstance(s, ast.Return)]
        r.need(len(ret) == 1, "single return of the kept list expected")
        if not isinstance(ret[0].value, ast.Name):
            names = [n.id for n in ast.walk(ret[0].value) if isinstance(n, ast.Name)]
            r.violation(
                "_dynamic_disambiguation:result",
                f"_dynamic_disambiguation returns `{unparse(ret[0].value)[:60]}` instead of the list of kept actions: "
                + ("when the filter rejects every action the unfiltered list is returned and a rejected action is taken"
                   if f.params[2] in names else "the result is not the kept list"),
                node=ret[0],
            )
            return
        keep = ret[0].value.id
        target = rep.repo.func("parglare.parser.Parser._call_dynamic_filter")
        atoms = Atoms().enum("A.action", "kind", ("SHIFT", "REDUCE", "ACCEPT"))
        atoms.flag("len(A.prod.rhs)", "rlen")
        atoms.const("self.debug", False)
        atoms.add(r"self\._call_dynamic_filter\(.*\)", lambda v, m: v["accept"])
        space = [
            dict(kind=k, rlen=l, accept=ac)
            for k in ("SHIFT", "REDUCE", "ACCEPT")
            for l in (False, True)
            for ac in (False, True)
        ]

        fresh_seen = {}

        def run(atom):
            consulted = []

            def atom2(e, it):
                if isinstance(e, ast.Call) and is_self_attr(e.func, "_call_dynamic_filter"):
                    consulted.append(e)
                    fresh_seen.update(it.fresh)
                return atom(e, it)

            def eff(st, it):
                t = unparse(st)
                if t == f"{keep}.append(A)":
                    return ("KEEP",)
                if isinstance(st, ast.Assign) and unparse(st.targets[0]).endswith(".production"):
                    return None
                return NotImplemented

            it = Interp(atom2, eff, env={a: N("A")})
            ex = it.run(loop.body)
            return list(it.effects), ex, consulted

        n = 0
        for leaf in explore(run, space, atoms):
            effs, ex, consulted = leaf.result
            for v in leaf.valuations:
                n += 1
                if v["kind"] == "ACCEPT":
                    exp_keep, exp_consult = True, 0
                else:
                    exp_keep, exp_consult = v["accept"], 1
                ok = (
                    (effs == [("KEEP",)]) == exp_keep
                    and len(effs) <= 1
                    and len(consulted) == exp_consult
                    and ex.kind in ("fall", "continue")
                )
                args_ok = True
                if ok and consulted:
                    c = consulted[0]
                    act = arg_of(c, target, "action")
                    args_ok = act is not None and unparse(act) == v["kind"]
                    if v["kind"] == "REDUCE":
                        p = arg_of(c, target, "production")
                        s = arg_of(c, target, "subresults")
                        args_ok = args_ok and p is not None and unparse(p) == "A.prod" and s is not None
                        if args_ok:
                            from ..core import plain
                            st = plain(s)
                            if isinstance(s, ast.Name) and s.id in fresh_seen:
                                st = plain(fresh_seen[s.id])
                            want = (
                                "[x.results for x in self.parse_stack[-len(A.prod.rhs):]]" if v["rlen"] else "[]"
                            )
                            if st != want:
                                args_ok = False
                                r.violation(
                                    "_dynamic_disambiguation:subresults",
                                    f"for a {'non-empty' if v['rlen'] else 'EMPTY'} production the filter is shown "
                                    f"`{st[:80]}` as sub-results; needed `{want}` (the sub-results of exactly that "
                                    "reduction: `seq[-0:]` is the whole parse stack)",
                                    node=loop,
                                )
                r.check(
                    ok and args_ok,
                    "LR filter row " + describe(v),
                    f"_dynamic_disambiguation:{v['kind']}",
                    f"for {describe(v)}: kept={effs == [('KEEP',)]}, filter consulted {len(consulted)}x "
                    f"with {[unparse(c)[:90] for c in consulted]}, loop exit {ex.kind}; documented "
                    f"kept={exp_keep}, consulted {exp_consult}x, continue with the next action"
                    + leaf.free_text(),
                    node=loop,
                )
        r.floor("LR filter table rows", n, 12)


def rule_marks(rep):
    with rep.rule(
        "R18.marks",
        "a terminal is marked dynamic in a state iff it is dynamic itself or a conflicting "
        "production is; LRConflict.dynamic reads that mark; Action.dynamic maps SHIFT->terminal, REDUCE->production",
    ) as r:
        repo = rep.repo
        f = repo.func("parglare.tables.LRTable.calc_conflicts_and_dynamic_terminals")
        # every state.dynamic.add(X): X must be the cell's terminal
        adds = [
            c for c in walk_no_nested(f.node)
            if isinstance(c, ast.Call) and call_name(c) == "add"
            and isinstance(c.func.value, ast.Attribute) and c.func.value.attr == "dynamic"
        ]
        r.floor("state.dynamic.add sites", len(adds), 3)
        cell_loop = next(
            (l for l in walk_no_nested(f.node) if isinstance(l, ast.For) and "actions.items()" in unparse(l.iter)),
            None,
        )
        r.need(cell_loop is not None and isinstance(cell_loop.target, ast.Tuple), "cell loop not found")
        term = cell_loop.target.elts[0].id
        for c in adds:
            r.check(
                len(c.args) == 1 and is_name(c.args[0], term),
                "mark stores the cell's terminal",
                "calc_conflicts:mark-arg",
                f"state.dynamic receives {unparse(c.args[0])}, not the cell's terminal",
                node=c,
            )
        g = cfgmod.build_region(cell_loop.body)
        # (1) terminal-level mark is unconditional on the cell size
        tests = [n for n in g.nodes if n.kind == "test"]
        tmark = [n for n in tests if unparse(n.ast) == f"{term}.dynamic"]
        r.check(
            bool(tmark) and all(g.dominated_by_nodes(n, [g.entry]) and _no_test_before(g, n) for n in tmark),
            "terminal.dynamic is tested for every cell",
            "calc_conflicts:term-mark",
            "the terminal's own dynamic mark is not examined for every cell (only under some condition)",
            node=cell_loop,
        )
        # (2) every production-level mark is guarded by a test on a production's .dynamic
        for c in adds:
            n = g.node_of(c)
            if n is None:
                continue
            guards = g.test_edges(lambda e: "dynamic" in unparse(e), "T")
            r.check(
                g.dominated_by_edges(n, guards),
                "mark only under a dynamic test",
                "calc_conflicts:mark-guard",
                "state.dynamic.add is reachable without any `.dynamic` test being true",
                node=c,
            )
        # LRConflict.dynamic / Action.dynamic
        lc = repo.func("parglare.exceptions.LRConflict.dynamic")
        rets = [s for s in walk_no_nested(lc.node) if isinstance(s, ast.Return)]
        r.check(
            len(rets) == 1 and unparse(rets[0].value) == "self.term in self.state.dynamic",
            "LRConflict.dynamic == term in state.dynamic",
            "LRConflict.dynamic",
            f"LRConflict.dynamic returns {unparse(rets[0].value) if rets else None}",
            node=lc.node,
        )


def _no_test_before(g, n):
    """no conditional node lies on any path entry -> n (n is examined unconditionally)"""
    before = g.reach([n], forward=False)
    return not any(m.kind == "test" and m is not n for m in before)


def check(rep):
    rep.explanation = (
        "C18 (partial): decision table of the filter bypass and of the LR filtering loop, the init "
        "protocol, and dominance of every GLR link creation / head registration and of the LR "
        "action choice by the filter test, all on the CFG of the current source. Not decided: "
        "equivalence of a precedence-encoding filter with static priorities."
    )
    rep.assumptions += ["user filter is opaque; only where and with what it is called is decided"]
    rule_init(rep)
    rule_bypass(rep)
    rule_dominance_glr(rep)
    rule_lr_filter(rep)
    rule_marks(rep)
    # the filter belongs to the main parser only: the layout sub-parser's configuration is closed
    from .C14 import rule_subparser

    rule_subparser(rep)
