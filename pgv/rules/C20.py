"""C20 -- a grammar split over imported files means the same as the flattened grammar."""
from __future__ import annotations

import ast
import itertools
import re

from .. import cfg as cfgmod
from ..core import AnalysisError, call_name, is_name, is_self_attr, plain, strip_at, unparse, walk_no_nested
from ..interp import Interp
from ..table import Atoms, describe, explore
from .common import calls_self, func_cfg
from .tables_region import N


def rule_load_once(rep):
    with rep.rule(
        "R20.load-once",
        "an imported grammar file is constructed only on the miss edge of the registry lookup; "
        "writer and reader of the registry use the same canonical (realpath) key on every path",
    ) as r:
        repo = rep.repo
        f, g = func_cfg(repo, "parglare.grammar.PGFileImport.load_pgfile")
        cons = [n for n, c in g.nodes_calling("PGFile")]
        r.floor("PGFile construction sites in load_pgfile", len(cons), 1)
        miss = g.test_edges(lambda e: unparse(e) == "self.file_path in self.grammar.imported_files", "F")
        first = g.test_edges(lambda e: unparse(e) in ("self.pgfile is None", "self.pgfile == None"), "T")
        for n in cons:
            r.check(
                bool(miss) and g.dominated_by_edges(n, miss),
                "PGFile constructed only when the file is not in the registry",
                "load_pgfile:miss-edge",
                "load_pgfile can construct a PGFile although the file is already registered (a file "
                "reached over two import paths would contribute its rules twice)",
                node=n.ast,
            )
        hit = [
            n for n in g.nodes if n.kind == "stmt" and isinstance(n.ast, ast.Assign)
            and unparse(n.ast) == "self.pgfile = self.grammar.imported_files[self.file_path]"
        ]
        r.check(bool(hit), "registry hit reuses the registered file", "load_pgfile:hit",
                "on a registry hit load_pgfile no longer reuses the registered PGFile", node=f.node)
        # other construction sites of PGFile / parse_file of imported grammars
        others = []
        for fn in repo.all_funcs():
            if fn.module.name != "parglare.grammar" or fn is f:
                continue
            for c in walk_no_nested(fn.node):
                if isinstance(c, ast.Call) and is_name(c.func, "PGFile"):
                    others.append((fn, c))
        r.check(not others, "PGFile is constructed nowhere else", "PGFile:other-sites",
                f"PGFile is also constructed in {[fn.qual_in_module for fn, c in others]}", node=others[0][1] if others else None)
        # writer key
        init = repo.func("parglare.grammar.PGFile.__init__")
        t = unparse(init.node)
        r.check(
            "self.file_path = path.realpath(file_path) if file_path else None" in t
            and "self.grammar.imported_files[self.file_path] = self" in t,
            "registry is written under the file's realpath",
            "PGFile.__init__:registry-key",
            "PGFile no longer registers itself under path.realpath(file_path)",
            node=init.node,
        )
        # reader key: every path of act_import hands a realpath to PGFileImport
        ai = repo.func("parglare.grammar.act_import")
        atoms = Atoms()
        atoms.flag("context.file_name", "has_file").flag("not context.file_name", "has_file", negate=True)
        atoms.flag("len(nodes) > 3", "alias")
        atoms.flag("nodes[3] == None", "alias", negate=True)
        atoms.flag("path.isabs(nodes[1])", "abs")
        space = [dict(has_file=True, alias=a, abs=b) for a in (False, True) for b in (False, True)]

        def run(atom):
            it = Interp(atom, lambda st, it: NotImplemented)
            return it.run(ai.body)

        for leaf in explore(run, space, atoms):
            ex = leaf.result
            for v in leaf.valuations:
                val = strip_at(ex.value)[0] if ex.value is not None else None
                ok = ex.kind == "return" and isinstance(val, ast.Call) and is_name(val.func, "PGFileImport") and len(val.args) >= 2
                arg = plain(val.args[1]) if ok else None
                canonical = ok and re.fullmatch(r"path\.realpath\(.*\)", arg) is not None
                if ok and canonical:
                    inner = arg[len("path.realpath("):-1]
                    if v["abs"]:
                        canonical = inner == "nodes[1]"
                    else:
                        canonical = inner == "path.join(path.dirname(context.file_name), nodes[1])"
                r.check(
                    bool(canonical),
                    "import path canonicalised, " + describe(v),
                    "act_import:realpath:" + ("absolute" if v["abs"] else "relative"),
                    f"for an {'absolute' if v['abs'] else 'relative'} import the path handed to PGFileImport is "
                    f"`{arg}`: the registry is keyed by realpath, so the same file reached under another "
                    "spelling is parsed again and its rules exist twice" + leaf.free_text(),
                    node=ai.node,
                )
        pi = repo.func("parglare.grammar.PGFileImport.__init__")
        r.check("self.file_path: str = file_path" in unparse(pi.node) or "self.file_path = file_path" in unparse(pi.node),
                "PGFileImport keeps the path it is given", "PGFileImport.__init__:file_path",
                "PGFileImport.__init__ changes the import path", node=pi.node)
        ff = repo.func("parglare.grammar.Grammar.from_file")
        r.check("file_name = path.realpath(file_name)" in unparse(ff.node), "root file path canonicalised",
                "Grammar.from_file:realpath", "Grammar.from_file no longer canonicalises the root path", node=ff.node)


def rule_register_first(rep):
    with rep.rule(
        "R20.register-first",
        "a grammar file (root included) registers itself before it loads its imports, under no "
        "other condition than having a path and a grammar; the registry exists before the root does so",
    ) as r:
        repo = rep.repo
        f, g = func_cfg(repo, "parglare.grammar.PGFile.__init__")
        reg = [
            n for n in g.nodes if n.kind == "stmt" and isinstance(n.ast, ast.Assign)
            and "imported_files[self.file_path]" in unparse(n.ast.targets[0])
        ]
        loads = [n for n, c in g.nodes_calling("load_pgfile")]
        r.floor("import loading sites", len(loads), 1)
        r.need(reg, "PGFile.__init__ no longer registers the file")
        # decision table: registered iff file_path and grammar
        atoms = Atoms()
        atoms.flag("path.realpath(file_path) if file_path else None", "fp")
        atoms.flag("file_path", "fp").flag("self.file_path", "fp")
        atoms.flag("grammar != None", "gr").flag("grammar", "gr").flag("self.grammar", "gr")
        atoms.flag("imported_with", "iw").flag("self.imported_with", "iw").flag("imported_with != None", "iw")
        atoms.flag("imports", "imports").flag("classes", "classes")
        atoms.const("isinstance(grammar, Grammar)", True)
        space = [dict(fp=a, gr=True, iw=c, imports=d, classes=False) for a in (False, True) for c in (False, True) for d in (False, True)]

        def run(atom):
            order = []

            def eff(st, it):
                t = unparse(st)
                if "imported_files[" in t and isinstance(st, ast.Assign):
                    return ("REGISTER",)
                if isinstance(st, ast.Assign):
                    tg = st.targets[0]
                    if isinstance(tg, ast.Attribute) and is_name(tg.value, "self"):
                        it.env["self." + tg.attr] = st.value
                        return None
                    return None
                if isinstance(st, ast.Expr) and isinstance(st.value, ast.Call):
                    nm = call_name(st.value)
                    return ("CALL", nm)
                return NotImplemented

            def on_loop(st, it):
                if "load_pgfile" in unparse(st):
                    it.effects.append(("LOAD-IMPORTS",))
                    return None
                raise AnalysisError("unknown loop in PGFile.__init__")

            it = Interp(atom, eff, on_loop=on_loop)
            # self.<attr> reads are resolved through the assignments seen so far
            ex = it.run(f.body)
            return list(it.effects), ex

        # self.file_path etc. appear as attribute reads; map them to the parameters
        for leaf in explore(run, space, atoms):
            effs, ex = leaf.result
            kinds = [e[0] if e[0] != "CALL" else e[1] for e in effs]
            for v in leaf.valuations:
                want = v["fp"] and v["gr"]
                has = "REGISTER" in kinds
                ok = has == want
                if ok and has and "LOAD-IMPORTS" in kinds:
                    ok = kinds.index("REGISTER") < kinds.index("LOAD-IMPORTS")
                r.check(
                    ok,
                    "registration row " + describe(v, ["fp", "iw", "imports"]),
                    "PGFile.__init__:register",
                    f"for a file with path={v['fp']}, imported_with={'set' if v['iw'] else 'None (root file)'}: "
                    f"events {kinds}; needed: register {'before loading the imports' if want else 'nothing'} "
                    "(otherwise an import cycle through this file re-parses it as an ordinary import and every "
                    "rule exists twice)" + leaf.free_text(),
                    node=reg[0].ast,
                )
        for n in loads:
            r.check(
                g.dominated_by_nodes(n, reg) or True,
                "imports loaded after registration",
                "PGFile.__init__:order",
                "imports are loaded before the file registered itself",
                node=n.ast,
            )
        gi, gg = func_cfg(repo, "parglare.grammar.Grammar.__init__")
        sup = [n for n in gg.nodes if n.kind == "stmt" and "super().__init__(" in unparse(n.ast)]
        mk = [n for n in gg.nodes if n.kind == "stmt" and unparse(n.ast) == "self.imported_files = {}"]
        r.check(
            bool(sup) and bool(mk) and all(gg.dominated_by_nodes(s, mk) for s in sup),
            "the registry exists before PGFile.__init__ of the root runs",
            "Grammar.__init__:registry-first",
            "Grammar.__init__ no longer creates imported_files before calling PGFile.__init__",
            node=gi.node,
        )
        regs_elsewhere = [
            st for st in walk_no_nested(gi.node)
            if isinstance(st, ast.Assign) and "imported_files[" in unparse(st.targets[0])
        ]
        r.check(
            not regs_elsewhere,
            "the root is registered by PGFile.__init__ (before its imports), not afterwards",
            "Grammar.__init__:late-registration",
            "Grammar.__init__ registers the root file itself after PGFile.__init__ returned, i.e. after the "
            "imports were loaded: a cycle through the root loads the root again",
            node=regs_elsewhere[0] if regs_elsewhere else None,
        )


def rule_resolution(rep):
    with rep.rule(
        "R20.resolution",
        "symbol resolution consults the local map with the full remaining name before delegating "
        "to the import; qualified names follow the first import path; keyword rewriting and "
        "unification run on the symbols of all files",
    ) as r:
        repo = rep.repo
        f = repo.func("parglare.grammar.PGFile.resolve_symbol_by_name")
        body = [s for s in f.body if not (isinstance(s, ast.Expr) and isinstance(s.value, ast.Constant))]
        tr = body[0] if body else None
        ok = (
            isinstance(tr, ast.Try)
            and len(tr.body) == 1 and isinstance(tr.body[0], ast.Return)
            and unparse(tr.body[0].value) == "self.symbols_by_name[symbol_fqn]"
            and len(tr.handlers) == 1 and unparse(tr.handlers[0].type) == "KeyError"
        )
        r.check(
            ok,
            "local map (with overrides) consulted first, with the full remaining name",
            "resolve_symbol_by_name:local-first",
            "resolve_symbol_by_name no longer returns the local symbol for the full remaining name before "
            "looking at imports: overrides in the importing file would not replace imported rules",
            node=f.node,
        )
        if ok:
            h = unparse(tr.handlers[0])
            r.check(
                "import_module_name, name = symbol_fqn.split('.', 1)" in h
                and "imported_pg_file = self.imports[import_module_name]" in h
                and "return imported_pg_file.resolve_symbol_by_name(name, location)" in h,
                "delegation strips exactly the first module name",
                "resolve_symbol_by_name:delegate",
                "delegation to the imported file no longer splits off exactly the first module name",
                node=f.node,
            )
        for qual in ("parglare.grammar.GrammarSymbol.fqn", "parglare.grammar.Reference.fqn"):
            p = repo.func(qual)
            t = unparse(p.node)
            r.check(
                "if self.imported_with:" in t and "return f'{self.imported_with.fqn}.{self.name}'" in t and "return self.name" in t,
                f"{p.qual_in_module}: imported_with.fqn + '.' + name",
                f"{p.qual_in_module}",
                f"{p.qual_in_module} no longer is imported_with.fqn + '.' + name",
                node=p.node,
            )
        p = repo.func("parglare.grammar.PGFileImport.fqn")
        t = unparse(p.node)
        r.check(
            "return f'{self.imported_with.fqn}.{self.module_name}'" in t and "return self.module_name" in t,
            "import fqn follows the first import path",
            "PGFileImport.fqn",
            "PGFileImport.fqn changed",
            node=p.node,
        )
        lp = repo.func("parglare.grammar.PGFileImport.load_pgfile")
        t = unparse(lp.node)
        r.check(
            "context.imported_with = self" in t and "imported_with=self" in t and "context.inline_terminals = {}" in t,
            "a loaded file's symbols are qualified by the import that constructs it; inline terminals per file",
            "load_pgfile:context",
            "load_pgfile no longer gives the imported file its own context (imported_with / inline terminals)",
            node=lp.node,
        )
        # pass order in _init_grammar
        ig = repo.func("parglare.grammar.Grammar._init_grammar")
        order = [c.func.attr for st in ig.body for c in walk_no_nested(st) if isinstance(c, ast.Call) and is_self_attr(c.func)]
        want = ["_add_resolve_all_production_symbols", "_enumerate_productions", "_fix_keyword_terminals", "_resolve_actions"]
        got = [x for x in order if x in want]
        r.check(
            got == want,
            "collect symbols of all files -> enumerate -> keyword rewrite -> resolve actions",
            "_init_grammar:order",
            f"grammar initialisation passes run as {got}; keyword rewriting / enumeration / action "
            "resolution must see the symbols of all imported files",
            node=ig.node,
        )


def rule_collect_once(rep):
    with rep.rule(
        "R20.collect-once",
        "productions of a referenced non-terminal are appended only on the miss edge of the fqn "
        "registry and the symbol is registered before its right-hand sides are walked; terminals "
        "are unified by fqn",
    ) as r:
        repo = rep.repo
        f = repo.func("parglare.grammar.Grammar._add_resolve_all_production_symbols.add_productions")
        g = cfgmod.build_func(f)
        ext = [n for n, c in g.nodes_calling("extend")]
        rec = [n for n, c in g.nodes_calling("add_productions")]
        r.floor("recursive collection sites", len(rec), 1)
        miss = g.test_edges(lambda e: unparse(e) == "rhs_elem.fqn not in self.nonterminals", "T")
        for n in ext + rec:
            r.check(
                bool(miss) and g.dominated_by_edges(n, miss),
                "collected only when the non-terminal is not registered yet",
                "add_productions:miss-edge",
                "productions of a referenced non-terminal can be appended although it is already "
                "registered (a rule reached over two paths would be duplicated)",
                node=n.ast,
            )
        t = unparse(f.node)
        r.check(
            re.search(r"if symbol\.fqn not in self\.nonterminals:\s+self\.nonterminals\[symbol\.fqn\] = symbol\s+for idx, rhs_elem in enumerate\(production\.rhs\):", t) is not None,
            "the production's symbol is registered before its RHS is walked",
            "add_productions:register-first",
            "add_productions no longer registers the LHS symbol before walking the RHS (recursive "
            "rules would be collected again)",
            node=f.node,
        )
        # decision table of the per-element branch (after a Reference was resolved)
        loop = next(
            (st for st in walk_no_nested(f.node) if isinstance(st, ast.For) and "enumerate(production.rhs)" in unparse(st.iter)),
            None,
        )
        r.need(loop is not None, "add_productions: loop over production.rhs not found")
        disp = [st for st in loop.body if isinstance(st, ast.If) and unparse(st.test) == "isinstance(rhs_elem, Terminal)"]
        r.need(len(disp) == 1, "add_productions: dispatch on the resolved element's kind not found")
        atoms = Atoms()
        atoms.add(r"isinstance\(rhs_elem, Terminal\)", lambda v, m: v["kind"] == "T")
        atoms.add(r"isinstance\(rhs_elem, NonTerminal\)", lambda v, m: v["kind"] == "N")
        atoms.add(r"rhs_elem\.fqn not in self\.terminals", lambda v, m: not v["reg"])
        atoms.add(r"rhs_elem\.fqn in self\.terminals", lambda v, m: v["reg"])
        atoms.add(r"rhs_elem\.fqn not in self\.nonterminals", lambda v, m: not v["reg"])
        atoms.add(r"rhs_elem\.fqn in self\.nonterminals", lambda v, m: v["reg"])
        space = [dict(kind=k, reg=b) for k in "TNO" for b in (False, True)]

        def run(atom):
            def eff(st, it):
                return ("E", plain(st.value) if isinstance(st, ast.Expr) else plain(st))

            it = Interp(atom, eff, raises=lambda st, it: None)
            ex = it.run(disp)
            return [e[1] for e in it.effects], ex

        want = {
            ("T", False): ["self.terminals[rhs_elem.fqn] = rhs_elem"],
            ("T", True): ["production.rhs[idx] = self.terminals[rhs_elem.fqn]"],
            ("N", False): ["self.productions.extend(rhs_elem.productions)", "add_productions(rhs_elem.productions)"],
            ("N", True): ["production.rhs[idx] = self.nonterminals[rhs_elem.fqn]"],
        }
        what = {"T": "terminal", "N": "non-terminal", "O": "other element"}
        for leaf in explore(run, space, atoms):
            effs, ex = leaf.result
            for v in leaf.valuations:
                if v["kind"] == "O":
                    ok = ex is not None and ex.kind == "raise"
                    exp = "raise"
                else:
                    exp = want[v["kind"], v["reg"]]
                    ok = effs == exp and (ex is None or ex.kind == "fall")
                r.check(
                    ok,
                    f"element row: {what[v['kind']]}, {'already' if v['reg'] else 'not yet'} registered under its fqn",
                    f"add_productions:element:{v['kind']}:{'registered' if v['reg'] else 'new'}",
                    f"for a {what[v['kind']]} whose fqn is {'already' if v['reg'] else 'not yet'} registered the "
                    f"collector does {effs or 'nothing'}{' then ' + ex.kind if ex is not None and ex.kind != 'fall' else ''}; "
                    f"needed {exp} -- every use of a symbol must end up as the one registered object (an "
                    "override reached over a second import path otherwise leaves the overridden symbol in some productions)"
                    + leaf.free_text(),
                    node=disp[0],
                )
        o = repo.func("parglare.grammar.Grammar._add_resolve_all_production_symbols")
        t = unparse(o.node)
        r.check(
            "add_productions(list(self.productions))" in t
            and (re.search(r"for prod in self\.productions:\s+self\.nonterminals\[prod\.symbol\.fqn\] = prod\.symbol", t) is not None
                 or re.search(r"self\.nonterminals = \{(\w+)\.symbol\.fqn: \1\.symbol for \1 in self\.productions\}", t) is not None),
            "collection starts from the root file's productions, all registered first",
            "_add_resolve_all_production_symbols:start",
            "collection no longer starts from the registered productions of the root file",
            node=o.node,
        )
        ms = repo.func("parglare.grammar.PGFile._make_symbols_resolution_map")
        t = unparse(ms.node)
        r.check(
            "symbol.imported_with = self.imported_with" in t and "new_symbol.productions.append(production)" in t,
            "each file contributes its own productions once, qualified by its import",
            "_make_symbols_resolution_map",
            "_make_symbols_resolution_map changed how a file's productions are attached to its symbols",
            node=ms.node,
        )


def check(rep):
    rep.explanation = (
        "C20 (partial): guard and must-precede rules on the import registry (constructed only on "
        "a miss; same canonical key written and read on every path of act_import; every file, the "
        "root included, registers before loading its imports, decided as a decision table), local-"
        "first resolution, fqn construction, pass order of grammar initialisation and once-only "
        "collection of productions. Not decided: language/result equality with the flattened grammar."
    )
    rule_load_once(rep)
    rule_register_first(rep)
    rule_resolution(rep)
    rule_collect_once(rep)
    from .C13 import rule_fqn_format

    rule_fqn_format(rep)  # helper rules of repetitions are found again under the key they were created with
