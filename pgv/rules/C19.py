"""C19 -- string terminals match their literal text; KEYWORD adds whole-word matching."""
from __future__ import annotations

import ast
import re

from .. import cfg as cfgmod
from ..core import (
    AnalysisError,
    UnknownAtom,
    call_name,
    is_name,
    is_self_attr,
    plain,
    unparse,
    walk_no_nested,
)
from ..interp import Interp
from ..table import Atoms, describe, explore
from .common import kw
from .tables_region import N


def rule_keyword_rewrite(rep, boundary=True):
    with rep.rule(
        "R19.kw-rewrite",
        "a string terminal is rewritten to a keyword iff the KEYWORD regex matches its whole text; "
        "the rewrite escapes the text, forwards ignore_case, sets keyword=True, and runs after all "
        "terminals (also imported ones) are collected",
    ) as r:
        repo = rep.repo
        f = repo.func("parglare.grammar.Grammar._fix_keyword_terminals")
        loop = next((s for s in f.body if isinstance(s, ast.For)), None)
        r.need(loop is not None and isinstance(loop.target, ast.Name), "_fix_keyword_terminals: terminal loop not found")
        r.check(
            unparse(loop.iter) == "self.terminals.values()",
            "all terminals of the grammar are examined",
            "_fix_keyword_terminals:domain",
            f"keyword rewriting ranges over {unparse(loop.iter)}, not over all terminals of the grammar",
            node=loop,
        )
        t = loop.target.id
        # keyword_rec is the KEYWORD terminal's recogniser
        txt = unparse(f.node)
        r.need("keyword_rec = keyword_term.recognizer" in txt and "keyword_term = self.get_terminal('KEYWORD')" in txt,
               "_fix_keyword_terminals: KEYWORD recogniser binding changed")
        atoms = Atoms()
        atoms.flag("isinstance(T.recognizer, StringRecognizer)", "string")
        atoms.flag("type(T.recognizer) == StringRecognizer", "string")
        atoms.flag("keyword_rec(T.recognizer.value, 0) == T.recognizer.value", "full")
        atoms.flag("T.recognizer.value == keyword_rec(T.recognizer.value, 0)", "full")
        space = [dict(string=s, full=fl) for s in (False, True) for fl in (False, True) if s or not fl]

        def run(atom):
            def eff(st, it):
                if isinstance(st, ast.Assign):
                    tg = plain(st.targets[0])
                    if tg == "T.recognizer":
                        return ("RECOGNIZER", st.value)
                    if tg == "T.keyword":
                        return ("KEYWORD", plain(st.value))
                return NotImplemented
            it = Interp(atom, eff, env={t: N("T")})
            ex = it.run(loop.body)
            return list(it.effects), ex

        for leaf in explore(run, space, atoms):
            effs, ex = leaf.result
            for v in leaf.valuations:
                rew = v["string"] and v["full"]
                recs = [e for e in effs if e[0] == "RECOGNIZER"]
                kws = [e for e in effs if e[0] == "KEYWORD"]
                if rew:
                    ok = len(recs) == 1 and kws == [("KEYWORD", "True")] and ex.kind == "fall"
                else:
                    ok = not recs and not kws and ex.kind in ("fall", "continue")
                r.check(
                    ok,
                    "keyword rewrite row " + describe(v),
                    "_fix_keyword_terminals:" + ("rewrite" if rew else "keep"),
                    f"for {describe(v)} (string recogniser / KEYWORD matches the whole text): the code "
                    f"{'rewrites' if recs else 'does not rewrite'} the recogniser and sets keyword={[k[1] for k in kws]}; "
                    f"documented: rewrite and keyword=True iff both hold" + leaf.free_text(),
                    node=loop,
                )
                if rew and ok:
                    c = recs[0][1]
                    from ..core import strip_at
                    c = strip_at(c)[0]
                    ok2 = isinstance(c, ast.Call) and is_name(c.func, "RegExRecognizer") and c.args
                    r.need(ok2, "keyword recogniser is not a RegExRecognizer(...) construction")
                    pat = c.args[0]
                    _check_pattern(r, pat, boundary)
                    ic = kw(c, "ignore_case")
                    r.check(
                        ic is not None and plain(ic) == "T.recognizer.ignore_case",
                        "ignore_case forwarded to the rewritten recogniser",
                        "_fix_keyword_terminals:ignore_case",
                        f"the keyword recogniser is built with ignore_case={plain(ic) if ic is not None else None}",
                        node=loop,
                    )
        # must run after the terminals of all files are collected
        ig = repo.func("parglare.grammar.Grammar._init_grammar")
        order = [
            c.func.attr for st in ig.body for c in walk_no_nested(st)
            if isinstance(c, ast.Call) and is_self_attr(c.func)
        ]
        r.need("_fix_keyword_terminals" in order and "_add_resolve_all_production_symbols" in order,
               "_init_grammar: pass order not found")
        r.check(
            order.index("_add_resolve_all_production_symbols") < order.index("_fix_keyword_terminals"),
            "keyword rewriting runs after the symbols of all (imported) files are collected",
            "_init_grammar:order",
            "_fix_keyword_terminals runs before _add_resolve_all_production_symbols: string terminals "
            "that live only in imported files are not in self.terminals yet and keep matching anywhere",
            node=ig.node,
        )
        r.check(
            order.index("_fix_keyword_terminals") < order.index("_resolve_actions") if "_resolve_actions" in order else True,
            "pass order",
            "_init_grammar:order2",
            "pass order changed",
            node=ig.node,
        )


def _check_pattern(r, pat, boundary=True):
    """the regex template of a keyword: \\b + re.escape(text) + \\b"""
    from ..core import strip_at
    pat = strip_at(pat)[0]
    if not isinstance(pat, ast.JoinedStr):
        raise AnalysisError(f"keyword pattern is not an f-string template: {unparse(pat)[:60]}")
    consts = [v.value for v in pat.values if isinstance(v, ast.Constant)]
    holes = [v for v in pat.values if isinstance(v, ast.FormattedValue)]
    for h in holes:
        e = strip_at(h.value)[0]
        txt = plain(e)
        ok = isinstance(e, ast.Call) and unparse(e.func) == "re.escape" and len(e.args) == 1
        r.check(
            ok,
            f"literal text enters the regex through re.escape ({txt[:40]})",
            "_fix_keyword_terminals:escape",
            f"keyword text is interpolated into the regex as `{txt[:60]}` without re.escape: a keyword "
            "with regex metacharacters (c++, a.b) matches other texts and not itself",
            node=pat,
        )
        if ok:
            inner = plain(e.args[0])
            r.check(
                inner in ("keyword_rec(T.recognizer.value, 0)", "T.recognizer.value"),
                "the escaped text is the terminal's literal",
                "_fix_keyword_terminals:escaped-text",
                f"the keyword regex is built from `{inner[:60]}`, not from the terminal's literal text",
                node=pat,
            )
    shape = "".join(c if isinstance(c, str) else "" for c in consts)
    first = pat.values[0].value if isinstance(pat.values[0], ast.Constant) else ""
    last = pat.values[-1].value if isinstance(pat.values[-1], ast.Constant) else ""
    lookaround = first.endswith("(?<!\\w)") and last.startswith("(?!\\w)")
    wordb = first == "\\b" and last == "\\b"
    r.check(
        (wordb or lookaround) and len(holes) == 1,
        "word-boundary guards on both sides of the text",
        "_fix_keyword_terminals:guards",
        f"keyword regex template is {unparse(pat)}: no whole-word guard on both sides of the text",
        node=pat,
    )
    if wordb and boundary:
        r.violation(
            "_fix_keyword_terminals:word-boundary",
            "the rewrite template uses \\b...\\b; the property says 'not immediately preceded or followed "
            "by a word character' (look-arounds). \\b equals that only if the keyword starts and ends with a "
            "word character, which a user KEYWORD regex does not guarantee",
            node=pat,
        )


def rule_inline_vs_declared(rep):
    with rep.rule(
        "R19.inline-form",
        "inline and declared strings use one recogniser builder; the reference created for an "
        "inline string, the registered terminal and its registry key use one (escaped) name form",
    ) as r:
        repo = rep.repo
        f = repo.func("parglare.grammar.act_gsymbol_string_recognizer")
        txt = unparse(f.node)
        r.check(
            "recognizer = act_recognizer_str(context, nodes)" in txt,
            "inline strings obtain their recogniser from act_recognizer_str",
            "act_gsymbol_string_recognizer:builder",
            "inline string terminals no longer use act_recognizer_str (the declared form's builder)",
            node=f.node,
        )
        ref = [c for c in walk_no_nested(f.node) if isinstance(c, ast.Call) and is_name(c.func, "Reference")]
        r.need(len(ref) == 1, "act_gsymbol_string_recognizer: Reference construction not found")
        name_arg = ref[0].args[1] if len(ref[0].args) > 1 else kw(ref[0], "name")
        r.check(
            unparse(name_arg) == "escape(recognizer.name)",
            "reference name = escape(text): the form terminal names are stored in",
            "act_gsymbol_string_recognizer:reference-name",
            f"the reference to an inline string is named {unparse(name_arg)}; terminals are registered "
            "under escape(text) (GrammarSymbol.__init__), so texts with newline/tab would be unknown symbols",
            node=ref[0],
        )
        term = [c for c in walk_no_nested(f.node) if isinstance(c, ast.Call) and is_name(c.func, "Terminal")]
        r.need(len(term) == 1, "act_gsymbol_string_recognizer: Terminal construction not found")
        r.check(
            unparse(term[0].args[0]) == "terminal_ref.name" and unparse(term[0].args[1]) == "recognizer",
            "Terminal(reference name, recogniser)",
            "act_gsymbol_string_recognizer:terminal",
            f"the inline terminal is constructed as {unparse(term[0])[:80]}",
            node=term[0],
        )
        r.check(
            "context.extra.inline_terminals[terminal_ref.name] = Terminal(" in txt
            and "if terminal_ref.name not in context.extra.inline_terminals" in txt,
            "one terminal per inline text, keyed by the reference name",
            "act_gsymbol_string_recognizer:registry",
            "inline terminals are no longer registered once per reference name",
            node=f.node,
        )
        gs = repo.func("parglare.grammar.GrammarSymbol.__init__")
        r.check("self.name = escape(name)" in unparse(gs.node), "symbol names are stored escaped",
                "GrammarSymbol.__init__:escape", "GrammarSymbol no longer stores escape(name)", node=gs.node)
        # declared form uses the same builder
        gm = repo.module("parglare.grammar")
        pa = gm.globals_assigned.get("pg_actions")
        ok = False
        if pa is not None and isinstance(pa.value, ast.Dict):
            for k, v in zip(pa.value.keys, pa.value.values):
                if isinstance(k, ast.Constant) and k.value == "Recognizer":
                    ok = isinstance(v, ast.List) and unparse(v.elts[0]) == "act_recognizer_str"
        r.check(ok, "declared string recognisers are built by act_recognizer_str",
                "pg_actions:Recognizer", "the declared form no longer uses act_recognizer_str", node=pa)
        ars = repo.func("parglare.grammar.act_recognizer_str")
        r.check(
            "return StringRecognizer(value, ignore_case=context.extra.ignore_case)" in unparse(ars.node),
            "string recogniser built from the unescaped text with the grammar's ignore_case",
            "act_recognizer_str:result",
            "act_recognizer_str no longer returns StringRecognizer(value, ignore_case=...)",
            node=ars.node,
        )
        t = repo.func("parglare.grammar.Terminal.__init__")
        r.check("self.recognizer = recognizer if recognizer else StringRecognizer(name)" in unparse(t.node),
                "a terminal without recogniser matches its own name", "Terminal.__init__:default",
                "Terminal default recogniser changed", node=t.node)


def rule_qualified_split(rep):
    with rep.rule(
        "R19.qualified-split",
        "names derived from string literals never reach the qualified-name ('.') logic: override "
        "validation skips inline string terminals; helper names generated from them are looked up "
        "without the unexisting-module error",
    ) as r:
        repo = rep.repo
        f = repo.func("parglare.grammar.PGFile._check_overrides")
        loop = next((s for s in f.body if isinstance(s, ast.For)), None)
        r.need(loop is not None, "_check_overrides: loop not found")
        g = cfgmod.build_region(loop.body)
        dots = [n for n in g.nodes if n.kind == "test" and re.fullmatch(r"'\.' in \w+", unparse(n.ast))]
        r.floor("qualified-name tests in _check_overrides", len(dots), 1)
        guard_t = g.test_edges(
            lambda e: unparse(e) in ("escape(symbol.recognizer.value) == symbol_fqn", "symbol.name == escape(symbol.recognizer.value)"),
            "F",
        )
        is_str = g.test_edges(lambda e: unparse(e) == "isinstance(symbol.recognizer, StringRecognizer)", "F")
        is_term = g.test_edges(lambda e: unparse(e) == "isinstance(symbol, Terminal)", "F")
        for d in dots:
            r.check(
                bool(guard_t) and g.dominated_by_edges(d, guard_t + is_str + is_term),
                "the '.' test is reached only for symbols that are not inline string terminals",
                "_check_overrides:inline-guard",
                "the qualified-name test of _check_overrides is reachable for inline string terminals "
                "(named by their escaped text): `S: ID \".\" ID;` is rejected as an override of an unknown module",
                node=d.ast,
            )
        # generated names
        gen = repo.func("parglare.grammar.Grammar._resolve_generated_symbol", required=False)
        ok_helper = False
        if gen is not None:
            t = unparse(gen.node)
            ok_helper = re.search(r"try:\s+return self\.resolve_symbol_by_name\(symbol_name\)\s+except GrammarError:\s+return None", t) is not None
        n = 0
        for qual in ("parglare.grammar.Grammar._resolve_ref", "parglare.grammar.Grammar._make_multiplicity_symbol"):
            fn = repo.func(qual)
            gen_names = set()
            for st in walk_no_nested(fn.node):
                if isinstance(st, ast.Assign) and isinstance(st.targets[0], ast.Name):
                    v = unparse(st.value)
                    if "multiplicity_fqn" in v:
                        gen_names.add(st.targets[0].id)
            for c in walk_no_nested(fn.node):
                if isinstance(c, ast.Call) and is_self_attr(c.func) and c.args and isinstance(c.args[0], ast.Name) and c.args[0].id in gen_names:
                    if c.func.attr in ("resolve_symbol_by_name", "_resolve_generated_symbol"):
                        n += 1
                        r.check(
                            c.func.attr == "_resolve_generated_symbol" and ok_helper,
                            f"{fn.name}: generated name looked up without the module error",
                            f"{fn.name}:generated-lookup",
                            f"{fn.name} looks a generated helper name up with {c.func.attr}(): for a base "
                            "symbol whose name contains a dot (inline \".\") the lookup raises 'Unexisting module'",
                            node=c,
                        )
        r.floor("lookups of generated helper names", n, 2)


def rule_escape_chain(rep):
    with rep.rule(
        "R19.escape-chain",
        "the unescape chain of string constants has no step whose output can form the input of a "
        "later step (beyond the two hazards recorded as known findings)",
    ) as r:
        repo = rep.repo
        f = repo.func("parglare.grammar.act_recognizer_str")
        # collect the .replace(a, b) chain in evaluation order
        chain = []
        for st in f.body:
            if isinstance(st, ast.Assign) and is_name(st.targets[0], "value"):
                e = st.value
                steps = []
                while isinstance(e, ast.Call) and isinstance(e.func, ast.Attribute) and e.func.attr == "replace":
                    a, b = e.args
                    if not (isinstance(a, ast.Constant) and isinstance(b, ast.Constant)):
                        raise AnalysisError("escape chain with non-constant arguments")
                    steps.append((a.value, b.value))
                    e = e.func.value
                chain += list(reversed(steps))
        r.floor("unescape steps", len(chain), 5)
        r.fact("chain", [f"{a!r}->{b!r}" for a, b in chain])
        for i, (a, b) in enumerate(chain):
            for j in range(i + 1, len(chain)):
                a2, b2 = chain[j]
                # output b of step i ends with a prefix of pattern a2 (then following input completes it)
                hazard = any(b.endswith(a2[:k]) for k in range(1, len(a2))) or a2 in b
                if hazard:
                    r.violation(
                        f"act_recognizer_str:{a!r} before {a2!r}",
                        f"unescape step {a!r}->{b!r} runs before {a2!r}->{b2!r}: its output can complete the "
                        f"later pattern, so the text is unescaped twice (e.g. the constant {a + a2[1:]!r} "
                        f"becomes {b2!r} instead of {b + a2[1:]!r})",
                        node=f.node,
                    )
                else:
                    r.ok(f"{a!r} then {a2!r}: no interference")
        wanted = {r"\"": '"', r"\'": "'", "\\\\": "\\", r"\n": "\n", r"\t": "\t"}
        r.check(
            dict(chain) == wanted,
            "escape sequences handled: \\\" \\' \\\\ \\n \\t",
            "act_recognizer_str:sequences",
            f"escape table changed: {dict(chain)}",
            node=f.node,
        )


def rule_rank_and_hidden(rep):
    with rep.rule(
        "R19.keyword-rank",
        "keyword terminals are ranked and flagged like string recognisers (sort key by keyword "
        "text length, finish flag); the KEYWORD terminal itself is hidden from tokens_ahead",
    ) as r:
        repo = rep.repo
        from .C07 import rule_sort_key_checks

        rule_sort_key_checks(r, repo)
        cf = repo.func("parglare.tables.LRTable.calc_finish_flags")
        r.check("or symbol.keyword" in unparse(cf.node), "keywords get the finish flag like strings",
                "calc_finish_flags:keyword", "keyword terminals no longer get the implicit finish flag",
                node=cf.node)
        f = repo.func("parglare.parser.Parser._get_all_possible_tokens_ahead")
        loop = next((s for s in walk_no_nested(f.node) if isinstance(s, ast.For)), None)
        r.need(loop is not None, "_get_all_possible_tokens_ahead: loop not found")
        g = cfgmod.build_region(loop.body)
        rec = [n for n in g.nodes if n.ast is not None and n.kind in ("stmt", "test") and ".recognizer(" in unparse(n.ast)]
        skip = g.test_edges(lambda e: unparse(e) in ("terminal.name == 'KEYWORD'", "terminal.fqn == 'KEYWORD'"), "F")
        r.check(
            bool(rec) and bool(skip) and all(g.dominated_by_edges(n, skip) for n in rec),
            "KEYWORD is never tried when collecting tokens ahead",
            "_get_all_possible_tokens_ahead:KEYWORD",
            "the KEYWORD pseudo terminal can show up in tokens_ahead of an error",
            node=loop,
        )


def check(rep):
    rep.explanation = (
        "C19 (partial): decision table of the keyword rewrite (iff whole-text match; escaped; "
        "ignore_case forwarded; after all files are collected); one recogniser builder and one "
        "escaped name form for inline and declared strings; literal-derived names kept away from "
        "the qualified-name logic; hazard analysis of the unescape chain; keyword rank/flags; "
        "KEYWORD hidden. Known findings: \\b is not a look-around; double unescaping. Not decided: "
        "token choice versus a reference scanner on all inputs."
    )
    rule_keyword_rewrite(rep)
    rule_inline_vs_declared(rep)
    rule_qualified_split(rep)
    rule_escape_chain(rep)
    rule_rank_and_hidden(rep)
    from .C08 import rule_value_is_slice

    rule_value_is_slice(rep)
