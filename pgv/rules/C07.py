"""C07 -- token choice follows the documented lexical disambiguation order."""
from __future__ import annotations

import ast
import itertools
import re

from .. import cfg as cfgmod
from ..core import (
    AnalysisError,
    UnknownAtom,
    call_name,
    dotted,
    is_name,
    is_self_attr,
    strip_at,
    unparse,
    walk_no_nested,
)
from ..interp import Interp
from ..table import Atoms, describe, explore, norm_cmp
from .common import calls_self, func_cfg, self_attr_test
from .tables_region import N


# ------------------------------------------------------------------ R07.sort-key
def _linear(e, env):
    """expr -> list of (coef:int, term) where term is ('const',), ('prior',) or
    ('len', guard_text, arg_text); raises AnalysisError for unknown arithmetic."""
    if isinstance(e, ast.Name) and e.id in env:
        return _linear(env[e.id], env)
    if isinstance(e, ast.Constant) and isinstance(e.value, int) and not isinstance(e.value, bool):
        return [(e.value, ("const",))]
    if isinstance(e, ast.BinOp) and isinstance(e.op, ast.Add):
        return _linear(e.left, env) + _linear(e.right, env)
    if isinstance(e, ast.BinOp) and isinstance(e.op, ast.Sub):
        return _linear(e.left, env) + [(-c, t) for c, t in _linear(e.right, env)]
    if isinstance(e, ast.BinOp) and isinstance(e.op, ast.Mult):
        l, r = e.left, e.right
        if isinstance(r, ast.Constant) and isinstance(r.value, int):
            return [(c * r.value, t) for c, t in _linear(l, env)]
        if isinstance(l, ast.Constant) and isinstance(l.value, int):
            return [(c * l.value, t) for c, t in _linear(r, env)]
    if isinstance(e, ast.Attribute) and e.attr == "prior" and isinstance(e.value, ast.Name):
        return [(1, ("prior",))]
    if isinstance(e, ast.IfExp):
        orelse = _linear(e.orelse, env)
        if not (len(orelse) == 1 and orelse[0] == (0, ("const",))):
            raise AnalysisError(f"sort key: conditional term with non-zero else: {unparse(e)}")
        body = _linear(e.body, env)
        out = []
        for c, t in body:
            if t[0] == "len":
                out.append((c, ("len", norm_cmp(unparse(e.test)), t[2])))
            elif t[0] == "const":
                out.append((c, ("gconst", norm_cmp(unparse(e.test)))))
            else:
                raise AnalysisError(f"sort key: unsupported conditional term {unparse(e)}")
        return out
    if isinstance(e, ast.Call) and is_name(e.func, "len") and len(e.args) == 1:
        return [(1, ("len", None, unparse(e.args[0])))]
    raise AnalysisError(f"sort key: unsupported arithmetic {unparse(e)}")


STRING_GUARDS = (
    "type(S.recognizer) == StringRecognizer",
    "isinstance(S.recognizer, StringRecognizer)",
)
KEYWORD_GUARDS = (
    "type(S.recognizer) == RegExRecognizer and S.keyword",
    "S.keyword",
    "S.keyword and type(S.recognizer) == RegExRecognizer",
    "isinstance(S.recognizer, RegExRecognizer) and S.keyword",
)


def rule_sort_key(rep):
    with rep.rule(
        "R07.sort-key",
        "candidate order = priority (desc), string/keyword before regex, longer text first, "
        "unique name last; sorted descending",
    ) as r:
        rule_sort_key_checks(r, rep.repo)


def rule_sort_key_checks(r, repo):
    f = repo.func("parglare.tables.LRTable.sort_state_actions")
    sorts = [c for c in walk_no_nested(f.node) if isinstance(c, ast.Call) and is_name(c.func, "sorted")]
    r.need(len(sorts) == 1, "expected one sorted(...) call in sort_state_actions")
    s = sorts[0]
    key = next((k.value for k in s.keywords if k.arg == "key"), None)
    rev = next((k.value for k in s.keywords if k.arg == "reverse"), None)
    r.need(isinstance(key, ast.Name), "sorted(key=...) is not a local function")
    kf = repo.func(f"parglare.tables.LRTable.sort_state_actions.{key.id}")
    r.check(
        "actions.items()" in unparse(s.args[0]),
        "sort ranges over the whole action dict of the state",
        "sort_state_actions:domain",
        f"sorted() ranges over {unparse(s.args[0])}",
        node=s,
    )
    descending = isinstance(rev, ast.Constant) and rev.value is True
    # key function: locals -> env
    env = {}
    sym = None
    ret = None
    for st in kf.body:
        if isinstance(st, ast.Expr) and isinstance(st.value, ast.Constant):
            continue
        if isinstance(st, ast.Assign) and isinstance(st.targets[0], ast.Tuple) and is_name(st.value, kf.params[0]):
            sym = st.targets[0].elts[0].id
        elif isinstance(st, ast.Assign) and isinstance(st.targets[0], ast.Name):
            env[st.targets[0].id] = st.value
        elif isinstance(st, ast.Return):
            ret = st.value
        else:
            raise AnalysisError(f"act_order: unsupported statement {unparse(st)[:60]}")
    r.need(sym is not None and ret is not None, "act_order: (symbol, action) unpacking / return not found")
    while isinstance(ret, ast.Name) and ret.id in env:
        ret = env[ret.id]

    def canon(t):
        return re.sub(rf"\b{re.escape(sym)}\b", "S", t) if t else t

    # two accepted shapes: formatted fixed-width string, or a tuple
    comps = None
    if (
        isinstance(ret, ast.Call)
        and isinstance(ret.func, ast.Attribute)
        and ret.func.attr == "format"
        and isinstance(ret.func.value, ast.Constant)
    ):
        fmt = ret.func.value.value
        m = re.fullmatch(r"\{:0(\d+)d\}\{(?::(\d*)s)?\}", fmt)
        r.need(m is not None and len(ret.args) == 2, f"act_order: unknown key format {fmt!r}")
        width = int(m.group(1))
        lin = _linear(ret.args[0], env)
        name_expr = unparse(ret.args[1])
        r.fact("key_format", fmt)
        # linear form: K*prior + c + len terms
        K = sum(c for c, t in lin if t == ("prior",))
        c0 = sum(c for c, t in lin if t == ("const",))
        lens = [(c, t) for c, t in lin if t[0] == "len"]
        other = [(c, t) for c, t in lin if t[0] not in ("prior", "const", "len")]
        r.need(not other, f"act_order: unsupported key terms {other}")
        r.fact("linear_form", f"{K}*prior + {c0} + " + " + ".join(f"{c}*len({t[2]})[{t[1]}]" for c, t in lens))
        r.check(
            K > 0 and c0 >= 0 and K > c0,
            "priority dominates (coefficient > offset; terminals shorter than K - offset)",
            "act_order:priority-weight",
            f"priority weight {K} does not dominate the specificity offset {c0}",
            node=ret,
        )
        r.check(
            width >= len(str(K * 10**5)),
            "fixed-width zero padded number => string order == numeric order",
            "act_order:width",
            f"key number is rendered with width {width}, too narrow for priority*{K}",
            node=ret,
        )
        comps = ("linear", lens)
    elif isinstance(ret, ast.Tuple) and len(ret.elts) >= 3:
        r.need(unparse(ret.elts[0]) == f"{sym}.prior", "tuple key must start with the priority")
        lens = []
        for el in ret.elts[1:-1]:
            try:
                lens += [(c, t) for c, t in _linear(el, env) if t[0] == "len"]
            except AnalysisError:
                pass
        name_expr = unparse(ret.elts[-1])
        comps = ("tuple", lens)
    else:
        raise AnalysisError(f"act_order: unknown key shape {unparse(ret)[:80]}")
    r.check(
        descending,
        "sorted descending",
        "sort_state_actions:reverse",
        "actions are not sorted in descending key order (reverse=True missing): lowest "
        "priority / regex recognisers would be tried first",
        node=s,
    )
    r.check(
        canon(name_expr) == "S.fqn",
        "key ends in the unique fully qualified name (total order)",
        "act_order:tiebreak",
        f"sort key tie-break is {name_expr}, which is not unique across imported grammars "
        "(only fqn is); ties keep the hash-dependent insertion order",
        node=ret,
    )
    # length terms
    have_string = have_kw = False
    for c, t in comps[1]:
        guard, arg = canon(t[1]), canon(t[2])
        if guard in STRING_GUARDS and arg == "S.recognizer.value" and c > 0:
            have_string = True
            r.ok("string recognisers ranked by len(text)", node=ret)
        elif guard in KEYWORD_GUARDS and arg == "S.recognizer.name" and c > 0:
            have_kw = True
            r.ok("keyword recognisers ranked by len(keyword text)", node=ret)
        else:
            r.violation(
                "act_order:length-term",
                f"candidate order uses len({arg}) under [{guard}] (weight {c}); only the "
                "matched literal text (recognizer.value for strings, recognizer.name = keyword "
                "text for keywords) ranks 'longer first' correctly",
                node=ret,
            )
    r.check(have_string, "string-over-regex / longest string first present", "act_order:string-term",
            "sort key has no positive length term for string recognisers (strings no longer "
            "precede regexes)", node=ret)
    r.check(have_kw, "keywords ranked like strings", "act_order:keyword-term",
            "sort key has no positive length term for keyword terminals (keywords no longer "
            "rank as strings)", node=ret)
    # the keyword text really is the recogniser's name
    fk = repo.func("parglare.grammar.Grammar._fix_keyword_terminals")
    cons = [c for c in walk_no_nested(fk.node) if isinstance(c, ast.Call) and call_name(c) == "RegExRecognizer"]
    r.need(len(cons) == 1, "_fix_keyword_terminals: RegExRecognizer construction not found")
    nm = next((k.value for k in cons[0].keywords if k.arg == "name"), None)
    r.check(
        nm is not None and unparse(nm) in ("match", "term.recognizer.value"),
        "keyword recogniser is named by the keyword text",
        "_fix_keyword_terminals:name",
        f"keyword recogniser name is {unparse(nm)}; act_order measures len(recognizer.name)",
        node=cons[0],
    )
    # the sort is applied on the create path
    init = repo.func("parglare.tables.LRTable.__init__")
    r.check(
        any(is_self_attr(c.func, "sort_state_actions") for c in walk_no_nested(init.node) if isinstance(c, ast.Call)),
        "LRTable.__init__ sorts the actions",
        "LRTable.__init__:sort",
        "LRTable.__init__ no longer calls sort_state_actions",
        node=init.node,
    )


# ------------------------------------------------------------------ R07.finish
def rule_finish(rep):
    with rep.rule(
        "R07.finish",
        "finish flag = explicit finish/nofinish when given; implicit: string or keyword => flag, "
        "flag => string or keyword or next terminal in order has lower priority",
    ) as r:
        repo = rep.repo
        f = repo.func("parglare.tables.LRTable.calc_finish_flags")
        outer = next((s for s in f.body if isinstance(s, ast.For)), None)
        r.need(outer is not None, "state loop not found")
        loop = next((s for s in outer.body if isinstance(s, ast.For)), None)
        r.need(loop is not None and isinstance(loop.target, ast.Tuple), "action loop not found")
        sym = loop.target.elts[0].id
        it_txt = unparse(loop.iter)
        is_rev = it_txt.startswith("reversed(")
        rev_calls = [
            c for c in walk_no_nested(outer)
            if isinstance(c, ast.Call) and call_name(c) == "reverse" and not c.args
        ]
        r.check(
            "actions" in it_txt and (is_rev == bool(rev_calls)),
            "flags are aligned with the action order (reversed walk <=> list reversed back)",
            "calc_finish_flags:alignment",
            f"walk over {it_txt} and {len(rev_calls)} reverse() call(s): finish_flags[i] would not "
            "belong to the i-th action",
            node=loop,
        )
        r.check(is_rev, "walk is from the last to the first candidate", "calc_finish_flags:direction",
                "flags are computed walking forward: 'priority of the element before' is then the "
                "previous, not the next, candidate", node=loop)
        # loop-carried previous priority
        carried = [
            st for st in loop.body
            if isinstance(st, ast.Assign) and isinstance(st.targets[0], ast.Name)
            and unparse(st.value) == f"{sym}.prior"
        ]
        r.need(len(carried) == 1, "loop-carried previous priority not found")
        prev = carried[0].targets[0].id
        r.check(
            loop.body[-1] is carried[0],
            "previous priority updated on every iteration (last statement of the body)",
            "calc_finish_flags:carry",
            "the carried priority is not updated unconditionally at the end of each iteration",
            node=carried[0],
        )
        flags_name = None
        atoms = Atoms()
        atoms.flag("S.finish != None", "explicit").flag("S.finish == None", "explicit", negate=True)
        atoms.flag("S.finish", "fval")
        atoms.flag("PREV", "has_prev").flag("PREV != None", "has_prev")
        atoms.add(r"S\.prior > PREV", lambda v, m: v["ord"] == ">")
        atoms.add(r"S\.prior >= PREV", lambda v, m: v["ord"] in (">", "="))
        atoms.add(r"PREV < S\.prior", lambda v, m: v["ord"] == ">")
        atoms.add(r"S\.prior != PREV", lambda v, m: v["ord"] != "=")
        atoms.add(r"S\.prior < PREV", lambda v, m: v["ord"] == "<")
        atoms.flag("type(S.recognizer) == StringRecognizer", "string")
        atoms.flag("isinstance(S.recognizer, StringRecognizer)", "string")
        atoms.flag("S.keyword", "keyword")
        space = []
        for explicit, fval, has_prev, o, string, keyword in itertools.product(
            (False, True), (False, True), (False, True), "<=>", (False, True), (False, True)
        ):
            if string and keyword:
                continue
            space.append(dict(explicit=explicit, fval=fval, has_prev=has_prev, ord=o, string=string, keyword=keyword))

        def run(atom):
            def eff(st, it):
                if (
                    isinstance(st, ast.Expr)
                    and isinstance(st.value, ast.Call)
                    and call_name(st.value) == "append"
                    and len(st.value.args) == 1
                ):
                    return ("FLAG", it.truth(st.value.args[0], True))
                return NotImplemented
            it = Interp(atom, eff, env={sym: N("S"), prev: N("PREV")})
            ex = it.run(loop.body)
            return list(it.effects), ex

        n = 0
        for leaf in explore(run, space, atoms):
            effs, ex = leaf.result
            for v in leaf.valuations:
                n += 1
                ok_shape = len(effs) == 1 and effs[0][0] == "FLAG" and ex.kind == "fall"
                flag = effs[0][1] if ok_shape else None
                if v["explicit"]:
                    ok = ok_shape and flag == v["fval"]
                    exp = f"flag == explicit value {v['fval']}"
                else:
                    lower = v["string"] or v["keyword"]
                    upper = lower or (v["has_prev"] and v["ord"] == ">")
                    ok = ok_shape and (flag or not lower) and (upper or not flag)
                    exp = f"{lower} <= flag <= {upper}"
                r.check(
                    ok,
                    "finish row " + describe(v),
                    "calc_finish_flags:" + ("explicit" if v["explicit"] else "implicit"),
                    f"for {describe(v)}: flag={flag} effects={effs} exit={ex.kind}; documented {exp}"
                    + leaf.free_text(),
                    node=loop,
                )
        r.floor("finish table rows", n, 48)
        # flags are stored on the state
        r.check(
            any(
                isinstance(st, ast.Assign) and unparse(st.targets[0]).endswith(".finish_flags")
                for st in outer.body
            ),
            "flags stored on the state",
            "calc_finish_flags:store",
            "computed flags are not stored into state.finish_flags",
            node=outer,
        )


# ------------------------------------------------------------------ R07.scan-loop
def rule_scan_loop(rep):
    with rep.rule(
        "R07.scan-loop",
        "_token_recognition: leave before trying <=> priority dropped and something matched; "
        "append <=> recogniser result truthy; leave after a match <=> that terminal's finish flag; "
        "candidates and flags come from the same state, same index",
    ) as r:
        f = rep.repo.func("parglare.parser.Parser._token_recognition")
        loop = next((s for s in f.body if isinstance(s, ast.For)), None)
        r.need(loop is not None, "scan loop not found")
        # prologue env
        env = {f.params[1]: N("HEAD")}
        from .tables_region import straight_env

        straight_env(f.body, loop, env)
        it_txt = unparse(__import__("pgv.interp", fromlist=["subst"]).subst(loop.iter, env))
        r.check(
            it_txt == "enumerate(HEAD.state.actions)",
            "scan ranges over exactly the terminals expected in the head's state, in table order",
            "_token_recognition:domain",
            f"the scan ranges over {it_txt}",
            node=loop,
        )
        r.need(isinstance(loop.target, ast.Tuple) and len(loop.target.elts) == 2, "enumerate unpacking expected")
        idx, sym = (e.id for e in loop.target.elts)
        lp = [k for k, v in env.items() if isinstance(v, ast.UnaryOp) or (isinstance(v, ast.Constant) and isinstance(v.value, int))]
        env2 = dict(env)
        env2[idx] = N("IDX")
        env2[sym] = N("S")
        last_names = [
            st.targets[0].id for st in loop.body
            if isinstance(st, ast.Assign) and isinstance(st.targets[0], ast.Name) and unparse(st.value) == f"{sym}.prior"
        ]
        if len(last_names) != 1:
            # the variable the cut-off test compares the terminal's priority with
            cand = [
                st for st in loop.body
                if isinstance(st, ast.Assign) and isinstance(st.targets[0], ast.Name) and f"{sym}.prior" in unparse(st.value)
            ]
            r.need(len(cand) == 1, "loop-carried last priority not found")
            r.violation(
                "_token_recognition:last-prior",
                f"the priority the cut-off compares with is updated as `{unparse(cand[0])[:70]}`, not set to the priority of "
                "the terminal just tried: in a state whose first (higher priority) terminal does not match, terminals of "
                "the same lower priority as a token already found are no longer tried",
                node=cand[0],
            )
            return
        last = last_names[0]
        env2[last] = N("LAST")
        tok_list = None
        for k, v in env.items():
            if isinstance(v, ast.List) and not v.elts:
                tok_list = k
        r.need(tok_list is not None, "token list not found")
        env2[tok_list] = N("TOKENS")

        atoms = Atoms()
        atoms.add(r"S\.prior < LAST", lambda v, m: v["ord"] == "<")
        atoms.add(r"S\.prior <= LAST", lambda v, m: v["ord"] in "<=")
        atoms.add(r"LAST > S\.prior", lambda v, m: v["ord"] == "<")
        atoms.add(r"S\.prior != LAST", lambda v, m: v["ord"] != "=")
        atoms.add(r"S\.prior > LAST", lambda v, m: v["ord"] == ">")
        atoms.flag("TOKENS", "matched")
        atoms.add(r"len\(TOKENS\) > 0", lambda v, m: v["matched"])
        atoms.add(r"type\(TOK\) == tuple", lambda v, m: False)
        atoms.add(r"isinstance\(TOK, tuple\)", lambda v, m: False)
        atoms.flag("TOK", "tok")
        atoms.add(r"TOK != None", lambda v, m: v["tok"])
        atoms.flag("HEAD.state.finish_flags[IDX]", "finish")
        space = [
            dict(ord=o, matched=ma, tok=t, finish=fi)
            for o in "<=>" for ma in (False, True) for t in (False, True) for fi in (False, True)
        ]

        def run(atom):
            tried = []

            def atom2(e, it):
                return atom(_tokname(e), it)

            def _tokname(e):
                # the recogniser result, whatever local it is bound to
                t = unparse(e)
                if "S.recognizer(" in t:
                    tried.append(True)
                    src = re.sub(r"S\.recognizer\([^()]*\)", "TOK", t)
                    try:
                        return ast.parse(src, mode="eval").body
                    except SyntaxError:
                        return e
                return e

            def eff(st, it):
                t = unparse(st)
                if t.startswith("TOKENS.append("):
                    c = st.value.args[0]
                    ok = (
                        isinstance(c, ast.Call) and is_name(c.func, "Token") and len(c.args) >= 3
                        and unparse(c.args[0]) == "S" and "S.recognizer(" in unparse(c.args[1])
                        and unparse(c.args[2]) == "HEAD.position"
                    )
                    return ("APPEND", ok)
                return NotImplemented

            it = Interp(atom2, eff, env=env2)
            ex = it.run(loop.body)
            carried = unparse(it.env.get(last)) == "S.prior"
            tried_rec = bool(tried) or any("S.recognizer(" in unparse(v) for v in it.env.values())
            return list(it.effects), ex, carried, tried_rec

        n = 0
        for leaf in explore(run, space, atoms):
            effs, ex, carried, tried = leaf.result
            for v in leaf.valuations:
                n += 1
                early = v["ord"] == "<" and v["matched"]
                if early:
                    ok = ex.kind == "break" and not effs and not tried
                    exp = "leave the loop before trying this terminal"
                else:
                    exp_eff = [("APPEND", True)] if v["tok"] else []
                    exp_exit = "break" if (v["tok"] and v["finish"]) else "fall"
                    ok = effs == exp_eff and ex.kind in (exp_exit, "continue" if exp_exit == "fall" else exp_exit) and tried
                    ok = ok and (carried or ex.kind == "break")
                    exp = f"try recogniser; effects {exp_eff}; then {exp_exit}; last priority := this priority"
                r.check(
                    ok,
                    "scan row " + describe(v),
                    "_token_recognition:" + ("early-exit" if early else "try"),
                    f"for {describe(v)}: tried={tried} effects={effs} exit={ex.kind} carried={carried}; "
                    f"documented: {exp}" + leaf.free_text(),
                    node=loop,
                )
        r.floor("scan table rows", n, 24)


# ------------------------------------------------------------------ R07.longest-prefer
def _chain(e, src_name="TOKENS"):
    """filter chain of an expression over the token list"""
    e, _ = strip_at(e)
    if is_name(e, src_name):
        return ("tokens",)
    if isinstance(e, ast.ListComp) and len(e.generators) == 1:
        g = e.generators[0]
        if not (isinstance(g.target, ast.Name) and is_name(e.elt, g.target.id) and len(g.ifs) == 1):
            return None
        x = g.target.id
        src = _chain(g.iter, src_name)
        if src is None:
            return None
        c = g.ifs[0]
        ct = unparse(c)
        if ct == f"{x}.symbol.prefer":
            return ("prefer", src)
        if isinstance(c, ast.Compare) and len(c.ops) == 1 and isinstance(c.ops[0], ast.Eq):
            l, rr = c.left, c.comparators[0]
            if unparse(l) != f"len({x}.value)":
                l, rr = rr, l
            if unparse(l) == f"len({x}.value)":
                rr, _ = strip_at(rr)
                if (
                    isinstance(rr, ast.Call) and is_name(rr.func, "max") and len(rr.args) == 1
                    and isinstance(rr.args[0], (ast.GeneratorExp, ast.ListComp))
                ):
                    ge = rr.args[0]
                    y = ge.generators[0].target
                    if (
                        isinstance(y, ast.Name) and unparse(ge.elt) == f"len({y.id}.value)"
                        and not ge.generators[0].ifs
                    ):
                        msrc = _chain(ge.generators[0].iter, src_name)
                        if msrc == src:
                            return ("longest", src)
                        return ("longest-of-other", src, msrc)
        return None
    return None


def _card(chain, v):
    if chain == ("tokens",):
        return v["n"]
    if chain == ("longest", ("tokens",)):
        return v["m"]
    if chain == ("prefer", ("longest", ("tokens",))):
        return v["p"]
    if chain == ("prefer", ("tokens",)):
        return v["q"]
    if chain == ("longest", ("prefer", ("tokens",))):
        return v["lq"]
    raise UnknownAtom(f"cardinality of unknown token filter {chain}")


def rule_longest_prefer(rep):
    with rep.rule(
        "R07.longest-prefer",
        "_lexical_disambiguation: <=1 token unchanged; keep longest; if one left return it; keep "
        "preferred ones of those if any; else all longest -- in this order",
    ) as r:
        f = rep.repo.func("parglare.parser.Parser._lexical_disambiguation")
        param = f.params[1]
        # n tokens, m longest, p preferred among longest, q preferred overall, lq longest among preferred
        space = []
        for n in range(0, 4):
            for m in range(1 if n else 0, n + 1):
                for p in range(0, m + 1):
                    for q in range(p, p + (n - m) + 1):
                        for lq in range(1 if q else 0, q + 1):
                            if p and lq != p:
                                continue  # preferred longest exist => longest-of-preferred are exactly them
                            space.append(dict(n=n, m=m, p=p, q=q, lq=lq))

        def classify(e, it):
            e0, _ = strip_at(e)
            t = norm_cmp(unparse(e0))
            if t == "self.debug":
                return lambda v: False
            if isinstance(e0, ast.Compare) and len(e0.ops) == 1:
                l, rr = e0.left, e0.comparators[0]
                if isinstance(l, ast.Call) and is_name(l.func, "len") and isinstance(rr, ast.Constant):
                    ch = _chain(l.args[0])
                    if ch is not None:
                        op = type(e0.ops[0])
                        fn = {
                            ast.Eq: lambda a, b: a == b, ast.NotEq: lambda a, b: a != b,
                            ast.Lt: lambda a, b: a < b, ast.LtE: lambda a, b: a <= b,
                            ast.Gt: lambda a, b: a > b, ast.GtE: lambda a, b: a >= b,
                        }.get(op)
                        if fn:
                            return lambda v, ch=ch, fn=fn, c=rr.value: fn(_card(ch, v), c)
            ch = _chain(e)
            if ch is not None:
                return lambda v, ch=ch: _card(ch, v) > 0
            raise UnknownAtom(t)

        def run(atom):
            def eff(st, it):
                return NotImplemented
            it = Interp(atom, eff, env={param: N("TOKENS")})
            ex = it.run(f.body)
            return ex

        rows = 0
        for leaf in explore(run, space, classify):
            ex = leaf.result
            got = _chain(ex.value) if ex.kind == "return" and ex.value is not None else None
            for v in leaf.valuations:
                rows += 1
                if v["n"] <= 1:
                    exp = ("tokens",)
                elif v["m"] == 1:
                    exp = ("longest", ("tokens",))
                elif v["p"] > 0:
                    exp = ("prefer", ("longest", ("tokens",)))
                else:
                    exp = ("longest", ("tokens",))
                # equal results are fine: compare as sets when the filter is the identity on this valuation
                ok = got == exp or (got is not None and _same(got, exp, v))
                r.check(
                    ok,
                    "lexical disambiguation row " + describe(v),
                    "_lexical_disambiguation:" + ("<=1" if v["n"] <= 1 else "single-longest" if v["m"] == 1 else "prefer" if v["p"] else "tie"),
                    f"for {v['n']} tokens, {v['m']} longest, {v['p']} preferred among the longest "
                    f"({v['q']} preferred overall): returns {got or unparse(ex.value) if ex.value is not None else ex.kind}, "
                    f"documented {exp}" + leaf.free_text(),
                    node=f.node,
                )
        r.floor("lexical disambiguation rows", rows, 20)


def _same(got, exp, v):
    """two filter chains denote the same token list on this valuation (identity filters)"""
    try:
        cg, ce = _card(got, v), _card(exp, v)
    except UnknownAtom:
        return False
    if cg != ce:
        return False
    # a chain that is a sub-filter of the other with equal cardinality selects the same tokens
    def subs(c):
        out = [c]
        while len(c) > 1:
            c = c[1]
            out.append(c)
        return out
    return got in subs(exp) or exp in subs(got)


# ------------------------------------------------------------------ R07.cardinality / gate
def rule_cardinality(rep):
    with rep.rule(
        "R07.cardinality",
        "_next_token: no token -> None (error path), one -> it, several -> DisambiguationError located at the position the tokens are recognised at",
    ) as r:
        f = rep.repo.func("parglare.parser.Parser._next_token")
        head = f.params[1]
        env = {head: N("HEAD")}
        space = [dict(n=n) for n in range(0, 4)]

        def classify(e, it):
            t = norm_cmp(unparse(strip_at(e)[0]))
            if t == "TOKS":
                return lambda v: v["n"] > 0
            m = re.fullmatch(r"len\(TOKS\) (==|!=|<|<=|>|>=) (\d+)", t)
            if m:
                op, c = m.group(1), int(m.group(2))
                return lambda v: eval(f"{v['n']} {op} {c}")  # arithmetic on my own literals only
            raise UnknownAtom(t)

        def run(atom):
            it = Interp(atom, lambda st, it: NotImplemented, env=env)
            # the token list is whatever local receives self._next_tokens(head)
            first = f.body[0] if not isinstance(f.body[0], ast.Expr) else f.body[1]
            if not (
                isinstance(first, ast.Assign) and isinstance(first.value, ast.Call)
                and is_self_attr(first.value.func, "_next_tokens")
            ):
                raise AnalysisError("_next_token does not start by fetching self._next_tokens(head)")
            it.env[first.targets[0].id] = N("TOKS")
            ex = it.run(f.body[f.body.index(first) + 1:])
            return ex

        for leaf in explore(run, space, classify):
            ex = leaf.result
            val = unparse(ex.value) if ex.value is not None else None
            for v in leaf.valuations:
                if v["n"] == 0:
                    ok = ex.kind == "return" and val in ("None", None)
                    exp = "return None"
                elif v["n"] == 1:
                    ok = ex.kind == "return" and val in ("TOKS[0]", "TOKS[-1]")
                    exp = "return the token"
                else:
                    ok = ex.kind == "raise" and val == "DisambiguationError(Location(ErrorContext(HEAD)), TOKS)"
                    exp = "raise DisambiguationError(Location(ErrorContext(head)), tokens) -- located at the ambiguous token"
                r.check(
                    ok,
                    f"{v['n']} candidate token(s)",
                    f"_next_token:{min(v['n'], 2)}",
                    f"with {v['n']} candidate tokens: {ex.kind} {val}; documented: {exp}" + leaf.free_text(),
                    node=f.node,
                )


def rule_gate(rep):
    with rep.rule(
        "R07.gate",
        "the lexical disambiguation filter runs on every token list returned by _next_tokens iff "
        "self.lexical_disambiguation; GLR defaults it to off; flags are all-False when it is off",
    ) as r:
        repo = rep.repo
        f, g = func_cfg(repo, "parglare.parser.Parser._next_tokens")
        rets = [n for n in g.nodes if n.kind == "stmt" and isinstance(n.ast, ast.Return)]
        r.floor("_next_tokens return sites", len(rets), 1)
        dis = [n for n, c in g.nodes_calling("_lexical_disambiguation")]
        edges_off = g.test_edges(self_attr_test("lexical_disambiguation"), "F")
        edges_on = g.test_edges(self_attr_test("lexical_disambiguation"), "T")
        for n in rets:
            reach = g.reach([g.entry], avoid_nodes=dis, avoid_edges=edges_off)
            r.check(
                n not in reach,
                "every returned list went through the filter when it is enabled",
                "_next_tokens:filter-on",
                "some path returns tokens without lexical disambiguation although it is enabled "
                "(e.g. the custom_token_recognition path)",
                node=n.ast,
            )
        for n in dis:
            r.check(
                g.dominated_by_edges(n, edges_on),
                "filter only when enabled",
                "_next_tokens:filter-off",
                "lexical disambiguation can run although self.lexical_disambiguation is off "
                "(GLR would lose lexical alternatives)",
                node=n.ast,
            )
            st = n.ast
            res = isinstance(st, ast.Assign) and isinstance(st.targets[0], ast.Name)
            ret_name = unparse(rets[0].ast.value) if rets else None
            r.check(
                res and st.targets[0].id == ret_name and unparse(st.value.args[0]) == ret_name,
                "filter result replaces the returned list",
                "_next_tokens:filter-result",
                "result of _lexical_disambiguation is not what _next_tokens returns",
                node=st,
            )
        # GLR default
        gi = repo.func("parglare.glr.GLRParser.__init__")
        txt = unparse(gi.node)
        ok = re.search(
            r"if lexical_disambiguation is None:\s+lexical_disambiguation = False", txt
        ) and "kwargs['lexical_disambiguation'] = lexical_disambiguation" in txt
        r.check(
            bool(ok),
            "GLRParser defaults lexical_disambiguation to False",
            "GLRParser.__init__:default",
            "GLRParser no longer defaults lexical_disambiguation to off",
            node=gi.node,
        )
        # ... on every path to Parser.__init__ (whose own default is on), e.g. also when a table is handed in
        gg = func_cfg(repo, "parglare.glr.GLRParser.__init__")[1]
        sup = [n for n in gg.nodes if n.kind == "stmt" and "super().__init__(" in unparse(n.ast)]
        sets = [
            n for n in gg.nodes if n.kind == "stmt" and isinstance(n.ast, ast.Assign)
            and unparse(n.ast.targets[0]) == "kwargs['lexical_disambiguation']"
        ]
        r.need(sup, "GLRParser.__init__: call of Parser.__init__ not found")
        for n in sup:
            r.check(
                bool(sets) and gg.dominated_by_nodes(n, sets),
                "GLRParser passes its own lexical_disambiguation default on every path",
                "GLRParser.__init__:default-every-path",
                "some path through GLRParser.__init__ reaches Parser.__init__ without setting "
                "kwargs['lexical_disambiguation']: Parser's default (on) applies, e.g. when a precomputed table is "
                "given -- STOP then loses the longest-match comparison and GLR misses lexical alternatives / prefixes",
                node=n.ast,
            )
        # LRTable: flags all False when disambiguation is off
        init = repo.func("parglare.tables.LRTable.__init__")
        g2 = func_cfg(repo, "parglare.tables.LRTable.__init__")[1]
        cf = [n for n, c in g2.nodes_calling("calc_finish_flags")]
        on = g2.test_edges(lambda e: is_name(e, "lexical_disambiguation"), "T")
        for n in cf:
            r.check(
                g2.dominated_by_edges(n, on),
                "finish flags computed only with lexical disambiguation on",
                "LRTable.__init__:flags-on",
                "finish flags are computed although lexical disambiguation is off: the scan would "
                "stop at the first string match and GLR would lose lexical alternatives",
                node=n.ast,
            )
        falses = [
            n for n in g2.nodes
            if n.kind == "stmt" and isinstance(n.ast, ast.Assign)
            and unparse(n.ast.targets[0]).endswith(".finish_flags")
        ]
        r.check(
            bool(falses) and all("[False] * len(" in unparse(n.ast.value) for n in falses),
            "flags all False when off",
            "LRTable.__init__:flags-off",
            "with lexical disambiguation off the finish flags are not all False",
            node=init.node,
        )
        r.floor("calc_finish_flags call sites", len(cf), 1)


def check(rep):
    rep.explanation = (
        "C07 (partial): each scanner shortcut is decided on its own -- the candidate sort key as a "
        "symbolic linear form, the finish-flag, scan-loop, longest/prefer and cardinality code as "
        "complete decision tables over finite valuation spaces, and the gate as a CFG dominance "
        "rule. Not decided: the composition of the shortcuts on all terminal sets; user recognisers."
    )
    rep.assumptions += [
        "terminal texts are shorter than the priority weight minus offset (500 chars); priorities are non-negative ints",
        "symbol.fqn is unique per terminal",
    ]
    rule_sort_key(rep)
    rule_finish(rep)
    rule_scan_loop(rep)
    rule_longest_prefer(rep)
    rule_cardinality(rep)
    rule_gate(rep)
    # keyword terminals take part in the order as strings; their rewrite must keep ignore_case etc.
    from .C19 import rule_keyword_rewrite
    from .C08 import rule_value_is_slice

    rule_keyword_rewrite(rep, boundary=False)  # the \\b question belongs to C19 (known finding D11b)
    rule_value_is_slice(rep)
