"""Locators shared by C04/C05/C06/C16: regions of parglare.tables.create_table."""
from __future__ import annotations

import ast

from ..core import AnalysisError, ancestors, call_name, is_name, parent, unparse, walk_no_nested


def N(name):
    return ast.Name(id=name, ctx=ast.Load())


def straight_env(block, before, env, keep=()):
    """Copy-propagate the simple `Name = expr` statements of `block` that precede
    statement `before` (same block level only)."""
    from ..interp import subst

    for st in block:
        if st is before:
            break
        if isinstance(st, ast.Assign) and len(st.targets) == 1 and isinstance(st.targets[0], ast.Name):
            if st.targets[0].id in keep:
                env.pop(st.targets[0].id, None)
                continue
            env[st.targets[0].id] = subst(st.value, env)
        elif isinstance(st, ast.Assign):
            for t in st.targets:
                for n in ast.walk(t):
                    if isinstance(n, ast.Name):
                        env.pop(n.id, None)
    return env


class ReduceRegion:
    """The per-terminal reduce-filling / conflict-resolution region of create_table:

        for STATE in states:
            for ITEM in STATE.items:
                if ITEM.is_at_end:
                    FOLLOW = ITEM.follow | follow_sets[ITEM.production.symbol]
                    for TERM in FOLLOW:          <- region = body of this loop
    """

    def __init__(self, repo):
        self.func = f = repo.func("parglare.tables.create_table")
        # the Action(REDUCE, ...) construction
        cons = [
            c
            for c in walk_no_nested(f.node)
            if isinstance(c, ast.Call)
            and call_name(c) == "Action"
            and c.args
            and is_name(c.args[0], "REDUCE")
        ]
        if len(cons) != 1:
            raise AnalysisError(
                f"expected exactly one Action(REDUCE, ...) construction in create_table, found {len(cons)}"
            )
        self.reduce_cons = cons[0]
        st = parent(cons[0])
        if not (isinstance(st, ast.Assign) and isinstance(st.targets[0], ast.Name)):
            raise AnalysisError("Action(REDUCE, ...) is not bound to a local name")
        self.new_reduce_name = st.targets[0].id
        self.new_reduce_stmt = st
        # innermost For that contains every later use of that name
        uses = [
            n
            for n in walk_no_nested(f.node)
            if isinstance(n, ast.Name) and n.id == self.new_reduce_name and isinstance(n.ctx, ast.Load)
        ]
        if not uses:
            raise AnalysisError("the REDUCE action is never used")
        common = None
        for u in uses:
            fors = [a for a in ancestors(u) if isinstance(a, ast.For)]
            common = fors if common is None else [x for x in common if x in fors]
        if not common:
            raise AnalysisError("uses of the REDUCE action are not inside one loop")
        self.term_loop = common[0]
        outer = [a for a in ancestors(self.term_loop) if isinstance(a, ast.For)]
        if len(outer) < 2:
            raise AnalysisError("reduce region is not nested in state/item loops")
        self.item_loop, self.state_loop = outer[0], outer[1]
        for lp in (self.term_loop, self.item_loop, self.state_loop):
            if not isinstance(lp.target, ast.Name):
                raise AnalysisError("loop target is not a simple name")
        self.term_var = self.term_loop.target.id
        self.item_var = self.item_loop.target.id
        self.state_var = self.state_loop.target.id
        # environment: canonical loop variables + straight-line assignments on the way
        env = {
            self.state_var: N("STATE"),
            self.item_var: N("ITEM"),
            self.term_var: N("TERM"),
        }
        chain = [self.term_loop] + [a for a in ancestors(self.term_loop)]
        # walk from the state loop body down to the region
        path = list(reversed([a for a in chain if a is not f.node]))
        # path: [..., state_loop, ..., item_loop, ..., If, term_loop]
        started = False
        for i, node in enumerate(path):
            if node is self.state_loop:
                started = True
            if not started:
                continue
            nxt = path[i + 1] if i + 1 < len(path) else None
            if nxt is None:
                break
            for field in ("body", "orelse"):
                blk = getattr(node, field, None)
                if isinstance(blk, list) and nxt in blk:
                    straight_env(blk, nxt, env)
        # a name the region itself assigns is loop carried: at the start of an iteration it holds
        # whatever the *previous* terminal left there, not what was assigned before the loop
        self.loop_carried = set()
        for st in self.term_loop.body:
            for n in ast.walk(st):
                if isinstance(n, ast.Name) and isinstance(n.ctx, ast.Store) and n.id in env:
                    self.loop_carried.add(n.id)
        for name in self.loop_carried:
            env[name] = N(f"__STALE_{name}")
        self.env = env
        self.body = self.term_loop.body
        self.iter_expr = self.term_loop.iter

    def guard_chain(self):
        """If-tests between the item loop and the terminal loop (e.g. item.is_at_end)."""
        out = []
        node = self.term_loop
        for a in ancestors(node):
            if a is self.item_loop:
                break
            if isinstance(a, ast.If):
                out.append(a)
        return out
