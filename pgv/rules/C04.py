"""C04 -- LR parser is sound always and exact when its table is deterministic."""
from __future__ import annotations

import ast
import itertools
import re

from .. import cfg as cfgmod
from ..core import AnalysisError, UnknownAtom, call_name, is_name, is_self_attr, plain, strip_at, unparse, walk_no_nested
from ..interp import Interp
from ..table import Atoms, describe, explore, norm_cmp
from .common import first_loop, func_cfg, self_attr_test
from .tables_region import N


def rule_gate(rep):
    with rep.rule(
        "R04.gate",
        "every normal path through Parser.__init__ checks the table for unresolved conflicts after "
        "the table is set; only GLRParser overrides the check; SRConflicts/RRConflicts are raised "
        "iff some conflict is not handed to a dynamic filter",
    ) as r:
        repo = rep.repo
        f, g = func_cfg(repo, "parglare.parser.Parser.__init__")
        chk = [n for n, c in g.nodes_calling("_check_parser")]
        r.check(
            bool(chk) and g.dominated_by_nodes(g.exit, chk),
            "construction always runs _check_parser",
            "Parser.__init__:gate",
            "some path through Parser.__init__ returns without _check_parser(): a parser with unresolved "
            "conflicts can be constructed (e.g. when a precomputed table is given)",
            node=f.node,
        )
        stores = [n for n in g.nodes if n.kind == "stmt" and isinstance(n.ast, ast.Assign) and any(is_self_attr(t, "table") for t in n.ast.targets)]
        for n in chk:
            r.check(bool(stores) and g.dominated_by_nodes(n, stores), "the check runs on the table just set", "Parser.__init__:gate-order",
                    "_check_parser can run before self.table is set", node=n.ast)
            r.check(not any(e.kind == "test" for e in g.reach([n], forward=False) if False), "ok", "x", "x") if False else None
        # who overrides
        over = []
        for m in repo.modules.values():
            for c in m.classes.values():
                if "_check_parser" in c.methods and c.qual != "parglare.parser.Parser":
                    over.append(c.qual)
        r.check(over == ["parglare.glr.GLRParser"], "only GLRParser overrides _check_parser", "_check_parser:overrides",
                f"_check_parser is overridden by {over}", node=None)
        # decision table of _check_parser
        cp = repo.func("parglare.parser.Parser._check_parser")
        space = []
        for sr, srdyn, rr, rrdyn, flt in itertools.product((False, True), repeat=5):
            if (not sr and srdyn) or (not rr and rrdyn):
                continue
            space.append(dict(sr=sr, sr_all_dyn=srdyn, rr=rr, rr_all_dyn=rrdyn, filter=flt))
        atoms = Atoms()
        atoms.flag("self.table.sr_conflicts", "sr").flag("self.table.rr_conflicts", "rr")
        atoms.flag("self.dynamic_filter", "filter")
        atoms.add(r"UNHANDLED_sr", lambda v, m: v["sr"] and not v["sr_all_dyn"])
        atoms.add(r"UNHANDLED_rr", lambda v, m: v["rr"] and not v["rr_all_dyn"])

        def run(atom):
            def on_loop(st, it):
                # for c in self.table.X_conflicts: if not c.dynamic: unhandled.append(c)
                t = unparse(st)
                m = re.fullmatch(
                    r"for (\w+) in self\.table\.(sr|rr)_conflicts:\s+if not \1\.dynamic:\s+(\w+)\.append\(\1\)", t)
                if not m:
                    raise AnalysisError(f"_check_parser: unknown loop {t[:60]}")
                it.env[m.group(3)] = N(f"UNHANDLED_{m.group(2)}")
                return None

            def eff(st, it):
                if isinstance(st, ast.Expr) and is_self_attr(st.value.func, "print_debug"):
                    return None
                return NotImplemented

            it = Interp(atom, eff, on_loop=on_loop)
            ex = it.run(cp.body)
            return ex

        for leaf in explore(run, space, atoms):
            ex = leaf.result
            for v in leaf.valuations:
                sr_bad = v["sr"] and not (v["filter"] and v["sr_all_dyn"])
                rr_bad = v["rr"] and not (v["filter"] and v["rr_all_dyn"])
                if sr_bad:
                    exp = "SRConflicts"
                elif rr_bad:
                    exp = "RRConflicts"
                else:
                    exp = None
                got = plain(ex.value).split("(")[0] if ex.kind == "raise" else None
                r.check(
                    got == exp,
                    "gate row " + describe(v),
                    "_check_parser:" + (exp or "pass"),
                    f"for {describe(v)}: _check_parser {'raises ' + got if got else 'passes'}; documented: "
                    f"{'raise ' + exp if exp else 'pass'}" + leaf.free_text(),
                    node=cp.node,
                )
                if got and got == exp:
                    arg = plain(ex.value)
                    want_arg = "self.table." + ("sr" if exp == "SRConflicts" else "rr") + "_conflicts"
                    r.check(
                        "UNHANDLED" in arg or want_arg in arg,
                        "the exception carries the unhandled conflicts",
                        "_check_parser:payload",
                        f"{exp} is raised with {arg}",
                        node=cp.node,
                    )


def rule_conflict_table(rep):
    with rep.rule(
        "R04.conflict-table",
        "calc_conflicts_and_dynamic_terminals records every cell with >= 2 actions: S/R when the "
        "first action is SHIFT/ACCEPT; otherwise R/R iff more than one empty or more than one "
        "non-empty reduction (the documented silent preference is the only exception)",
    ) as r:
        f = rep.repo.func("parglare.tables.LRTable.calc_conflicts_and_dynamic_terminals")
        cell_loop = next((l for l in walk_no_nested(f.node) if isinstance(l, ast.For) and "actions.items()" in unparse(l.iter)), None)
        r.need(cell_loop is not None and isinstance(cell_loop.target, ast.Tuple), "cell loop not found")
        term, acts = (e.id for e in cell_loop.target.elts)
        st_loop = next((l for l in f.body if isinstance(l, ast.For)), None)
        r.check(unparse(st_loop.iter) == "self.states" and unparse(cell_loop.iter) == "state.actions.items()",
                "every cell of every state is examined", "calc_conflicts:domain",
                "conflict detection no longer ranges over every cell of every state", node=cell_loop)
        space = []
        for first in ("SHIFT", "ACCEPT", "REDUCE"):
            for ne in range(0, 3):
                for nn in range(0, 3):
                    n = ne + nn + (0 if first == "REDUCE" else 1)
                    if first == "REDUCE" and ne + nn == 0:
                        continue
                    space.append(dict(first=first, n=n, n_empty=ne, n_nonempty=nn, tdyn=False, pdyn=False))
        A = "ACTS"

        def classify(e, it):
            t = norm_cmp(plain(e))
            m = re.fullmatch(rf"len\({A}\) (>|>=|==|!=|<|<=) (\d+)", t)
            if m:
                return lambda v, m=m: eval(f"{v['n']} {m.group(1)} {m.group(2)}")
            if re.fullmatch(rf"{A}\[0\]\.action in [\[\(]SHIFT, ACCEPT[\]\)]", t) or re.fullmatch(rf"{A}\[0\]\.action in [\[\(]ACCEPT, SHIFT[\]\)]", t):
                return lambda v: v["first"] in ("SHIFT", "ACCEPT")
            if t == f"{A}[0].action == REDUCE":
                return lambda v: v["first"] == "REDUCE"
            m = re.fullmatch(rf"len\(\[x\.prod for x in {A} if (not )?len\(x\.prod\.rhs\)\]\) (>|>=) (\d+)", t)
            if m:
                key = "n_empty" if m.group(1) else "n_nonempty"
                return lambda v, m=m, key=key: eval(f"{v[key]} {m.group(2)} {m.group(3)}")
            if t == "TERM.dynamic":
                return lambda v: v["tdyn"]
            if t.startswith("any(") and ".dynamic" in t:
                return lambda v: v["pdyn"]
            if t == "debug":
                return lambda v: False
            raise UnknownAtom(t)

        def run(atom):
            def on_loop(st, it):
                t = plain(st) if False else unparse(st)
                if re.search(r"for \w+ in \w+\[1:\]:", t) and "sr_conflicts.append(SRConflict(" in t:
                    it.effects.append(("SR",))
                    return None
                raise AnalysisError(f"calc_conflicts: unknown loop {t[:60]}")

            def eff(st, it):
                t = plain(st.value) if isinstance(st, ast.Expr) else unparse(st)
                if t.startswith("state.dynamic.add("):
                    return None
                m = re.fullmatch(rf"self\.rr_conflicts\.append\(RRConflict\(state, TERM, \[x\.prod for x in {A} if (not )?len\(x\.prod\.rhs\)\]\)\)", t)
                if m:
                    return ("RR", "empty" if m.group(1) else "nonempty")
                if t.startswith("self.sr_conflicts.append(SRConflict(state, TERM"):
                    return ("SR",)
                return NotImplemented

            it = Interp(atom, eff, env={term: N("TERM"), acts: N(A)}, on_loop=on_loop)
            ex = it.run(cell_loop.body)
            return sorted(set(it.effects)), ex

        rows = 0
        for leaf in explore(run, space, classify):
            effs, ex = leaf.result
            for v in leaf.valuations:
                rows += 1
                exp = []
                if v["n"] > 1:
                    if v["first"] in ("SHIFT", "ACCEPT"):
                        exp.append(("SR",))
                    else:
                        if v["n_empty"] > 1:
                            exp.append(("RR", "empty"))
                        if v["n_nonempty"] > 1:
                            exp.append(("RR", "nonempty"))
                r.check(
                    effs == sorted(exp),
                    "conflict row " + describe(v, ["first", "n", "n_empty", "n_nonempty"]),
                    f"calc_conflicts:{v['first']}",
                    f"for a cell with first action {v['first']}, {v['n']} actions ({v['n_empty']} empty / "
                    f"{v['n_nonempty']} non-empty reductions): recorded {effs}, documented {sorted(exp)} -- an "
                    "unrecorded conflict lets Parser() construct a non-deterministic table that the driver then "
                    "resolves silently" + leaf.free_text(),
                    node=cell_loop,
                )
        r.floor("conflict table rows", rows, 20)
        t = unparse(f.node)
        r.check("self.sr_conflicts = []" in t and "self.rr_conflicts = []" in t, "conflict lists start empty",
                "calc_conflicts:reset", "conflict lists are not reset", node=f.node)


def rule_cell_order(rep):
    with rep.rule(
        "R04.cell-order",
        "SHIFT/ACCEPT only ever create a cell list; REDUCE creates or appends; nothing is put in "
        "front: the driver, the conflict classifier and the messages rely on 'shift first'",
    ) as r:
        f = rep.repo.func("parglare.tables.create_table")
        n = 0
        for c in walk_no_nested(f.node):
            if isinstance(c, ast.Call) and isinstance(c.func, ast.Attribute) and c.func.attr == "insert":
                tgt = unparse(c.func.value)
                if "actions" in tgt:
                    n += 1
                    r.violation(
                        "create_table:insert",
                        f"`{unparse(c)[:70]}` inserts into an action cell: the SHIFT-first order of cells is broken",
                        node=c,
                    )
        stores = [
            st for st in walk_no_nested(f.node)
            if isinstance(st, ast.Assign) and isinstance(st.targets[0], ast.Subscript)
            and unparse(st.targets[0].value) in ("state.actions", "actions")
        ]
        r.floor("cell creation sites", len(stores), 3)
        for st in stores:
            v = unparse(st.value)
            ok = re.fullmatch(r"\[Action\((ACCEPT|SHIFT, state=target_state)\)\]|\[new_reduce\]", v) is not None
            r.check(ok, f"cell created as {v}", "create_table:cell-create",
                    f"an action cell is created as `{v}`", node=st)
        # SHIFT/ACCEPT stores happen in the discovery phase, i.e. before any reduction is filled in
        disc = next((l for l in f.body if isinstance(l, ast.While) and is_name(l.test, "state_queue")), None)
        fill = next((l for l in f.body if isinstance(l, ast.For) and unparse(l.iter) == "states"), None)
        r.need(disc is not None and fill is not None, "create_table phases not found")
        r.check(
            f.body.index(disc) < f.body.index(fill)
            and all(any(st is x for x in ast.walk(disc)) for st in stores if "Action(" in unparse(st.value)),
            "all SHIFT/ACCEPT entries exist before the first REDUCE is filled in",
            "create_table:phase-order",
            "SHIFT/ACCEPT entries are no longer all created before reductions are filled in",
            node=f.node,
        )
        from . import srtable
        reg, leaves, problems, rows = srtable.run_table(rep.repo, 10)
        bad = [p for p in problems if p[3] and "front" in p[3]]
        r.check(not bad, "resolution never inserts in front of a cell", "create_table:insert-front",
                "the resolution region inserts a reduction in front of the cell", node=reg.term_loop)


def rule_driver_select(rep):
    with rep.rule(
        "R04.driver-select",
        "the LR driver takes the first action of the cell; a second one only when the first is an "
        "empty reduction; SHIFT/REDUCE/ACCEPT arms by the action's kind; accept ends the loop and "
        "is the only way to a result",
    ) as r:
        f = rep.repo.func("parglare.parser.Parser.parse")
        loop = first_loop(f, ast.While)
        body = loop.body
        i_act = next((i for i, s in enumerate(body) if isinstance(s, ast.Assign) and is_name(s.targets[0], "act")), None)
        r.need(i_act is not None, "LR action selection not found")
        r.check(unparse(body[i_act].value) == "actions[0]", "first action of the cell", "Parser.parse:first-action",
                f"the driver selects {unparse(body[i_act].value)}", node=body[i_act])
        arms = body[i_act + 1]
        r.need(isinstance(arms, ast.If), "LR action dispatch not found")
        kinds = []
        cur = arms
        while isinstance(cur, ast.If):
            kinds.append(norm_cmp(unparse(cur.test)))
            cur = cur.orelse[0] if len(cur.orelse) == 1 and isinstance(cur.orelse[0], ast.If) else None
        r.check(kinds == ["act.action == SHIFT", "act.action == REDUCE", "act.action == ACCEPT"],
                "dispatch on the action kind", "Parser.parse:dispatch", f"dispatch tests are {kinds}", node=arms)
        red = arms.orelse[0] if arms.orelse else None
        r.need(isinstance(red, ast.If), "REDUCE arm not found")
        # T-DRIVER on the head of the REDUCE arm
        space = [dict(empty=e, n=n) for e in (False, True) for n in (1, 2, 3)]

        def classify(e, it):
            t = norm_cmp(plain(e))
            m = re.fullmatch(r"len\(actions\[0\]\.prod\.rhs\) (==|!=|>) 0", t)
            if m:
                return lambda v, m=m: (v["empty"] if m.group(1) == "==" else not v["empty"])
            if t == "not len(actions[0].prod.rhs)":
                return lambda v: v["empty"]
            m = re.fullmatch(r"len\(actions\) (>|>=|==|!=|<|<=) (\d+)", t)
            if m:
                return lambda v, m=m: eval(f"{v['n']} {m.group(1)} {m.group(2)}")
            if t in ("debug", "self.debug"):
                return lambda v: False
            raise UnknownAtom(t)

        def run(atom):
            it = Interp(atom, lambda st, it: NotImplemented, env={"act": ast.parse("actions[0]", mode="eval").body})
            # interpret up to the binding of `production`
            stmts = []
            for st in red.body:
                stmts.append(st)
                if isinstance(st, ast.Assign) and is_name(st.targets[0], "production"):
                    break
            it.run(stmts)
            return plain(it.env.get("production")) if it.env.get("production") is not None else None

        for leaf in explore(run, space, classify):
            for v in leaf.valuations:
                exp = "actions[1].prod" if (v["empty"] and v["n"] > 1) else "actions[0].prod"
                r.check(
                    leaf.result == exp,
                    "driver selection row " + describe(v),
                    "Parser.parse:select",
                    f"for a cell of {v['n']} action(s) whose first is an {'empty' if v['empty'] else 'non-empty'} "
                    f"reduction the driver reduces by `{leaf.result}`; documented `{exp}`" + leaf.free_text(),
                    node=red,
                )
        acc = red.orelse[0] if red.orelse else None
        r.check(
            isinstance(acc, ast.If) and [unparse(s) for s in acc.body] == ["accepted_head = head", "break"],
            "ACCEPT records the head and ends the loop",
            "Parser.parse:accept-arm",
            "the ACCEPT arm no longer records the accepted head and leaves the loop",
            node=acc or red,
        )
        after = f.body[f.body.index(loop) + 1:]
        r.check(
            len(after) == 1 and isinstance(after[0], ast.If) and unparse(after[0].test) == "accepted_head",
            "a result is returned only if a head was accepted, else the last error is raised",
            "Parser.parse:result-guard",
            "Parser.parse can return a result without an accepted head",
            node=f.node,
        )
        t = unparse(f.node)
        r.check("accepted_head = None" in t, "no head accepted initially", "Parser.parse:accept-init",
                "accepted_head is not reset at the start of parse", node=f.node)


def check(rep):
    rep.explanation = (
        "C04 (partial): construction is gated by the conflict check on every path (must-call) with "
        "the documented gate table; complete decision table of conflict detection over cell shapes; "
        "SHIFT-first cell order (who-writes-how); driver selection table, no-action guard and "
        "reduce shape; plus the FIRST/FOLLOW/propagation rules of C05, whose violation makes a "
        "deterministic table reject sentences. Not decided: that a single-action table implies "
        "unambiguity/completeness (LR theory over the computed table); equality with the GLR tree."
    )
    rule_gate(rep)
    rule_conflict_table(rep)
    rule_cell_order(rep)
    rule_driver_select(rep)
    from .C17 import rule_lr_fallback
    from .C08 import rule_roles_lr
    from .C05 import rule_first, rule_nullable_scans, rule_rearm, rule_states

    rule_lr_fallback(rep)
    rule_roles_lr(rep)
    rule_first(rep)
    rule_nullable_scans(rep)
    rule_rearm(rep)
    rule_states(rep)
