"""C05 -- table construction terminates and is a faithful LR(1)-family table."""
from __future__ import annotations

import ast
import re

from .. import cfg as cfgmod
from ..core import (
    AnalysisError,
    ancestors,
    call_name,
    is_name,
    is_self_attr,
    norm_text,
    parent,
    unparse,
    walk_no_nested,
)
from .common import func_cfg

GROW = {"update", "add", "append", "extend", "insert"}
SHRINK = {"remove", "discard", "clear", "pop", "difference_update", "intersection_update"}
NOVELTY_PAT = re.compile(r"\.difference\(|\.issubset\(| not in | in |\.issuperset\(|\bis \w+\b|is maybe_new_state")


def _for_body_region(loop):
    return cfgmod.build_region(loop.body)


# ------------------------------------------------------------------ R05.first
def rule_first(rep):
    with rep.rule(
        "R05.first",
        "first(): the set merged into FIRST(lhs) for a RHS symbol is EMPTY-stripped; EMPTY enters "
        "FIRST(lhs) only in the all-nullable (for-else) arm; the scan stops exactly at the first "
        "non-nullable symbol",
    ) as r:
        f = rep.repo.func("parglare.tables.first")
        ploop = next((l for l in walk_no_nested(f.node) if isinstance(l, ast.For) and unparse(l.iter) == "grammar.productions"), None)
        r.need(ploop is not None, "first(): production loop not found")
        sloop = next((l for l in ploop.body if isinstance(l, ast.For)), None)
        r.need(sloop is not None and isinstance(sloop.target, ast.Name), "first(): RHS scan loop not found")
        r.check(unparse(sloop.iter) in ("p.rhs",), "the scan ranges over the whole RHS in order", "first:domain",
                f"first() scans {unparse(sloop.iter)}", node=sloop)
        s = sloop.target.id
        lhs = next((st.targets[0].id for st in ploop.body if isinstance(st, ast.Assign) and unparse(st.value) == "p.symbol"), None)
        r.need(lhs is not None, "first(): LHS binding not found")
        g = _for_body_region(sloop)
        # growth of FIRST(lhs) inside the scan
        grows = []
        for n in g.nodes:
            if n.kind == "stmt" and isinstance(n.ast, ast.Expr) and isinstance(n.ast.value, ast.Call):
                c = n.ast.value
                if isinstance(c.func, ast.Attribute) and c.func.attr in ("update", "add") and unparse(c.func.value) == f"first_sets[{lhs}]":
                    grows.append((n, c))
            if n.kind == "stmt" and isinstance(n.ast, ast.AugAssign) and unparse(n.ast.target) == f"first_sets[{lhs}]":
                grows.append((n, n.ast))
        r.floor("first(): growth sites inside the scan", len(grows), 1)
        for n, c in grows:
            arg = c.args[0] if isinstance(c, ast.Call) else c.value
            ok = False
            why = unparse(arg)
            if isinstance(arg, ast.Name):
                # the argument must be a local copy that had EMPTY removed before, on every path
                copies = [
                    m for m in g.nodes if m.kind == "stmt" and isinstance(m.ast, ast.Assign)
                    and is_name(m.ast.targets[0], arg.id)
                    and re.fullmatch(rf"set\(first_sets\[{s}\]\)|first_sets\[{s}\]\.copy\(\)|first_sets\[{s}\] - \{{EMPTY\}}", unparse(m.ast.value))
                ]
                strips = [
                    m for m in g.nodes if m.kind == "stmt"
                    and re.fullmatch(rf"{arg.id}\.(discard|remove)\(EMPTY\)|{arg.id} -= \{{EMPTY\}}", unparse(m.ast) if m.ast is not None else "")
                ]
                already = any(" - {EMPTY}" in unparse(m.ast.value) for m in copies)
                ok = bool(copies) and g.dominated_by_nodes(n, copies) and (already or (bool(strips) and g.dominated_by_nodes(n, strips)))
            elif re.fullmatch(rf"first_sets\[{s}\] - \{{EMPTY\}}|first_sets\[{s}\]\.difference\(\{{EMPTY\}}\)", unparse(arg)):
                ok = True
            r.check(
                ok,
                "FIRST(lhs) is grown by FIRST(symbol) without EMPTY",
                "first:merge-stripped",
                f"first() merges `{why}` into FIRST({lhs}): EMPTY of a nullable RHS symbol leaks into FIRST of a "
                "non-nullable rule (`T: A b; A: a | EMPTY;` gets EMPTY in FIRST(T)), which then counts as nullable in "
                "lookahead computation: spurious lookaheads and conflicts on LR(1) grammars",
                node=n.ast,
            )
        # the break test
        brk = [n for n in g.nodes if n.kind == "stmt" and isinstance(n.ast, ast.Break)]
        r.check(bool(brk), "first(): the scan can stop", "first:has-break",
                "first() never stops scanning a right-hand side at a non-nullable symbol: terminals that cannot start "
                "the rule are added to its FIRST set (spurious lookaheads and conflicts)", node=sloop)
        tests = [n for n in g.nodes if n.kind == "test"]
        nul = [n for n in tests if unparse(n.ast) == f"EMPTY not in first_sets[{s}]"]
        r.need(nul, "first(): nullability test `EMPTY not in first_sets[symbol]` not found")
        for b in brk:
            r.check(
                g.dominated_by_edges(b, [(n, "T") for n in nul]),
                "the scan stops only at a non-nullable symbol",
                "first:break-guard",
                "first() can stop scanning a right-hand side at a symbol that derives EMPTY (terminals that can "
                "start the rule after it are lost: valid reductions are missing from the table)",
                node=b.ast,
            )
        for n in nul:
            # from the true edge every path must reach a break (no way to continue the scan)
            starts = [m for lab, m in n.succ if lab == "T"]
            seen = g.reach(starts, avoid_nodes=brk)
            leaked = [e.tag for e in g.all_exits() if e in seen]
            r.check(not leaked, "a non-nullable symbol always ends the scan", "first:break-always",
                    f"after a non-nullable symbol the scan can continue (exits {leaked})", node=n.ast)
            # and the nullability test itself must be reached on every path of the iteration
            r.check(
                g.dominated_by_nodes(g.extra_exits["next"], nul) if "next" in g.extra_exits else True,
                "nullability is tested for every scanned symbol",
                "first:test-always",
                "some path through the scan body skips the nullability test",
                node=n.ast,
            )
        # for-else arm: EMPTY added to FIRST(lhs)
        els = [unparse(st) for st in sloop.orelse]
        r.check(
            any(f"first_sets[{lhs}].add(EMPTY)" in e for e in els),
            "all RHS symbols nullable (loop exhausted) => EMPTY in FIRST(lhs)",
            "first:else-arm",
            "first() no longer adds EMPTY to FIRST(lhs) when every RHS symbol is nullable",
            node=sloop,
        )
        # EMPTY must not be added anywhere else
        others = [
            c for c in walk_no_nested(f.node)
            if isinstance(c, ast.Call) and isinstance(c.func, ast.Attribute) and c.func.attr == "add"
            and c.args and is_name(c.args[0], "EMPTY") and not any(c is x for st in sloop.orelse for x in ast.walk(st))
        ]
        r.check(not others, "EMPTY is added to a FIRST set only in the for-else arm", "first:empty-elsewhere",
                "EMPTY is added to a FIRST set outside the all-nullable arm", node=others[0] if others else None)
        # terminals: FIRST(t) = {t}
        t = unparse(f.node)
        r.check("first_sets[t] = set([t])" in t and "first_sets[nt] = set()" in t, "FIRST(t) = {t}; FIRST(nt) starts empty",
                "first:init", "first() initialisation changed", node=f.node)


# ------------------------------------------------------------------ R05.nullable-scan (follow, _new_item_follow)
def rule_nullable_scans(rep):
    with rep.rule(
        "R05.nullable-scan",
        "follow() and _new_item_follow(): contribute FIRST(s) of the symbols after the occurrence; "
        "stop exactly at the first non-nullable one; only the exhausted (for-else) arm adds the "
        "inherited set; every occurrence of a symbol in a RHS is handled",
    ) as r:
        repo = rep.repo
        f = repo.func("parglare.tables.follow")
        occ = next((l for l in walk_no_nested(f.node) if isinstance(l, ast.For) and unparse(l.iter) == "enumerate(p.rhs)"), None)
        r.need(occ is not None, "follow(): loop over RHS positions not found")
        g = cfgmod.build_region(occ.body)
        exits = {e.tag for e in g.all_exits() if e in g.reachable()}
        r.check(
            exits <= {"next"},
            "every position of the RHS is examined (no break/return in the occurrence loop)",
            "follow:all-occurrences",
            f"the loop over RHS positions in follow() can be left through {sorted(exits - {'next'})}: only the "
            "first occurrence of a non-terminal in a production contributes (SLR tables lose lookaheads for "
            "`S: A b A`)",
            node=occ,
        )
        scan = next((l for l in walk_no_nested(occ) if isinstance(l, ast.For) and l is not occ), None)
        r.need(scan is not None, "follow(): scan of the rest of the RHS not found")
        r.check(unparse(scan.iter) == "p.rhs[idx + 1:]", "scan = the symbols after the occurrence", "follow:scan-domain",
                f"follow() scans {unparse(scan.iter)} after an occurrence", node=scan)
        _scan_shape(r, scan, "follow", first_expr=r"first_sets\[(\w+)\]", acc="prod_follow",
                    inherit="prod_follow.update(follow_sets[p.symbol])")
        t = unparse(f.node)
        r.check("prod_follow.discard(EMPTY)" in t, "EMPTY is never a FOLLOW member", "follow:strip-empty",
                "follow() no longer removes EMPTY from the computed set", node=f.node)
        r.check(re.search(r"for symbol in grammar\.nonterminals\.values\(\):\s+for p in grammar\.productions:", t) is not None
                and "if s == symbol:" in t,
                "every non-terminal x every production x every position", "follow:domain",
                "follow() no longer ranges over every non-terminal, production and position", node=f.node)
        # closure
        nf = repo.func("parglare.closure._new_item_follow")
        scan = next((l for l in nf.body if isinstance(l, ast.For)), None)
        r.need(scan is not None, "_new_item_follow: scan not found")
        r.check(unparse(scan.iter) == "item.production.rhs[item.position + 1:]", "scan = the symbols after the dot's non-terminal",
                "_new_item_follow:scan-domain", f"_new_item_follow scans {unparse(scan.iter)}", node=scan)
        _scan_shape(r, scan, "_new_item_follow", first_expr=r"first_sets\[(\w+)\]", acc="new_follow",
                    inherit="new_follow.update(item.follow)", strip_inside=True)
        rets = [s for s in walk_no_nested(nf.node) if isinstance(s, ast.Return)]
        r.check(len(rets) == 1 and unparse(rets[0].value) == "new_follow", "returns the computed set", "_new_item_follow:return",
                "_new_item_follow returns something else", node=nf.node)


def _scan_shape(r, scan, where, first_expr, acc, inherit, strip_inside=False):
    s = scan.target.id if isinstance(scan.target, ast.Name) else None
    r.need(s is not None, f"{where}: scan target is not a name")
    g = cfgmod.build_region(scan.body)
    # contribution of FIRST(s)
    contrib = [
        n for n in g.nodes if n.kind == "stmt" and n.ast is not None
        and re.fullmatch(rf"{acc}\.update\((first_sets\[{s}\]|\w+)\)", unparse(n.ast))
    ]
    r.check(
        bool(contrib) and g.dominated_by_nodes(g.extra_exits["next"], contrib) if "next" in g.extra_exits else bool(contrib),
        f"{where}: FIRST of every scanned symbol is contributed",
        f"{where}:contribute",
        f"{where}: some scanned symbol does not contribute its FIRST set",
        node=scan,
    )
    brk = [n for n in g.nodes if n.kind == "stmt" and isinstance(n.ast, ast.Break)]
    r.check(bool(brk), f"{where}: the scan can stop", f"{where}:has-break",
            f"{where}: the scan of the remaining symbols never stops at a non-nullable symbol: terminals that cannot "
            "follow are added (spurious lookaheads, spurious conflicts)", node=scan)
    nul_txt = {f"EMPTY not in {acc}", f"EMPTY not in first_sets[{s}]", "EMPTY not in sfollow"}
    nul = [n for n in g.nodes if n.kind == "test" and unparse(n.ast) in nul_txt]
    r.check(bool(nul), f"{where}: nullability test present", f"{where}:nullability-test",
            f"{where}: the test `EMPTY not in FIRST(symbol)` that ends the scan is gone", node=scan)
    for b in brk:
        r.check(
            bool(nul) and g.dominated_by_edges(b, [(n, "T") for n in nul]),
            f"{where}: the scan stops only at a non-nullable symbol",
            f"{where}:break-guard",
            f"{where}: the scan can stop at a nullable symbol (lookaheads after it are lost)",
            node=b.ast,
        )
    for n in nul:
        starts = [m for lab, m in n.succ if lab == "T"]
        seen = g.reach(starts, avoid_nodes=brk)
        leaked = [e.tag for e in g.all_exits() if e in seen]
        r.check(not leaked, f"{where}: a non-nullable symbol always ends the scan", f"{where}:break-always",
                f"{where}: after a non-nullable symbol the scan can continue", node=n.ast)
    els = [unparse(st) for st in scan.orelse]
    r.check(
        inherit in els and len(els) == 1,
        f"{where}: exhausted scan => inherit ({inherit})",
        f"{where}:else-arm",
        f"{where}: the for-else arm is {els}; needed exactly `{inherit}`",
        node=scan,
    )
    # the inherited set is added nowhere else
    body_txt = " ".join(unparse(st) for st in scan.body)
    r.check(inherit not in body_txt, f"{where}: inherited set only when the rest is nullable", f"{where}:inherit-elsewhere",
            f"{where}: the inherited set is added inside the scan", node=scan)


# ------------------------------------------------------------------ R05.rearm / monotone
def _flag_sets(g, flag):
    return [
        n for n in g.nodes if n.kind == "stmt" and isinstance(n.ast, ast.Assign)
        and is_name(n.ast.targets[0], flag) and isinstance(n.ast.value, ast.Constant) and n.ast.value.value is True
    ]


def _rearm_check(r, g, growth_node, rearm_nodes, where, what, end_nodes=None):
    """growth must be control-dependent on a novelty test that precedes it, and on every path
    from the growth to the end of the iteration the loop is re-armed (or was, on the way in)"""
    tests = [n for n in g.nodes if n.kind == "test" and NOVELTY_PAT.search(unparse(n.ast))]
    dom_tests = [
        (n, lab) for n in tests for lab in ("T", "F")
        if g.dominated_by_edges(growth_node, [(n, lab)])
    ]
    r.check(
        bool(dom_tests),
        f"{where}: {what} happens only after a novelty test",
        f"{where}:{what}:novelty",
        f"{where}: `{norm_text(growth_node.ast)[:70]}` is not guarded by a test that detects whether something new "
        "is added (computed before the growth): the re-arm decision can then never see a difference",
        node=growth_node.ast,
    )
    # re-arm on every path: either before the growth under the same guard or after it
    ends = end_nodes or [e for e in g.all_exits() if e.tag in ("next", "continue", "return") or e.kind == "exit"]
    seen = g.reach([m for lab, m in growth_node.succ], avoid_nodes=rearm_nodes)
    before = any(g.dominated_by_nodes(growth_node, [a]) and any(g.dominated_by_edges(a, [e]) for e in dom_tests) for a in rearm_nodes)
    leaked = [e for e in ends if e in seen]
    r.check(
        before or not leaked,
        f"{where}: {what} re-arms the fixpoint",
        f"{where}:{what}:rearm",
        f"{where}: after `{norm_text(growth_node.ast)[:70]}` some path reaches the end of the iteration without "
        "re-arming the loop (flag / work list): the fixpoint stops early and lookaheads stay under-approximated "
        "(valid reductions missing from the table)",
        node=growth_node.ast,
    )


def rule_rearm(rep):
    with rep.rule(
        "R05.rearm",
        "every growth of a fixpoint carrier (FIRST, FOLLOW, item lookaheads in closure and in the "
        "global LALR propagation) is guarded by a novelty test computed before it and re-arms its loop",
    ) as r:
        repo = rep.repo
        n_sites = 0
        # first(): body of the production loop
        f = repo.func("parglare.tables.first")
        wl = next((l for l in f.body if isinstance(l, ast.While)), None)
        r.need(wl is not None and is_name(wl.test, "additions"), "first(): fixpoint loop not found")
        ploop = next(l for l in wl.body if isinstance(l, ast.For))
        g = cfgmod.build_region(ploop.body)
        flags = _flag_sets(g, "additions")
        for n in g.nodes:
            if n.kind == "stmt" and isinstance(n.ast, ast.Expr) and isinstance(n.ast.value, ast.Call):
                c = n.ast.value
                if isinstance(c.func, ast.Attribute) and c.func.attr in GROW and unparse(c.func.value).startswith("first_sets["):
                    n_sites += 1
                    _rearm_check(r, g, n, flags, "first", "growth of FIRST")
        r.check(
            any(isinstance(st, ast.Assign) and is_name(st.targets[0], "additions") and unparse(st.value) == "False" for st in wl.body),
            "first(): flag reset at the start of each round", "first:flag-reset",
            "first(): the fixpoint flag is not reset at the start of a round", node=wl)
        # follow()
        f = repo.func("parglare.tables.follow")
        wl = next((l for l in f.body if isinstance(l, ast.While)), None)
        r.need(wl is not None and is_name(wl.test, "additions"), "follow(): fixpoint loop not found")
        occ = next(l for l in walk_no_nested(wl) if isinstance(l, ast.For) and unparse(l.iter) == "enumerate(p.rhs)")
        g = cfgmod.build_region(occ.body)
        flags = _flag_sets(g, "additions")
        for n in g.nodes:
            if n.kind == "stmt" and isinstance(n.ast, ast.Expr) and isinstance(n.ast.value, ast.Call):
                c = n.ast.value
                if isinstance(c.func, ast.Attribute) and c.func.attr in GROW and unparse(c.func.value).startswith("follow_sets["):
                    n_sites += 1
                    _rearm_check(r, g, n, flags, "follow", "growth of FOLLOW")
        # closure(): work list
        f = repo.func("parglare.closure.closure")
        wl = next((l for l in f.body if isinstance(l, ast.While)), None)
        r.need(wl is not None and is_name(wl.test, "items_to_process"), "closure(): work-list loop not found")
        ploop = next((l for l in wl.body if isinstance(l, ast.For)), None)
        r.need(ploop is not None, "closure(): production loop not found")
        g = cfgmod.build_region(ploop.body)
        for n in g.nodes:
            if n.kind == "stmt" and isinstance(n.ast, ast.Expr) and isinstance(n.ast.value, ast.Call):
                c = n.ast.value
                if not isinstance(c.func, ast.Attribute):
                    continue
                tgt = unparse(c.func.value)
                if c.func.attr == "append" and tgt == "state.items":
                    n_sites += 1
                    enq = [m for m in g.nodes if m.kind == "stmt" and m.ast is not None and unparse(m.ast) == f"items_to_process.append({unparse(c.args[0])})"]
                    _rearm_check(r, g, n, enq, "closure", "new item")
                if c.func.attr in ("update", "add") and tgt.endswith(".follow"):
                    n_sites += 1
                    owner = tgt[: -len(".follow")]
                    enq = [m for m in g.nodes if m.kind == "stmt" and m.ast is not None and unparse(m.ast) == f"items_to_process.append({owner})"]
                    _rearm_check(r, g, n, enq, "closure", "widened lookahead")
        # the initial work list holds all items of the state
        r.check("items_to_process = list(state.items)" in unparse(f.node), "closure(): starts from all items of the state",
                "closure:init", "closure() no longer starts from all items of the state", node=f.node)
        # global propagation
        f = repo.func("parglare.tables.create_table")
        wl = next((l for l in walk_no_nested(f.node) if isinstance(l, ast.While) and is_name(l.test, "update")), None)
        r.need(wl is not None, "create_table: global lookahead propagation loop not found")
        inner = [l for l in walk_no_nested(wl) if isinstance(l, ast.For) and "kernel_items" in unparse(l.iter)]
        r.need(len(inner) == 1, "create_table: propagation loop over kernel items not found")
        g = cfgmod.build_region(inner[0].body)
        flags = _flag_sets(g, "update")
        for n in g.nodes:
            if n.kind == "stmt" and isinstance(n.ast, ast.Expr) and isinstance(n.ast.value, ast.Call):
                c = n.ast.value
                if isinstance(c.func, ast.Attribute) and c.func.attr in ("update", "add") and unparse(c.func.value).endswith(".follow"):
                    n_sites += 1
                    _rearm_check(r, g, n, flags, "propagation", "propagated lookahead")
        t = unparse(wl)
        r.check(
            re.search(r"update = False\s+for state in states:\s+closure\(state, LR_1, first_sets\)", t) is not None,
            "each propagation round first re-closes every state",
            "propagation:reclose",
            "a propagation round no longer re-closes every state before propagating",
            node=wl,
        )
        r.check(
            "chain(state.gotos.values(), [a.state for i in state.actions.values() for a in i if a.action is SHIFT])" in t,
            "propagation follows GOTO and SHIFT edges",
            "propagation:succ-edges",
            "lookahead propagation no longer follows both the GOTO and the SHIFT successors of a state",
            node=wl,
        )
        r.check(
            "inc_items = [i.get_pos_inc() for i in state.items]" in t and "this_item = inc_items[inc_items.index(next_item)]" in t,
            "a kernel item receives the lookahead of the item it was advanced from",
            "propagation:pairing",
            "propagation no longer pairs a successor kernel item with the advanced item of the source state",
            node=wl,
        )
        r.check(
            re.search(r"if itemset_type is LR_1:\s+update = True\s+while update:", unparse(f.node)) is not None,
            "propagation runs for LR(1) item sets, at least one round",
            "propagation:armed",
            "the global propagation phase is no longer run (at least once) for LALR tables",
            node=wl,
        )
        r.floor("fixpoint growth sites", n_sites, 6)


def rule_monotone(rep):
    with rep.rule(
        "R05.monotone",
        "fixpoint carriers only grow: no remove/discard/clear on FIRST / FOLLOW sets or item "
        "lookaheads (operations on fresh copies are fine); LR items never share a lookahead set object",
    ) as r:
        repo = rep.repo
        n = 0
        for q in ("parglare.tables.first", "parglare.tables.follow", "parglare.closure.closure",
                  "parglare.closure._new_item_follow", "parglare.tables.create_table", "parglare.tables.merge_states"):
            f = repo.func(q)
            fresh = {
                st.targets[0].id for st in walk_no_nested(f.node)
                if isinstance(st, ast.Assign) and isinstance(st.targets[0], ast.Name)
                and re.match(r"set\(|\w+\.copy\(\)|\{", unparse(st.value))
            }
            for c in walk_no_nested(f.node):
                if isinstance(c, ast.Call) and isinstance(c.func, ast.Attribute) and c.func.attr in SHRINK:
                    tgt = unparse(c.func.value)
                    carrier = tgt.startswith("first_sets[") or tgt.startswith("follow_sets[") or tgt.endswith(".follow")
                    if isinstance(c.func.value, ast.Name) and c.func.value.id in fresh:
                        carrier = False
                    if tgt in ("state_queue", "items_to_process", "actions[terminal]", "to_process"):
                        continue
                    n += 1
                    r.check(
                        not carrier,
                        f"{f.name}: `{unparse(c)[:50]}` does not shrink a fixpoint carrier",
                        f"{f.name}:shrink:{tgt}",
                        f"{f.name} shrinks a fixpoint carrier (`{unparse(c)[:60]}`): the fixpoint is no longer monotone "
                        "(termination and the computed sets are no longer guaranteed)",
                        node=c,
                    )
        r.floor("shrinking operations inspected", n, 2)
        # every LRItem gets a lookahead set of its own
        sites = 0
        for fn in repo.all_funcs():
            if fn.module.name not in ("parglare.tables", "parglare.closure"):
                continue
            for c in walk_no_nested(fn.node):
                if isinstance(c, ast.Call) and is_name(c.func, "LRItem"):
                    sites += 1
                    a = c.args[2] if len(c.args) > 2 else next((k.value for k in c.keywords if k.arg == "follow"), None)
                    t = unparse(a) if a is not None else "None"
                    ok = a is None or re.fullmatch(r"set\(.*\)( if .* else None)?|None|\w+\.copy\(\)|frozenset\(.*\)", t) is not None
                    r.check(
                        ok,
                        f"{fn.name}: LRItem gets a fresh lookahead set ({t[:30]})",
                        f"{fn.qual_in_module}:LRItem-follow",
                        f"{fn.qual_in_module} constructs an LRItem with the lookahead set object `{t}` of another item: "
                        "lookaheads merged into one state's items then flow backwards into the state that created it "
                        "(reductions outside the LALR(1) lookahead, spurious conflicts)",
                        node=c,
                    )
        r.floor("LRItem construction sites", sites, 3)


# ------------------------------------------------------------------ R05.novelty / numbering / merge
def rule_states(rep):
    with rep.rule(
        "R05.states",
        "state discovery: a state is enqueued only when the search over all processed and queued "
        "states found none with its kernel that could be reused (merged, for LALR); every enqueue "
        "takes a new state id; merge_states compares like with like",
    ) as r:
        repo = rep.repo
        f = repo.func("parglare.tables.create_table")
        sym_loop = next((l for l in walk_no_nested(f.node) if isinstance(l, ast.For) and unparse(l.iter) == "per_next_symbol.items()"), None)
        r.need(sym_loop is not None, "create_table: loop over the next symbols not found")
        g = cfgmod.build_region(sym_loop.body)
        enq = [n for n, c in g.nodes_calling("append") if unparse(c.func.value) == "state_queue"]
        r.floor("state_queue.append sites", len(enq), 1)
        incs = [n for n in g.nodes if n.kind == "stmt" and isinstance(n.ast, ast.AugAssign) and unparse(n.ast) == "state_id += 1"]
        none_T = g.test_edges(lambda e: unparse(e) in ("target_state is None", "target_state == None"), "T")
        for n in enq:
            seen = g.reach([m for lab, m in n.succ], avoid_nodes=incs)
            leaked = [e.tag for e in g.all_exits() if e in seen]
            if leaked:
                # the increment may also come between the creation of the candidate (which reads the id) and the enqueue
                cand = [x for x in g.nodes if x.kind == "stmt" and isinstance(x.ast, ast.Assign) and "LRState(" in unparse(x.ast.value)]
                after_cand = g.reach([m for c_ in cand for _, m in c_.succ]) if cand else set()
                pre = [i for i in incs if i in after_cand]
                if pre and g.dominated_by_nodes(n, pre):
                    leaked = []
            r.check(
                not leaked,
                "every enqueued state takes a fresh state id",
                "create_table:state-id",
                "a state can be enqueued without `state_id += 1`: the next state created gets the same id -- "
                "everything keyed by state id (GLR frontiers, the saved table) then confuses two states",
                node=n.ast,
            )
            r.check(
                bool(none_T) and g.dominated_by_edges(n, none_T),
                "enqueue only if the search found no state to reuse",
                "create_table:enqueue-unbounded",
                "a state is enqueued on a path that is not guarded by the failed search for a reusable state: "
                "nothing bounds the number of states",
                node=n.ast,
            )
        # a state that becomes the target of a transition without being reused is processed later:
        # from the binding of the candidate as target every path reaches the enqueue
        binds = [
            n for n in g.nodes if n.kind == "stmt" and isinstance(n.ast, ast.Assign)
            and is_name(n.ast.targets[0], "target_state") and is_name(n.ast.value, "maybe_new_state")
        ]
        r.floor("sites making the candidate state the target", len(binds), 1)
        for n in binds:
            missed = g.must_pass([n], enq, exits=[e for e in g.all_exits() if e is not g.raise_exit])
            r.check(
                not missed,
                "a new target state is always queued for processing",
                "create_table:enqueue-missed",
                "the candidate state can become the target of a transition without being put on the queue (e.g. when "
                "a kernel-equal state is already waiting there, which `in` cannot tell apart): it is never processed, "
                "never enters table.states and offers no actions although it is reachable",
                node=n.ast,
            )
        # the search: every processed and queued state with an equal kernel is tried (merged for LALR)
        search = next((l for l in sym_loop.body if isinstance(l, ast.For)), None)
        r.need(search is not None, "create_table: search for an existing state not found")
        t = unparse(sym_loop)
        r.check(
            unparse(search.iter) == "chain(states, state_queue)",
            "kernel search over all processed and all queued states",
            "create_table:search-domain",
            f"the search for a reusable state ranges over {unparse(search.iter)}, not over all processed and queued states",
            node=search,
        )
        sv = search.target.id if isinstance(search.target, ast.Name) else "?"
        sg = cfgmod.build_region(search.body)
        hits = [n for n in sg.nodes if n.kind == "stmt" and isinstance(n.ast, ast.Assign) and is_name(n.ast.targets[0], "target_state")]
        eq_T = sg.test_edges(lambda e: unparse(e) == f"{sv} == maybe_new_state", "T")
        slr = sg.test_edges(lambda e: unparse(e) == "itemset_type is not LR_1", "T")
        merged = sg.test_edges(lambda e: unparse(e) == f"merge_states({sv}, maybe_new_state)", "T")
        for n in hits:
            r.check(
                unparse(n.ast.value) == sv and bool(eq_T) and sg.dominated_by_edges(n, eq_T)
                and sg.dominated_by_edges(n, slr + merged) and bool(merged),
                "a state is reused only if its kernel is equal and (SLR or the LALR merge succeeded)",
                "create_table:reuse-guard",
                "an existing state can be reused although its kernel differs or the LALR merge was refused",
                node=n.ast,
            )
        r.floor("state reuse sites", len(hits), 1)
        # a refused merge must not end the search: only a hit breaks
        brks = [n for n in sg.nodes if n.kind == "stmt" and isinstance(n.ast, ast.Break)]
        for b_ in brks:
            r.check(
                sg.dominated_by_nodes(b_, hits),
                "the search ends only when a reusable state was found",
                "create_table:search-break",
                "the search for a reusable state can stop before a reusable state is found: a state split off by a "
                "refused merge is then never found again and recursive grammars create states forever",
                node=b_.ast,
            )
        r.check(
            re.search(r"target_state = None\s+for \w+ in chain\(states, state_queue\):", t) is not None,
            "search starts with no target",
            "create_table:search-init",
            "the target state is not reset before the search",
            node=sym_loop,
        )
        r.check(
            "maybe_new_state = LRState(grammar, state_id, symbol, inc_items)" in t
            and "inc_items = [item.get_pos_inc() for item in items]" in t,
            "candidate state = advanced items of the group, numbered with the next id",
            "create_table:candidate",
            "the candidate state is no longer LRState(grammar, state_id, symbol, advanced items of the group)",
            node=sym_loop,
        )
        eq = repo.func("parglare.tables.LRState.__eq__")
        te = unparse(eq.node)
        r.check(
            "this_kernel = [x for x in self.items if x.is_kernel]" in te and "all((item in other_kernel for item in this_kernel))" in te
            and "len(this_kernel) != len(other_kernel)" in te,
            "state equality = equality of kernel item sets",
            "LRState.__eq__",
            "LRState equality is no longer equality of the kernel item sets",
            node=eq.node,
        )
        ie = repo.func("parglare.tables.LRItem.__eq__")
        r.check("self.production == other.production" in unparse(ie.node) and "self.position == other.position" in unparse(ie.node),
                "item equality = (production, position)", "LRItem.__eq__", "LRItem equality changed", node=ie.node)
        # GOTO / SHIFT / ACCEPT entries
        r.check(
            re.search(r"if isinstance\(symbol, NonTerminal\):\s+state\.gotos\[symbol\] = target_state\s+else:\s+state\.actions\[symbol\] = \[Action\(SHIFT, state=target_state\)\]", t) is not None,
            "non-terminal -> GOTO, terminal -> SHIFT to the target state",
            "create_table:entries",
            "GOTO/SHIFT entries are no longer created for the (possibly merged) target state",
            node=sym_loop,
        )
        r.check(
            re.search(r"if symbol is STOP:\s+state\.actions\[symbol\] = \[Action\(ACCEPT\)\]\s+continue", t) is not None,
            "STOP after the dot -> ACCEPT",
            "create_table:accept",
            "ACCEPT is no longer created exactly for STOP after the dot",
            node=sym_loop,
        )
        # merge_states: sibling agreement of domains
        ms = repo.func("parglare.tables.merge_states")
        doms = []
        for ge in walk_no_nested(ms.node):
            if isinstance(ge, (ast.GeneratorExp, ast.ListComp)):
                for gen in ge.generators:
                    if any("is_at_end" in unparse(c) for c in gen.ifs):
                        doms.append((unparse(gen.iter), ge))
        r.floor("merge_states: filtered item domains", len(doms), 2)
        r.check(
            len({d for d, _ in doms}) == 1 and doms[0][0] == "old_state.kernel_items",
            "merge check and merge range over the same items (completed kernel items of the old state)",
            "merge_states:domains",
            f"merge_states ranges over {sorted({d for d, _ in doms})}: the conflict check and the merge no longer "
            "look at the same items (a check over all items refuses merges the kernel merge would never cause, "
            "splitting states without need -- and without end on recursive grammars)",
            node=doms[0][1],
        )
        tm = unparse(ms.node)
        r.check(
            "if s.follow.intersection(new.follow.difference(old.follow)):" in tm and "old.follow.update(new.follow)" in tm
            and "if old_state != new_state:" in tm,
            "merge refused only if the *added* lookaheads collide with another completed kernel item; merge = union",
            "merge_states:shape",
            "merge_states no longer refuses exactly on a collision of the added lookaheads / merges by union",
            node=ms.node,
        )


def rule_reduce_fill(rep):
    with rep.rule(
        "R05.reduce-fill",
        "for every completed item and every terminal of its lookahead (item lookahead for LALR, "
        "FOLLOW(lhs) for SLR) the cell is created or resolution runs; with no strategy and equal "
        "priorities nothing is removed",
    ) as r:
        repo = rep.repo
        from . import srtable
        from .C06 import default_priority

        D = default_priority(repo)
        region, leaves, problems, rows = srtable.run_table(repo, D)

        def focus(v):
            if v["absent"]:
                return True
            qs = v["D"] if v["shift"] == "ACCEPT" else v["Q"]
            return (
                v["assoc"] == "ASSOC_NONE" and not v["ps"] and not v["pse"]
                and (v["shift"] is None or v["P"] == qs) and (not v["old"] or v["P"] == v["R"])
            )

        charged = [p for p in problems if focus(p[0])]
        n_rows = sum(1 for lf in leaves for v in lf.valuations if focus(v))
        r.floor("no-strategy rows of the resolution table", n_rows, 20)
        seen = set()
        for v, exp, got, err, leaf, ex in charged:
            if id(leaf) in seen:
                continue
            seen.add(id(leaf))
            r.violation(
                "create_table:no-strategy-row",
                f"with no strategy, no associativity and equal priorities ({srtable_describe(v)}) the final cell is "
                f"{got} / exit {ex.kind}; needed {sorted(exp, key=str)}: a valid action is dropped from the table"
                + leaf.free_text(),
                node=region.term_loop,
            )
        r.obligations += n_rows
        r.discharged += n_rows - len(charged)
        # guards between the item loop and the terminal loop
        guards = region.guard_chain()
        r.check(
            [unparse(gd.test) for gd in guards] == [f"{region.item_var}.is_at_end"],
            "only completed items reduce, and all of them",
            "create_table:reduce-guard",
            f"the reduce-filling loop is guarded by {[unparse(gd.test) for gd in guards]}, not exactly by `item.is_at_end`",
            node=region.term_loop,
        )
        r.check(
            unparse(region.item_loop.iter) == f"{region.state_var}.items" and unparse(region.state_loop.iter) == "states",
            "every item of every state is examined",
            "create_table:reduce-domain",
            "the reduce-filling loops no longer range over every item of every state",
            node=region.item_loop,
        )
        # lookahead source (an order-only wrapper around the set -- sorted(...), list(...) -- changes nothing)
        it_e = region.iter_expr
        while isinstance(it_e, ast.Call) and isinstance(it_e.func, ast.Name) and it_e.func.id in ("sorted", "list", "tuple", "reversed", "iter") and it_e.args:
            it_e = it_e.args[0]
        it_name = re.escape(unparse(it_e))
        txt = unparse(region.item_loop)
        r.check(
            re.search(rf"if itemset_type is LR_1:\s+{it_name} = {region.item_var}\.follow\s+else:\s+{it_name} = follow_sets\[{region.item_var}\.production\.symbol\]", txt) is not None,
            "LALR: the item's own lookahead; SLR: FOLLOW of the production's symbol",
            "create_table:lookahead-source",
            "the lookahead set used for reductions is no longer item.follow (LALR) / FOLLOW(lhs) (SLR)",
            node=region.item_loop,
        )
        ie = repo.func("parglare.tables.LRItem.is_at_end")
        r.check("return self.position == len(self.production.rhs)" in unparse(ie.node), "completed = dot at the end",
                "LRItem.is_at_end", "LRItem.is_at_end changed", node=ie.node)


def srtable_describe(v):
    from ..table import describe
    return describe(v, ["shift", "old", "P", "Q", "R", "empty", "nops", "nopse"])


def rule_closure_shape(rep):
    with rep.rule(
        "R05.closure",
        "closure(): for a dot before a non-terminal every production of that non-terminal gets an "
        "item with the computed lookahead (fresh copy); items are looked up by (production, position)",
    ) as r:
        f = rep.repo.func("parglare.closure.closure")
        t = unparse(f.node)
        r.check(
            "for prod in [p for p in state.grammar.productions if p.symbol == symbol]:" in t,
            "all productions of the non-terminal after the dot",
            "closure:productions",
            "closure() no longer expands every production of the non-terminal after the dot",
            node=f.node,
        )
        r.check(
            "new_item = LRItem(prod, 0, set(follow) if itemset_type is LR_1 else None)" in t,
            "new items start at position 0 with their own copy of the lookahead",
            "closure:new-item",
            "closure() no longer creates LRItem(prod, 0, copy of the computed lookahead)",
            node=f.node,
        )
        r.check(
            re.search(r"if not isinstance\(symbol, NonTerminal\):\s+continue", t) is not None
            and "symbol = item.symbol_at_position" in t,
            "only a non-terminal after the dot expands",
            "closure:nonterminal-guard",
            "closure() no longer expands exactly the items with a non-terminal after the dot",
            node=f.node,
        )
        r.check(
            re.search(r"if itemset_type is LR_1:\s+follow = _new_item_follow\(item, first_sets\)", t) is not None,
            "LR(1): lookahead computed from the expanding item",
            "closure:follow",
            "closure() no longer computes the new items' lookahead with _new_item_follow(item, first_sets)",
            node=f.node,
        )


def check(rep):
    rep.explanation = (
        "C05 (partial): def-use rule for FIRST (EMPTY stripped), textbook shape of the three "
        "nullable scans (stop exactly at the first non-nullable symbol, inherit only when "
        "exhausted, every occurrence handled), fixpoint discipline (every growth guarded by a "
        "novelty test and re-arming its loop; carriers only grow; no shared lookahead set "
        "objects), state discovery (bounded enqueue -- the refused-merge enqueue is known finding "
        "D3 --, fresh id per enqueue, merge domains agree), reduce filling (every completed item x "
        "every lookahead terminal; the no-strategy rows of the resolution table remove nothing). "
        "Not decided: equality with the canonical LR(1)/LALR(1) sets for all grammars; termination "
        "beyond the structural bound."
    )
    rule_first(rep)
    rule_nullable_scans(rep)
    rule_rearm(rep)
    rule_monotone(rep)
    rule_states(rep)
    rule_reduce_fill(rep)
    rule_closure_shape(rep)
    from .C15 import rule_swap_restore

    rule_swap_restore(rep)  # FOLLOW / items are computed for the start production asked for, and for no stale one
