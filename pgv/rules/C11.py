"""C11 -- error recovery terminates, reports disjoint spans and parses the rest."""
from __future__ import annotations

import ast
import re

from .. import cfg as cfgmod
from ..core import AnalysisError, call_name, is_name, is_self_attr, unparse, walk_no_nested
from .common import calls_self, first_loop, func_cfg, self_attr_test


def _is_successful(e):
    return isinstance(e, ast.Name) and e.id == "successful"


def rule_progress(rep):
    with rep.rule(
        "R11.progress",
        "default_error_recovery: the scan is bounded by position < len(input); every path to "
        "`return True` first advances the position, then finds a token at the new position and "
        "stores it as the lookahead; exhausted input returns False",
    ) as r:
        f = rep.repo.func("parglare.parser.Parser.default_error_recovery")
        head = f.params[1]
        g = cfgmod.build_func(f)
        incs = [
            n for n in g.nodes
            if n.kind == "stmt" and isinstance(n.ast, ast.AugAssign) and unparse(n.ast.target) == f"{head}.position"
            and isinstance(n.ast.op, ast.Add) and unparse(n.ast.value) == "1"
        ]
        r.floor("position increments in the recovery scan", len(incs), 1)
        other_moves = [
            n for n in g.nodes if n.kind == "stmt" and n not in incs and isinstance(n.ast, (ast.Assign, ast.AugAssign))
            and any(unparse(t) == f"{head}.position" for t in (n.ast.targets if isinstance(n.ast, ast.Assign) else [n.ast.target]))
        ]
        r.check(not other_moves, "the position only moves forward by one", "default_error_recovery:moves",
                f"default_error_recovery also moves the position with `{unparse(other_moves[0].ast)[:60] if other_moves else ''}`",
                node=other_moves[0].ast if other_moves else None)
        rets = [n for n in g.nodes if n.kind == "stmt" and isinstance(n.ast, ast.Return)]
        rets_true = [n for n in rets if isinstance(n.ast.value, ast.Constant) and n.ast.value.value is True]
        rets_false = [n for n in rets if isinstance(n.ast.value, ast.Constant) and n.ast.value.value is False]
        r.floor("success returns", len(rets_true), 1)
        fetch = [n for n, c in g.nodes_calling("_next_token")] + [n for n, c in g.nodes_calling("_next_tokens")]
        r.floor("token fetches in the recovery scan", len(fetch), 1)
        # bound: the position is advanced only while it is before the end
        bound_ok = {(f"{head}.position < len({head}.input_str)", "T"), (f"{head}.position >= len({head}.input_str)", "F"),
                    (f"len({head}.input_str) > {head}.position", "T"), (f"len({head}.input_str) <= {head}.position", "F")}
        for n in incs:
            dom = g.dominating_tests(n)
            r.check(
                bool(dom & bound_ok),
                "scan bounded by position < len(input)",
                "default_error_recovery:bound",
                f"the position is advanced under the guard {sorted(dom)}: it is not bounded by `position < len(input)` "
                "(with `!=` a strategy that moved the position past the end never terminates; with `<=` recognisers "
                "are called past the end)",
                node=n.ast,
            )
        # every cycle advances the position
        alive = [n for n in g.nodes if n not in incs]
        color = {}

        def cyclic(n):
            color[n] = 1
            for _, m in n.succ:
                if m in incs:
                    continue
                if color.get(m) == 1:
                    return True
                if m not in color and cyclic(m):
                    return True
            color[n] = 2
            return False

        has_cycle = any(cyclic(n) for n in alive if n not in color)
        r.check(
            not has_cycle,
            "every iteration of the scan advances the position",
            "default_error_recovery:cycle",
            "default_error_recovery has a loop path that does not advance the position: the scan can spin forever",
            node=f.node,
        )
        for n in rets_true:
            r.check(
                g.dominated_by_nodes(n, incs),
                "success only after the position moved",
                "default_error_recovery:progress",
                "default_error_recovery can return True without having advanced the position: the parser "
                "resumes at the same position with the same lookahead and loops forever",
                node=n.ast,
            )
            store = [
                m for m in g.nodes if m.kind == "stmt" and isinstance(m.ast, ast.Assign)
                and unparse(m.ast.targets[0]) == f"{head}.token_ahead"
            ]
            r.check(
                bool(store) and g.dominated_by_nodes(n, store),
                "the token found is stored as the new lookahead before success is reported",
                "default_error_recovery:lookahead",
                "default_error_recovery returns True without storing the token found as head.token_ahead",
                node=n.ast,
            )
            multi = any("_next_tokens" in unparse(x.ast) for x in fetch)
            for m in store:
                v = m.ast.value
                if multi:
                    okv = (
                        isinstance(v, ast.IfExp) and re.fullmatch(r"len\((\w+)\) == 1", unparse(v.test)) is not None
                        and re.fullmatch(r"\w+\[0\]", unparse(v.body)) is not None and unparse(v.orelse) == "None"
                    )
                    r.check(
                        okv,
                        "the lookahead is stored only when it is unique (else left to the parser)",
                        "default_error_recovery:unique-lookahead",
                        f"default_error_recovery scans with _next_tokens and stores `{unparse(v)[:60]}`: with lexical "
                        "ambiguity at the resume position one alternative is dropped silently (GLR) or the stale "
                        "lookahead is kept",
                        node=m.ast,
                    )
            tok_test = g.test_edges(lambda e: isinstance(e, ast.Name) and e.id in ("token", "tok", "tokens"), "T")
            r.check(
                bool(tok_test) and g.dominated_by_edges(n, tok_test),
                "success only if a token was recognised",
                "default_error_recovery:token-found",
                "default_error_recovery can return True although no expected token was recognised",
                node=n.ast,
            )
        for n in fetch:
            r.check(
                g.dominated_by_nodes(n, incs),
                "token is looked for at the advanced position",
                "default_error_recovery:fetch-after-advance",
                "the recovery scan looks for a token before advancing: it finds the offending position again",
                node=n.ast,
            )
        # every other way out says False
        falls = g.exit in g.reach([g.entry], avoid_nodes=rets)
        r.check(
            bool(rets_false) and not falls and len(rets) == len(rets_true) + len(rets_false),
            "exhausted input -> False",
            "default_error_recovery:exhausted",
            "default_error_recovery does not return False when the input is exhausted",
            node=f.node,
        )


def _recovery_rules(r, repo, qual, label):
    f, g = func_cfg(repo, qual)
    # span end := resume position, iff successful
    stores = [
        n for n in g.nodes if n.kind == "stmt" and isinstance(n.ast, ast.Assign)
        and unparse(n.ast.targets[0]) == "error.location.end_position"
    ]
    succ_T = g.test_edges(_is_successful, "T")
    r.need(succ_T, f"{label}: test of `successful` not found")
    for n in stores:
        r.check(
            unparse(n.ast.value) == "head.position",
            f"{label}: span end := resume position",
            f"{label}:span-end-value",
            f"{label}: error span end is set to {unparse(n.ast.value)}, not to the position parsing resumes at",
            node=n.ast,
        )
        r.check(
            g.dominated_by_edges(n, succ_T),
            f"{label}: span end moved only for a successful recovery",
            f"{label}:span-end-guard",
            f"{label}: the error's span end is moved also when recovery of this head failed (a failing "
            "head scans to the end of input, so the span swallows later errors: spans overlap)",
            node=n.ast,
        )
    # every successful path passes the store
    for t, lab in succ_T:
        starts = [m for l2, m in t.succ if l2 == "T"]
        seen = g.reach(starts, avoid_nodes=stores)
        exits = [e for e in g.all_exits() if e in seen and e.kind == "exit"]
        # for the GLR loop the "exit" of an iteration is the loop head
        heads = [h for h in g.loop_heads.values() if h in seen]
        r.check(
            not exits and not heads,
            f"{label}: every successful recovery moves the span end",
            f"{label}:span-end-all-paths",
            f"{label}: some successful recovery path does not set error.location.end_position",
            node=t.ast,
        )
    # strategy selection and arguments
    txt = unparse(f.node)
    r.check(
        "successful = self.default_error_recovery(head)" in txt
        and "successful = self.error_recovery(head, error, self.default_error_recovery)" in txt
        and "isinstance(self.error_recovery, bool)" in txt,
        f"{label}: default strategy for True, custom strategy called with (head, error, default)",
        f"{label}:strategy",
        f"{label}: strategy selection / arguments changed",
        node=f.node,
    )
    r.check(
        "error = self.errors[-1]" in txt,
        f"{label}: the error being recovered is the last recorded one",
        f"{label}:error",
        f"{label}: no longer recovers the last recorded error",
        node=f.node,
    )
    return f, g


def rule_span_end(rep):
    with rep.rule(
        "R11.span-end",
        "on (and only on) the success path of both recoveries error.location.end_position := "
        "head.position; strategies are selected and called as documented",
    ) as r:
        _recovery_rules(r, rep.repo, "parglare.parser.Parser._do_recovery", "LR")
        f, g = _recovery_rules(r, rep.repo, "parglare.glr.GLRParser._do_error_recovery", "GLR")
        # GLR: only recovered heads are re-inserted; frontier reset first
        ins = [
            n for n in g.nodes if n.kind == "stmt" and isinstance(n.ast, ast.Assign)
            and isinstance(n.ast.targets[0], ast.Subscript) and is_self_attr(n.ast.targets[0].value, "_active_heads")
        ]
        r.floor("GLR: re-insertion sites", len(ins), 1)
        succ_T = g.test_edges(_is_successful, "T")
        for n in ins:
            r.check(
                g.dominated_by_edges(n, succ_T),
                "GLR: only a recovered head becomes active again",
                "GLR:reinsert-guard",
                "GLR: a head whose recovery failed is put back among the active heads",
                node=n.ast,
            )
            r.check(
                unparse(n.ast) == "self._active_heads[head.state.state_id] = head",
                "GLR: head re-inserted under its state id",
                "GLR:reinsert-key",
                f"GLR: re-insertion is `{unparse(n.ast)}`",
                node=n.ast,
            )
        reset = [n for n in g.nodes if n.kind == "stmt" and unparse(n.ast) == "self._active_heads = {}"]
        loop = next((l for l in walk_no_nested(f.node) if isinstance(l, ast.For)), None)
        r.need(loop is not None, "GLR recovery loop not found")
        r.check(
            bool(reset) and g.dominated_by_nodes(g.loop_heads[loop], reset),
            "GLR: frontier emptied before recovery",
            "GLR:frontier-reset",
            "GLR: the active heads are not emptied before the recovered ones are inserted",
            node=f.node,
        )
        r.check(
            unparse(loop.iter) == "self._last_shifted_heads",
            "GLR: recovery tried for every last shifted head",
            "GLR:recovery-domain",
            f"GLR: recovery ranges over {unparse(loop.iter)}",
            node=loop,
        )


def rule_gated(rep):
    with rep.rule(
        "R11.gated",
        "recovery code runs only under the error_recovery flag and only after an error has been "
        "recorded in the no-action / error-reporting arm; a failed recovery stops the parse; GLR "
        "clears the shifts collected in error-reporting mode",
    ) as r:
        repo = rep.repo
        # ---- LR
        f = repo.func("parglare.parser.Parser.parse")
        loop = first_loop(f, ast.While)
        g = cfgmod.build_region(loop.body)
        rec = [n for n, c in g.nodes_calling("_do_recovery")]
        r.floor("LR: _do_recovery call sites", len(rec), 1)
        flag_T = g.test_edges(self_attr_test("error_recovery"), "T")
        noact_F = g.test_edges(lambda e: is_name(e, "actions"), "F")
        app = [n for n, c in g.nodes_calling("append") if "self.errors.append" in unparse(n.ast)]
        r.floor("LR: error recording sites", len(app), 1)
        for n in rec:
            r.check(g.dominated_by_edges(n, flag_T), "LR: recovery only with the flag on", "LR:flag",
                    "LR: _do_recovery can run although error_recovery is off", node=n.ast)
            r.check(g.dominated_by_edges(n, noact_F), "LR: recovery only when no action exists", "LR:no-action-arm",
                    "LR: _do_recovery can run although an action exists for the lookahead (a sentence "
                    "would record errors)", node=n.ast)
            r.check(g.dominated_by_nodes(n, app), "LR: error recorded before recovering", "LR:record-first",
                    "LR: recovery can start without an error having been recorded", node=n.ast)
        for n in app:
            r.check(g.dominated_by_edges(n, noact_F), "LR: errors recorded only when no action exists", "LR:record-guard",
                    "LR: an error can be recorded although an action exists", node=n.ast)
            c = n.ast.value.args[0] if isinstance(n.ast, ast.Expr) else None
            r.check(c is not None and isinstance(c, ast.Call) and is_self_attr(c.func, "_create_error"),
                    "LR: recorded errors are built by _create_error", "LR:record-value",
                    "LR: something else than _create_error(...) is appended to self.errors", node=n.ast)
        # failed recovery leaves the loop; successful one continues with the next iteration
        for t, lab in g.test_edges(calls_self("_do_recovery"), "F"):
            starts = [m for l2, m in t.succ if l2 == "F"]
            seen = g.reach(starts)
            exits = {e.tag for e in g.all_exits() if e in seen}
            r.check(exits == {"break"}, "LR: failed recovery stops the parse", "LR:fail-stops",
                    f"LR: after a failed recovery the loop body exits through {sorted(exits)}, not `break`", node=t.ast)
        for t, lab in g.test_edges(calls_self("_do_recovery"), "T"):
            starts = [m for l2, m in t.succ if l2 == "T"]
            seen = g.reach(starts)
            exits = {e.tag for e in g.all_exits() if e in seen}
            r.check(exits == {"continue"}, "LR: successful recovery re-enters the loop", "LR:success-continues",
                    f"LR: after a successful recovery the loop body exits through {sorted(exits)}", node=t.ast)
        # without the flag: break
        for t, lab in g.test_edges(self_attr_test("error_recovery"), "F"):
            starts = [m for l2, m in t.succ if l2 == "F"]
            exits = {e.tag for e in g.all_exits() if e in g.reach(starts)}
            r.check(exits == {"break"}, "LR: no recovery -> parse stops at the first error", "LR:no-flag-stops",
                    f"LR: with error_recovery off the error arm exits through {sorted(exits)}", node=t.ast)
        # ---- GLR
        f = repo.func("parglare.glr.GLRParser.parse")
        loop = first_loop(f, ast.While)
        g = cfgmod.build_region(loop.body)
        rec = [n for n, c in g.nodes_calling("_do_error_recovery")]
        r.floor("GLR: _do_error_recovery call sites", len(rec), 1)
        flag_T = g.test_edges(self_attr_test("error_recovery"), "T")
        mode_T = g.test_edges(self_attr_test("_in_error_reporting"), "T")
        fin = [n for n, c in g.nodes_calling("_finish_error_reporting")]
        for n in rec:
            r.check(g.dominated_by_edges(n, flag_T), "GLR: recovery only with the flag on", "GLR:flag",
                    "GLR: _do_error_recovery can run although error_recovery is off", node=n.ast)
            r.check(g.dominated_by_edges(n, mode_T), "GLR: recovery only in the error-reporting arm", "GLR:mode",
                    "GLR: _do_error_recovery can run outside error-reporting mode", node=n.ast)
            r.check(g.dominated_by_nodes(n, fin), "GLR: error recorded (finish_error_reporting) before recovering",
                    "GLR:record-first", "GLR: recovery can start before the error is recorded", node=n.ast)
            clears = [m for m in g.nodes if m.kind == "stmt" and unparse(m.ast) == "self._for_shifter = []"]
            seen = g.reach([m for l2, m in n.succ], avoid_nodes=clears)
            leaked = [e.tag for e in g.all_exits() if e in seen]
            r.check(
                bool(clears) and not leaked,
                "GLR: shifts of invented lookaheads are cleared before the loop continues",
                "GLR:clear-fake-shifts",
                f"GLR: after recovery the loop can continue (via {leaked}) without clearing _for_shifter, "
                "which still holds shifts of the lookaheads invented in error-reporting mode",
                node=n.ast,
            )
        for t, lab in g.test_edges(self_attr_test("error_recovery"), "F"):
            starts = [m for l2, m in t.succ if l2 == "F"]
            exits = {e.tag for e in g.all_exits() if e in g.reach(starts)}
            r.check(exits == {"break"}, "GLR: no recovery -> parse stops", "GLR:no-flag-stops",
                    f"GLR: with error_recovery off the error arm exits through {sorted(exits)}", node=t.ast)
        # error mode entered only if nothing is active and nothing was accepted
        ent = [n for n, c in g.nodes_calling("_enter_error_reporting")]
        r.floor("GLR: _enter_error_reporting call sites", len(ent), 1)
        for n in ent:
            a = g.test_edges(self_attr_test("_active_heads"), "F")
            b = g.test_edges(self_attr_test("_accepted_heads"), "F")
            r.check(g.dominated_by_edges(n, a) and g.dominated_by_edges(n, b),
                    "GLR: error mode only if no head is active and none accepted", "GLR:enter-guard",
                    "GLR: error-reporting mode can be entered although heads are active or accepted", node=n.ast)
        fe = repo.func("parglare.glr.GLRParser._finish_error_reporting")
        t = unparse(fe.node)
        r.check("self.errors.append(self._create_error(" in t and "self._in_error_reporting = False" in t,
                "GLR: finishing error reporting records the error and leaves the mode", "GLR:finish",
                "_finish_error_reporting no longer records the error / leaves error-reporting mode", node=fe.node)


def rule_token_length(rep):
    with rep.rule(
        "R11.token-length",
        "a shifted token advances the position by Token.length (tokens injected by a recovery "
        "strategy carry an explicit length), in both drivers",
    ) as r:
        repo = rep.repo
        for qual, who in (("parglare.parser.Parser.parse", "LR"), ("parglare.glr.GLRParser._do_shifts", "GLR")):
            f = repo.func(qual)
            cands = [
                st for st in walk_no_nested(f.node)
                if isinstance(st, ast.Assign) and isinstance(st.value, ast.BinOp) and "head.position +" in unparse(st.value)
            ]
            r.floor(f"{who}: shift position computations", len(cands), 1)
            for st in cands:
                v = unparse(st.value)
                r.check(
                    v in ("head.position + len(head.token_ahead)", "head.position + head.token_ahead.length"),
                    f"{who}: new position = position + len(token)",
                    f"{who}:shift-length",
                    f"{who}: the position after a shift is `{v}`; a token's extent is Token.length "
                    "(len(token)), not the length of its value",
                    node=st,
                )
        t = repo.func("parglare.parser.Token.__len__")
        r.check("return self.length" in unparse(t.node), "len(token) is its length", "Token.__len__",
                "Token.__len__ no longer returns self.length", node=t.node)


def check(rep):
    rep.explanation = (
        "C11 (partial): CFG must-pass-through and guard rules on the recovery code of both "
        "drivers: bounded scan with progress before success, span end := resume position on and "
        "only on success, recovery only under the flag after an error was recorded in the error "
        "arm, failed recovery stops, fake shifts cleared, token extent = Token.length. Not decided: "
        "termination in general, disjointness/order of spans, coverage of every character."
    )
    rule_progress(rep)
    rule_span_end(rep)
    rule_gated(rep)
    rule_token_length(rep)
    from .C10 import rule_discipline, rule_errors_are_syntax_errors

    # recovery works on the heads snapshotted for this frontier and on the errors built from them
    rule_errors_are_syntax_errors(rep)
    rule_discipline(rep)  # nothing but the last SyntaxError leaves parse(), from recovery code included
