"""C16 -- determinism across processes and hash seeds: order-taint analysis (E7).

A value is *hash-ordered* when it is a set (display, comprehension, set()/frozenset(),
set-method result, or an attribute / dict value / local / parameter every writer of
which stores such a value).  Its iteration order depends on the string hash seed
unless every element is int-like (`.state_id`, `id(..)`, int literal).  Every
order-revealing use of a seed-dependent set must be consumed order-insensitively,
be sorted, or be one of the instances confirmed by hand (with their sanitiser checked).
"""
from __future__ import annotations

import ast
import re

from ..core import (
    AnalysisError,
    ancestors,
    call_name,
    dotted,
    is_name,
    is_self_attr,
    parent,
    unparse,
    walk_no_nested,
)
from .common import func_cfg, kw

SET_METHODS = {"intersection", "union", "difference", "symmetric_difference", "copy"}
INSENSITIVE_CALLS = {"any", "all", "sum", "set", "frozenset", "len", "min", "max", "sorted", "bool"}
INSENSITIVE_METHODS = {
    "update", "intersection", "union", "difference", "issubset", "issuperset", "isdisjoint",
    "intersection_update", "difference_update", "symmetric_difference",
}
SET_MUTATORS = {"add", "update", "discard", "remove", "clear", "difference_update", "intersection_update"}
PRINTS = {"h_print", "a_print", "prints", "print"}
SKIP_MODULES = {"parglare.cli", "parglare.export", "parglare.termui"}

# order-revealing uses confirmed by hand: (function qualname, normalised text of the use) -> reason
ALLOWED = {
    ("parglare.tables.create_table", "for TERM in follow_set"): (
        "key order of state.actions is seed dependent here; sanitised by sort_state_actions "
        "(total key, called on every create path) -- checked by R16.sanitiser"
    ),
    ("parglare.glr.GLRParser._finish_error_reporting", "list({h.state.symbol for h in self._last_shifted_heads})"): (
        "symbols_before attribute of a GLR SyntaxError: not one of C16's sinks (table bytes, forest "
        "order, conflict reports); reported as note"
    ),
    ("parglare.tables.LRItem.__str__", "[str(t) for t in self.follow]"): (
        "debug / conflict-message rendering of a lookahead set: text order only, recorded as note"
    ),
    ("parglare.glr.GLRParser._finish_error_reporting", "[t.name for t in self._expected]"): (
        "debug print only"
    ),
}


class SetModel:
    def __init__(self, repo):
        self.repo = repo
        self.funcs = [f for f in repo.all_funcs() if f.module.name not in SKIP_MODULES]
        self.set_attrs = {}  # attr name -> [element exprs]
        self.dict_of_sets = {}  # name/attr -> [element exprs]
        self.set_returning = {}  # function simple name -> [elements]
        self.param_sets = {}  # (func qual, param) -> [elements]
        self.locals = {}  # func qual -> {name: [elements]}
        self._fix()

    # ---- structural predicates
    def elems_of(self, e, f):
        """None if e is not a set expression in function f; else list of element exprs
        (possibly empty = unknown/none yet)."""
        loc = self.locals.get(f.qual, {})
        if isinstance(e, ast.Set):
            return list(e.elts)
        if isinstance(e, ast.SetComp):
            return [e.elt]
        if isinstance(e, ast.Call):
            fn = e.func
            if isinstance(fn, ast.Name) and fn.id in ("set", "frozenset"):
                if not e.args:
                    return []
                a = e.args[0]
                if isinstance(a, (ast.GeneratorExp, ast.ListComp, ast.SetComp)):
                    return [a.elt]
                if isinstance(a, (ast.List, ast.Tuple, ast.Set)):
                    return list(a.elts)
                inner = self.elems_of(a, f)
                if inner is not None:
                    return inner
                return [ast.Name(id="<elements of %s>" % unparse(a)[:30], ctx=ast.Load())]
            if isinstance(fn, ast.Attribute) and fn.attr in SET_METHODS:
                left = self.elems_of(fn.value, f)
                if left is not None:
                    if fn.attr in ("intersection", "difference", "copy"):
                        return left
                    out = list(left)
                    for a in e.args:
                        r = self.elems_of(a, f)
                        out += r if r is not None else [a]
                    return out
            if isinstance(fn, ast.Attribute) and fn.attr in ("get", "setdefault") and len(e.args) == 2:
                d = self._dict_key(fn.value, f)
                if d is not None:
                    return self.dict_of_sets[d]
                r = self.elems_of(e.args[1], f)
                if r is not None and fn.attr == "setdefault":
                    return r
            nm = call_name(e)
            if nm in self.set_returning and not isinstance(fn, ast.Attribute):
                return self.set_returning[nm]
            return None
        if isinstance(e, ast.BinOp) and isinstance(e.op, (ast.Sub, ast.BitAnd, ast.BitOr, ast.BitXor)):
            l, r = self.elems_of(e.left, f), self.elems_of(e.right, f)
            if l is not None or r is not None:
                if isinstance(e.op, (ast.Sub, ast.BitAnd)) and l is not None:
                    return l
                return (l or []) + (r or [])
            return None
        if isinstance(e, ast.IfExp):
            a, b = self.elems_of(e.body, f), self.elems_of(e.orelse, f)
            if a is not None or b is not None:
                return (a or []) + (b or [])
            return None
        if isinstance(e, ast.Name):
            if e.id in loc:
                return loc[e.id]
            if (f.qual, e.id) in self.param_sets:
                return self.param_sets[(f.qual, e.id)]
            return None
        if isinstance(e, ast.Attribute):
            if e.attr in self.set_attrs:
                return self.set_attrs[e.attr]
            return None
        if isinstance(e, ast.Subscript):
            d = self._dict_key(e.value, f)
            if d is not None:
                return self.dict_of_sets[d]
        return None

    def _dict_key(self, e, f):
        """name under which a dict-of-sets is known, or None"""
        if isinstance(e, ast.Name):
            n = e.id
            al = self.aliases.get(f.qual, {}).get(n)
            if al in self.dict_of_sets:
                return al
            return n if n in self.dict_of_sets else None
        if isinstance(e, ast.Attribute):
            return e.attr if e.attr in self.dict_of_sets else None
        return None

    # ---- fixpoint over the package
    def _fix(self):
        self.aliases = {}
        for f in self.funcs:
            al = {}
            for st in walk_no_nested(f.node):
                if isinstance(st, ast.Assign) and len(st.targets) == 1 and isinstance(st.targets[0], ast.Name):
                    if isinstance(st.value, ast.Attribute):
                        al[st.targets[0].id] = st.value.attr
            self.aliases[f.qual] = al
        for _ in range(6):
            before = self._size()
            for f in self.funcs:
                loc = self.locals.setdefault(f.qual, {})
                for st in walk_no_nested(f.node):
                    if isinstance(st, (ast.Assign, ast.AnnAssign, ast.AugAssign)):
                        targets = st.targets if isinstance(st, ast.Assign) else [st.target]
                        val = st.value
                        if val is None:
                            continue
                        el = self.elems_of(val, f)
                        for t in targets:
                            if isinstance(t, ast.Name):
                                if el is not None:
                                    self._merge(loc, t.id, el)
                            elif isinstance(t, ast.Attribute):
                                if el is not None:
                                    self._merge(self.set_attrs, t.attr, el)
                            elif isinstance(t, ast.Subscript):
                                if el is not None:
                                    key = t.value.id if isinstance(t.value, ast.Name) else (
                                        t.value.attr if isinstance(t.value, ast.Attribute) else None
                                    )
                                    if key:
                                        self._merge(self.dict_of_sets, key, el)
                    if isinstance(st, ast.Call):
                        fn = st.func
                        if isinstance(fn, ast.Attribute) and fn.attr == "setdefault" and len(st.args) == 2:
                            el = self.elems_of(st.args[1], f)
                            if el is not None:
                                key = fn.value.id if isinstance(fn.value, ast.Name) else (
                                    fn.value.attr if isinstance(fn.value, ast.Attribute) else None
                                )
                                if key:
                                    al = self.aliases[f.qual].get(key)
                                    self._merge(self.dict_of_sets, al or key, el)
                                    if al:
                                        self._merge(self.dict_of_sets, key, el)
                        # X.add(E) / X.update(...) feed element kinds
                        if isinstance(fn, ast.Attribute) and fn.attr == "add" and len(st.args) == 1:
                            self._feed(fn.value, [st.args[0]], f)
                        if isinstance(fn, ast.Attribute) and fn.attr == "update" and len(st.args) == 1:
                            el = self.elems_of(st.args[0], f)
                            if el is not None:
                                self._feed(fn.value, el, f)
                        # argument -> parameter typing
                        self._bind_args(st, f)
                    if isinstance(st, ast.Return) and st.value is not None:
                        el = self.elems_of(st.value, f)
                        if el is not None:
                            self._merge(self.set_returning, f.name, el)
                        elif isinstance(st.value, ast.Name) and st.value.id in self.dict_of_sets:
                            pass
            if self._size() == before:
                break

    def _feed(self, target, elems, f):
        loc = self.locals.setdefault(f.qual, {})
        if isinstance(target, ast.Name) and target.id in loc:
            self._merge(loc, target.id, elems)
        elif isinstance(target, ast.Attribute) and target.attr in self.set_attrs:
            self._merge(self.set_attrs, target.attr, elems)
        elif isinstance(target, ast.Subscript):
            d = self._dict_key(target.value, f)
            if d is not None:
                self._merge(self.dict_of_sets, d, elems)
        elif isinstance(target, ast.Call) and isinstance(target.func, ast.Attribute) and target.func.attr in ("setdefault", "get"):
            d = self._dict_key(target.func.value, f)
            if d is None and isinstance(target.func.value, (ast.Name, ast.Attribute)):
                key = target.func.value.id if isinstance(target.func.value, ast.Name) else target.func.value.attr
                al = self.aliases[f.qual].get(key)
                d = al or key
                self.dict_of_sets.setdefault(d, [])
            if d is not None:
                self._merge(self.dict_of_sets, d, elems)
                al = [k for k, v in self.aliases[f.qual].items() if v == d]
                for a in al:
                    self._merge(self.dict_of_sets, a, elems)

    def _bind_args(self, call, f):
        nm = call_name(call)
        if nm is None:
            return
        cands = [g for g in self.funcs if g.name == nm]
        if nm[:1].isupper():
            cands = [g for g in self.funcs if g.name == "__init__" and g.cls is not None and g.cls.name == nm]
        if len(cands) != 1:
            return
        g = cands[0]
        params = list(g.params)
        if params and params[0] in ("self", "cls"):
            params = params[1:]
        for i, a in enumerate(call.args):
            if isinstance(a, ast.Starred) or i >= len(params):
                break
            el = self.elems_of(a, f)
            if el is not None:
                self._merge(self.param_sets, (g.qual, params[i]), el)
        for k in call.keywords:
            if k.arg and k.arg in params:
                el = self.elems_of(k.value, f)
                if el is not None:
                    self._merge(self.param_sets, (g.qual, k.arg), el)

    @staticmethod
    def _merge(d, key, elems):
        cur = d.setdefault(key, [])
        have = {unparse(x) for x in cur}
        for e in elems:
            if unparse(e) not in have:
                cur.append(e)
                have.add(unparse(e))

    def _size(self):
        return sum(
            len(v) + 1
            for d in (self.set_attrs, self.dict_of_sets, self.set_returning, self.param_sets)
            for v in d.values()
        ) + sum(len(v) + 1 for loc in self.locals.values() for v in loc.values())

    # ---- element kind
    def int_like(self, elems, f, depth=0):
        if not elems:
            return False  # nothing known about the elements: pessimistic
        for e in elems:
            if isinstance(e, ast.Attribute) and e.attr == "state_id":
                continue
            if isinstance(e, ast.Call) and is_name(e.func, "id"):
                continue
            if isinstance(e, ast.Constant) and isinstance(e.value, int):
                continue
            if isinstance(e, ast.Call) and is_name(e.func, "len"):
                continue
            return False
        return True


def _use_text(node):
    if isinstance(node, ast.For):
        return f"for {unparse(node.target)} in {unparse(node.iter)}"
    return unparse(node)


def _consumer(node):
    """the expression/statement that consumes an iteration (comprehension -> its parent)"""
    return parent(node)


def rule_taint(rep):
    with rep.rule(
        "R16.taint",
        "no iteration over a seed-dependent set reaches an order-sensitive sink (list/dict "
        "insertion, numbering, serialisation, alternative order, driver work order) without a "
        "total-order sort",
    ) as r:
        repo = rep.repo
        sm = SetModel(repo)
        r.fact("set_valued_attributes", sorted(sm.set_attrs))
        r.fact("dicts_of_sets", sorted(sm.dict_of_sets))
        r.fact("set_returning_functions", sorted(sm.set_returning))
        r.fact("set_typed_parameters", sorted(f"{q}:{p}" for q, p in sm.param_sets))
        uses = []
        for f in sm.funcs:
            for n in walk_no_nested(f.node):
                # for-loops
                if isinstance(n, ast.For):
                    src = _strip_wrappers(n.iter)
                    el = sm.elems_of(src, f)
                    if el is not None:
                        uses.append((f, n, src, el, "for"))
                # comprehensions
                if isinstance(n, (ast.ListComp, ast.GeneratorExp, ast.DictComp, ast.SetComp)):
                    for g in n.generators:
                        src = _strip_wrappers(g.iter)
                        el = sm.elems_of(src, f)
                        if el is not None:
                            uses.append((f, n, src, el, "comp"))
                # list(H) tuple(H) join(H) next(iter(H)) H.pop() iter(H) *H
                if isinstance(n, ast.Call):
                    fn = n.func
                    if isinstance(fn, ast.Name) and fn.id in ("list", "tuple", "iter", "enumerate", "reversed") and n.args:
                        el = sm.elems_of(n.args[0], f)
                        if el is not None and not isinstance(parent(n), (ast.For, ast.comprehension)):
                            uses.append((f, n, n.args[0], el, "call"))
                    if isinstance(fn, ast.Attribute) and fn.attr == "join" and n.args:
                        el = sm.elems_of(n.args[0], f)
                        if el is not None:
                            uses.append((f, n, n.args[0], el, "join"))
                    if isinstance(fn, ast.Attribute) and fn.attr == "pop" and not n.args:
                        el = sm.elems_of(fn.value, f)
                        if el is not None:
                            uses.append((f, n, fn.value, el, "pop"))
                if isinstance(n, ast.Starred):
                    el = sm.elems_of(n.value, f)
                    if el is not None:
                        uses.append((f, n, n.value, el, "star"))
                if isinstance(n, ast.FormattedValue):
                    el = sm.elems_of(n.value, f)
                    if el is not None:
                        uses.append((f, n, n.value, el, "format"))
        r.fact("order_revealing_uses_of_sets", len(uses))
        r.floor("order-revealing uses of set-typed values found", len(uses), 6)
        seen_allowed = set()
        n_seed = 0
        for f, node, src, el, kind in uses:
            text = _use_text(node)
            where = f"{f.qual}: {text[:90]}"
            if sm.int_like(el, f):
                r.ok(where, "elements are int-like (state ids / id()): order does not depend on the hash seed", node)
                continue
            n_seed += 1
            # consumer classification
            verdict = _classify(sm, f, node, kind)
            key = (f.qual, _norm_use(text, f, repo))
            if verdict is None and key in ALLOWED:
                seen_allowed.add(key)
                r.ok(where, "confirmed instance: " + ALLOWED[key], node)
                if "note" in ALLOWED[key]:
                    r.note(f"seed-dependent order visible in {f.qual}: {text[:70]} ({ALLOWED[key]})", node)
                continue
            if verdict is None:
                r.violation(
                    f"{f.qual_in_module}:{_norm_use(text, f, repo)[:80]}",
                    f"iteration order of a seed-dependent set ({unparse(src)[:60]}, elements "
                    f"{[unparse(e)[:30] for e in el][:3]}) reaches an order-sensitive consumer: {text[:100]}",
                    node=node,
                )
            else:
                r.ok(where, verdict, node)
        r.fact("seed_dependent_uses", n_seed)
        r.floor("seed-dependent uses classified", n_seed, 3)
        # the confirmed instance: its body may only write the per-terminal cell
        from .tables_region import ReduceRegion

        reg = ReduceRegion(repo)
        it_txt = unparse(reg.term_loop.iter)
        if it_txt.startswith("sorted("):
            r.ok("reduce-filling loop iterates a sorted lookahead set", it_txt, reg.term_loop)
        else:
            must = ("parglare.tables.create_table", "for TERM in follow_set")
            r.check(
                must in seen_allowed,
                "the confirmed reduce-filling loop is the tainted key-order source",
                "create_table:follow-loop",
                "the reduce-filling loop over the lookahead set was not found in its confirmed form",
                node=reg.term_loop,
            )
            bad = _non_partition_effects(reg.term_loop, reg.term_var)
            r.check(
                not bad,
                "reduce-filling loop writes only the cell of the iterated terminal (per-key partition)",
                "create_table:follow-loop:partition",
                "the loop over the (seed-dependent) lookahead set has an order-sensitive effect "
                f"outside the iterated terminal's own cell: {[unparse(b)[:60] for b in bad][:3]}",
                node=bad[0] if bad else reg.term_loop,
            )


def _non_partition_effects(loop, var):
    """statements of the loop body with an effect that is not rooted at  <dict>[var]"""
    bad = []

    def rooted(e):
        while isinstance(e, (ast.Subscript, ast.Attribute, ast.Call)):
            if isinstance(e, ast.Subscript) and is_name(e.slice, var) and isinstance(e.value, (ast.Name, ast.Attribute)):
                return True
            e = e.value if not isinstance(e, ast.Call) else e.func
        return False

    for st in walk_no_nested(loop):
        if st is loop:
            continue
        if isinstance(st, ast.Assign):
            for t in st.targets:
                if isinstance(t, ast.Name):
                    continue
                if not rooted(t):
                    bad.append(st)
        elif isinstance(st, ast.AugAssign):
            if not isinstance(st.target, ast.Name) and not rooted(st.target):
                bad.append(st)
        elif isinstance(st, ast.Expr) and isinstance(st.value, ast.Call):
            c = st.value
            if call_name(c) in PRINTS:
                continue
            if isinstance(c.func, ast.Attribute) and rooted(c.func.value):
                continue
            bad.append(st)
        elif isinstance(st, (ast.Return, ast.Yield, ast.YieldFrom, ast.Delete, ast.Raise)):
            bad.append(st)
    return bad


def _strip_wrappers(e):
    while isinstance(e, ast.Call) and isinstance(e.func, ast.Name) and e.func.id in (
        "enumerate", "list", "tuple", "reversed", "iter"
    ) and e.args:
        e = e.args[0]
    return e


def _norm_use(text, f, repo):
    if f.qual == "parglare.tables.create_table":
        return re.sub(r"^for \w+ in ", "for TERM in ", text)
    return text


def _classify(sm, f, node, kind):
    """reason string if the use is order-insensitive / sanitised, else None"""
    if kind in ("comp",):
        if isinstance(node, ast.SetComp):
            return "set comprehension: result is a set again"
        p = parent(node)
        if isinstance(p, ast.Call):
            fn = p.func
            if isinstance(fn, ast.Name) and fn.id in INSENSITIVE_CALLS and node in p.args:
                return f"consumed by {fn.id}(): order-insensitive" + (" (sorted)" if fn.id == "sorted" else "")
            if isinstance(fn, ast.Attribute) and fn.attr in INSENSITIVE_METHODS and node in p.args:
                return f"consumed by .{fn.attr}(): order-insensitive"
        # (x for x in S if ...) used as a for-iterable: classify the loop instead
        if isinstance(p, ast.For) and p.iter is node:
            return _classify_for(sm, f, p)
        return None
    if kind == "call":
        p = parent(node)
        if isinstance(p, ast.Call) and isinstance(p.func, ast.Name) and p.func.id in INSENSITIVE_CALLS:
            return f"consumed by {p.func.id}()"
        return None
    if kind == "for":
        return _classify_for(sm, f, node)
    return None


def _classify_for(sm, f, loop):
    """A loop over a seed-dependent set is harmless iff every statement of its body is
    order-insensitive: set mutation, flag assignment from constants, membership tests,
    existential early exit with a constant, prints."""
    var = {n.id for n in ast.walk(loop.target) if isinstance(n, ast.Name)}

    def stmt_ok(st):
        if isinstance(st, ast.If):
            return all(stmt_ok(s) for s in st.body + st.orelse)
        if isinstance(st, (ast.Pass, ast.Continue, ast.Break, ast.Assert)):
            return True
        if isinstance(st, ast.Return):
            return st.value is None or isinstance(st.value, ast.Constant)
        if isinstance(st, ast.Assign):
            return all(isinstance(t, ast.Name) for t in st.targets) and isinstance(st.value, ast.Constant)
        if isinstance(st, ast.Expr) and isinstance(st.value, ast.Call):
            c = st.value
            if call_name(c) in PRINTS:
                return True
            if isinstance(c.func, ast.Attribute) and c.func.attr in SET_MUTATORS:
                tgt = sm.elems_of(c.func.value, f)
                return tgt is not None
            return False
        return False

    if all(stmt_ok(s) for s in loop.body) and not loop.orelse:
        return "loop body is order-insensitive (set updates / constant flags / existential exit)"
    return None


def rule_sanitiser(rep):
    with rep.rule(
        "R16.sanitiser",
        "the seed-dependent key order of state.actions is sanitised: sort_state_actions (total "
        "key ending in the unique fqn) runs on every path that creates a table",
    ) as r:
        repo = rep.repo
        from .C07 import rule_sort_key_checks

        rule_sort_key_checks(r, repo)
        # create_table -> LRTable(states, **kwargs): calc_finish_flags must stay True
        ct = repo.func("parglare.tables.create_table")
        cons = [c for c in walk_no_nested(ct.node) if isinstance(c, ast.Call) and call_name(c) == "LRTable"]
        r.need(len(cons) == 1, "create_table: LRTable construction not found")
        cff = kw(cons[0], "calc_finish_flags")
        r.check(
            cff is None,
            "create_table does not switch the sort off",
            "create_table:calc_finish_flags",
            f"create_table constructs LRTable with calc_finish_flags={unparse(cff)}",
            node=cons[0],
        )
        for fn in repo.all_funcs():
            for c in walk_no_nested(fn.node):
                if isinstance(c, ast.Call) and call_name(c) in ("create_load_table", "create_table"):
                    bad = kw(c, "calc_finish_flags")
                    r.check(
                        bad is None,
                        f"{fn.name}: table construction keeps the sort on",
                        f"{fn.qual_in_module}:calc_finish_flags",
                        "a call site switches calc_finish_flags off: actions keep their seed-dependent order",
                        node=c,
                    )
        f, g = func_cfg(repo, "parglare.tables.LRTable.__init__")
        srt = [n for n, c in g.nodes_calling("sort_state_actions")]
        on = g.test_edges(lambda e: is_name(e, "calc_finish_flags"), "F")
        r.check(
            bool(srt) and g.exit not in g.reach([g.entry], avoid_nodes=srt, avoid_edges=on),
            "LRTable.__init__ sorts whenever calc_finish_flags is on",
            "LRTable.__init__:sort-dominates",
            "some path through LRTable.__init__ with calc_finish_flags on skips sort_state_actions",
            node=f.node,
        )
        # everything that walks state.actions in LRTable.__init__ does so after the sort
        unsorted = g.reach([g.entry], avoid_nodes=srt, avoid_edges=on)
        consumers = g.nodes_calling("calc_conflicts_and_dynamic_terminals") + g.nodes_calling("calc_finish_flags")
        r.floor("consumers of the action order in LRTable.__init__", len(consumers), 2)
        for n, c in consumers:
            r.check(
                n not in unsorted,
                f"{call_name(c)} runs on sorted actions",
                f"LRTable.__init__:{call_name(c)}:after-sort",
                f"{call_name(c)} can run before sort_state_actions: it walks state.actions in the seed-dependent "
                "order in which the lookahead sets were iterated (conflict lists / finish flags then differ "
                "between hash seeds and between a computed and a loaded table)",
                node=n.ast,
            )
        # sort is stable & total only if it replaces state.actions by an ordered dict of the sorted items
        ssa = repo.func("parglare.tables.LRTable.sort_state_actions")
        r.check(
            re.search(r"state\.actions = (OrderedDict|dict)\(\s*sorted\(", unparse(ssa.node)) is not None,
            "sorted items are stored back as the state's (ordered) action dict",
            "sort_state_actions:store",
            "the sorted order is not stored back into state.actions",
            node=ssa.node,
        )


def rule_dump(rep):
    with rep.rule(
        "R16.dump",
        "the serialised table is built from ordered containers in stored order (a process that "
        "loads the cache sees the table a process that computed it saw)",
    ) as r:
        from .C12 import persist_order_checks

        persist_order_checks(r, rep.repo)


def rule_driver_order(rep):
    with rep.rule(
        "R16.driver-order",
        "GLR work lists and frontiers are ordered containers (list / dict), consumed by "
        "pop()/popitem()/stable sort: processing order, hence alternative order, is a function of "
        "the input only",
    ) as r:
        repo = rep.repo
        sm = SetModel(repo)
        glr = repo.cls("parglare.glr.GLRParser")
        carriers = ["_for_actor", "_for_shifter", "_active_heads", "_active_heads_per_symbol",
                    "_accepted_heads", "_last_shifted_heads"]
        for attr in carriers:
            writers = []
            for f in sm.funcs:
                if f.cls is None or f.cls.name != "GLRParser":
                    continue
                for st in walk_no_nested(f.node):
                    if isinstance(st, ast.Assign):
                        for t in st.targets:
                            for tt in (t.elts if isinstance(t, ast.Tuple) else [t]):
                                if is_self_attr(tt, attr):
                                    writers.append((f, st, tt is t))
            r.need(writers, f"no writer of GLRParser.{attr} found")
            for f, st, direct in writers:
                if not direct:
                    ok = "popitem()" in unparse(st.value)
                    why = unparse(st.value)
                else:
                    el = sm.elems_of(st.value, f)
                    ok = el is None
                    why = unparse(st.value)
                r.check(
                    ok,
                    f"{attr} is assigned an ordered container in {f.name}",
                    f"GLRParser.{attr}:ordered",
                    f"GLRParser.{attr} is assigned a hash-ordered value ({why[:60]}): the driver's "
                    "processing order (and the order of packed alternatives) becomes seed dependent",
                    node=st,
                )


def check(rep):
    rep.explanation = (
        "C16: whole-package order-taint analysis. Set-typed values are inferred (attributes, dict "
        "values, locals, parameters bound at call sites, set-returning functions); every "
        "order-revealing use of a set whose elements are not int-like must be consumed "
        "order-insensitively, sorted, or be a hand-confirmed instance whose sanitiser "
        "(sort_state_actions, total key, must-called) is checked. Plus: the serialiser keeps stored "
        "order; GLR work lists are ordered containers."
    )
    rep.assumptions += [
        "soundness of the set-type inference (name-based for attributes and dict values, one level of call binding)",
        "sets of ints and of id()s iterate independently of PYTHONHASHSEED",
        "dict and list iteration is insertion ordered (Python >= 3.7)",
    ]
    rule_taint(rep)
    rule_sanitiser(rep)
    rule_dump(rep)
    rule_driver_order(rep)
