"""C10 -- rejections are always reported as SyntaxError at the first offending token."""
from __future__ import annotations

import ast
import re

from .. import cfg as cfgmod
from ..callgraph import CallGraph
from ..core import (
    AnalysisError,
    ancestors,
    call_name,
    is_name,
    is_self_attr,
    norm_text,
    parent,
    plain,
    unparse,
    walk_no_nested,
)
from ..interp import Interp
from ..table import Atoms, describe, explore
from .common import first_loop, func_cfg, self_attr_test
from .tables_region import N

# (function, exception type) -> guard that must hold at the raise site / on the way to it
ALLOWED_RAISES = {
    ("Parser.parse", "DynamicDisambiguationConflict"): "only with a dynamic_filter (dominated by `self.dynamic_filter`)",
    ("Parser.parse", "<last recorded error>"): "re-raises self.errors[-1] (SyntaxError objects only, R10.errors-are-syntax-errors)",
    ("GLRParser.parse", "<last recorded error>"): "re-raises self.errors[-1]",
    ("Parser._next_token", "DisambiguationError"): "lexical ambiguity; LR only (not reachable from GLRParser.parse, checked)",
    ("Parser._token_recognition", "TypeError"): "re-raise of a user recogniser's TypeError (inside the handler)",
    ("Parser._skipws", "ParserInitError"): "non-text input with ws set (inside the TypeError handler)",
    ("visitor", "LoopError"): "only from the debug print of forest.solutions",
}


def _exc_type(raise_node):
    e = raise_node.exc
    if e is None:
        return "<re-raise>"
    if isinstance(e, ast.Call):
        return unparse(e.func).split(".")[-1]
    if isinstance(e, ast.Name):
        return f"<name {e.id}>"
    return unparse(e)


def rule_discipline(rep):
    with rep.rule(
        "R10.discipline",
        "exception types that can escape parse() from parglare's own raise sites are a closed, "
        "guarded allow-list (SyntaxError via the error list; DisambiguationError; the documented "
        "configuration errors)",
    ) as r:
        repo = rep.repo
        total = 0
        for cls_q in ("parglare.parser.Parser", "parglare.glr.GLRParser"):
            cg = CallGraph(repo, cls_q)
            entry = repo.cls(cls_q).find_method("parse")
            seen = cg.reachable(entry)
            r.fact(f"{cls_q}:functions_reachable_from_parse", len(seen))
            r.floor(f"{cls_q}: functions reachable from parse", len(seen), 30)
            who = cls_q.split(".")[-1]
            for f in seen:
                for n in walk_no_nested(f.node):
                    if not isinstance(n, ast.Raise):
                        continue
                    total += 1
                    typ = _exc_type(n)
                    fname = f.qual_in_module
                    # `raise error` where error = self.errors[-1]
                    if typ.startswith("<name "):
                        nm = typ[6:-1]
                        src = [
                            st for st in walk_no_nested(f.node)
                            if isinstance(st, ast.Assign) and is_name(st.targets[0], nm)
                        ]
                        if len(src) == 1 and unparse(src[0].value) == "self.errors[-1]":
                            typ = "<last recorded error>"
                    key = (fname, typ)
                    ok = key in ALLOWED_RAISES
                    # handler context for re-raises
                    if typ == "<re-raise>":
                        ok = True
                    r.check(
                        ok,
                        f"{who}: {fname} raises {typ}: {ALLOWED_RAISES.get(key, 're-raise inside a handler')}",
                        f"{fname}:raise {typ}",
                        f"`{norm_text(n)[:80]}` in {fname} is reachable from {who}.parse "
                        f"({' ; '.join(cg.path_to(seen, f))[-160:] or 'directly'}): a rejection (or a parse) can end "
                        f"with {typ}, which is not among the documented exception types",
                        node=n,
                    )
            # guards
            if who == "Parser":
                f, g = func_cfg(repo, "parglare.parser.Parser.parse")
                for n in g.nodes:
                    if n.kind == "stmt" and isinstance(n.ast, ast.Raise) and _exc_type(n.ast) == "DynamicDisambiguationConflict":
                        r.check(
                            g.dominated_by_edges(n, g.test_edges(self_attr_test("dynamic_filter"), "T")),
                            "DynamicDisambiguationConflict only with a dynamic filter",
                            "Parser.parse:DynamicDisambiguationConflict-guard",
                            "DynamicDisambiguationConflict can be raised without a dynamic_filter",
                            node=n.ast,
                        )
            else:
                # DisambiguationError in GLR only through recovery
                rec = repo.cls(cls_q).find_method("_do_error_recovery")
                nt = repo.cls(cls_q).find_method("_next_token")
                seen2 = {}
                todo = [entry]
                while todo:
                    f = todo.pop()
                    if f in seen2:
                        continue
                    seen2[f] = True
                    for g_, c, kind in cg.callees(f):
                        if kind == "by-name" and g_.name == "parse":
                            continue  # the layout sub-parser: an LR parser of its own
                        todo.append(g_)
                r.check(
                    nt not in seen2,
                    "GLR: _next_token (the LR fetch that raises DisambiguationError) is not reachable, recovery included",
                    "GLRParser.parse:DisambiguationError-guard",
                    "GLRParser.parse can reach _next_token (which raises DisambiguationError on lexical ambiguity): "
                    "GLR must pursue every lexical alternative instead, also where recovery resumes",
                    node=nt.node,
                )
                f, g = func_cfg(repo, "parglare.glr.GLRParser.parse")
                # forest.solutions (LoopError) only under debug
                for n in g.nodes:
                    if n.ast is not None and n.kind in ("stmt", "test") and ".solutions" in unparse(n.ast):
                        r.check(
                            g.dominated_by_edges(n, g.test_edges(self_attr_test("debug"), "T")),
                            "forest.solutions is evaluated by parse only for the debug print",
                            "GLRParser.parse:LoopError-guard",
                            "GLRParser.parse evaluates forest.solutions outside the debug print: a cyclic "
                            "grammar makes parse raise LoopError",
                            node=n.ast,
                        )
        r.floor("raise sites reachable from a parse", total, 7)
        # handler contexts
        sk = repo.func("parglare.parser.Parser._skipws")
        for n in walk_no_nested(sk.node):
            if isinstance(n, ast.Raise):
                inh = any(isinstance(a, ast.ExceptHandler) and unparse(a.type) == "TypeError" for a in ancestors(n))
                r.check(inh, "ParserInitError only from the TypeError handler", "_skipws:handler",
                        "_skipws raises outside its TypeError handler", node=n)


def rule_errors_are_syntax_errors(rep):
    with rep.rule(
        "R10.errors-are-syntax-errors",
        "everything appended to self.errors is the result of _create_error, whose every return is "
        "a parglare SyntaxError built from Location(ErrorContext(head)) -- the position after layout",
    ) as r:
        repo = rep.repo
        n = 0
        for f in repo.all_funcs():
            if f.module.name not in ("parglare.parser", "parglare.glr"):
                continue
            for c in walk_no_nested(f.node):
                if isinstance(c, ast.Call) and isinstance(c.func, ast.Attribute) and c.func.attr in ("append", "insert", "extend") and is_self_attr(c.func.value, "errors"):
                    n += 1
                    a = c.args[-1] if c.args else None
                    r.check(
                        isinstance(a, ast.Call) and is_self_attr(a.func, "_create_error"),
                        f"{f.qual_in_module}: errors.append(self._create_error(...))",
                        f"{f.qual_in_module}:errors-append",
                        f"{f.qual_in_module} puts `{unparse(a)[:60]}` into self.errors: parse re-raises the last "
                        "element, so a rejection could end with something else than SyntaxError",
                        node=c,
                    )
            for st in walk_no_nested(f.node):
                if isinstance(st, ast.Assign) and any(is_self_attr(t, "errors") for t in st.targets):
                    r.check(unparse(st.value) == "[]", f"{f.qual_in_module}: errors reset to []",
                            f"{f.qual_in_module}:errors-assign", f"self.errors is assigned {unparse(st.value)[:40]}", node=st)
        r.floor("errors.append sites", n, 2)
        ce = repo.func("parglare.parser.Parser._create_error")
        rets = [s for s in walk_no_nested(ce.node) if isinstance(s, ast.Return)]
        r.check(len(rets) == 1 and is_name(rets[0].value, "error"), "_create_error returns its error object",
                "_create_error:return", "_create_error has another return", node=ce.node)
        cons = [
            st for st in walk_no_nested(ce.node)
            if isinstance(st, ast.Assign) and is_name(st.targets[0], "error") and isinstance(st.value, ast.Call)
        ]
        r.need(len(cons) == 1, "_create_error: construction of the error not found")
        c = cons[0].value
        r.check(is_name(c.func, "SyntaxError") and repo.module("parglare.parser").imports.get("SyntaxError") == "parglare.exceptions.SyntaxError",
                "the error is parglare.exceptions.SyntaxError", "_create_error:type",
                f"_create_error constructs {unparse(c.func)}", node=c)
        ctxp = ce.params[2]
        r.check(
            c.args and unparse(c.args[0]) == f"Location(context=ErrorContext({ctxp}))",
            "error location = ErrorContext(head): the head's position (after layout), not its last span",
            "_create_error:location",
            f"the error location is built as {unparse(c.args[0]) if c.args else None}",
            node=c,
        )
        ec = repo.func("parglare.common.ErrorContext.__init__")
        r.check("self.start_position = self.end_position = context.position" in unparse(ec.node),
                "ErrorContext span starts and ends at the head's position", "ErrorContext.__init__",
                "ErrorContext no longer uses context.position", node=ec.node)
        # the heads handed to _create_error
        lr = repo.func("parglare.parser.Parser.parse")
        calls = [c2 for c2 in walk_no_nested(lr.node) if isinstance(c2, ast.Call) and is_self_attr(c2.func, "_create_error")]
        r.check(len(calls) == 1 and [unparse(a) for a in calls[0].args[:2]] == ["input_str", "head"],
                "LR: error built from the current head", "Parser.parse:error-head",
                "LR: the error is not built from (input_str, head)", node=lr.node)
        fe = repo.func("parglare.glr.GLRParser._finish_error_reporting")
        t = unparse(fe.node)
        r.check(
            "context = self._last_shifted_heads[0]" in t and "self._create_error(input_str, context, self._expected" in t,
            "GLR: error built from the farthest last-shifted head",
            "_finish_error_reporting:error-head",
            "GLR: the error is no longer built from the farthest last-shifted head",
            node=fe.node,
        )
        en = repo.func("parglare.glr.GLRParser._enter_error_reporting")
        t = unparse(en.node)
        r.check(
            "self._last_shifted_heads.sort(key=lambda h: h.position, reverse=True)" in t
            and "last_head = self._last_shifted_heads[0]" in t,
            "GLR: heads sorted by position, farthest first",
            "_enter_error_reporting:farthest",
            "GLR: last shifted heads are no longer sorted farthest-first",
            node=en.node,
        )
        p = repo.func("parglare.glr.GLRParser.parse")
        r.check(
            re.search(r"if not self\._in_error_reporting:\s+self\._last_shifted_heads = list\(self\._active_heads\.values\(\)\)\s+self\._find_lookaheads\(\)", unparse(p.node)) is not None,
            "GLR: the heads snapshotted for error reporting are the ones _find_lookaheads advances over layout",
            "GLRParser.parse:snapshot",
            "GLR: the snapshot of last shifted heads is no longer taken right before _find_lookaheads",
            node=p.node,
        )


def rule_expected(rep):
    with rep.rule(
        "R10.expected",
        "GLR error reporting simulates every possible lookahead of every farthest head (no head "
        "is dropped when two offer the same lookahead); expected = lookaheads that reach a shift; "
        "recognisers are never called at or past the end of input while the error is built",
    ) as r:
        repo = rep.repo
        f = repo.func("parglare.glr.GLRParser._enter_error_reporting")
        outer = next((l for l in walk_no_nested(f.node) if isinstance(l, ast.For) and unparse(l.iter) == "farthest_heads"), None)
        explicit = False
        if outer is None:
            # the same prefix written as an explicit loop: for head in <sorted heads>: if head.position != last_head.position: break
            for l in walk_no_nested(f.node):
                if isinstance(l, ast.For) and unparse(l.iter) == "self._last_shifted_heads" and isinstance(l.target, ast.Name) and l.body \
                        and isinstance(l.body[0], ast.If) and len(l.body[0].body) == 1 and isinstance(l.body[0].body[0], ast.Break) and not l.body[0].orelse \
                        and unparse(l.body[0].test) in (f"{l.target.id}.position != last_head.position", f"last_head.position != {l.target.id}.position"):
                    outer, explicit = l, True
        r.need(outer is not None, "_enter_error_reporting: loop over the farthest heads not found")
        inner = next((l for l in outer.body if isinstance(l, ast.For)), None)
        r.need(inner is not None, "_enter_error_reporting: loop over possible lookaheads not found")
        r.check(
            unparse(inner.iter) in ("head.state.actions", "head.state.actions.keys()"),
            "every terminal with an action in the head's state is simulated",
            "_enter_error_reporting:lookaheads",
            f"possible lookaheads range over {unparse(inner.iter)}",
            node=inner,
        )
        _check_registration(r, inner, "h", unparse(inner.target), "_enter_error_reporting")
        t = unparse(f.node)
        r.check(
            explicit or "farthest_heads = takewhile(lambda h: h.position == last_head.position, self._last_shifted_heads)" in t,
            "all heads at the farthest position take part",
            "_enter_error_reporting:farthest-heads",
            "not all heads at the farthest position are simulated",
            node=f.node,
        )
        r.check(
            "self._tokens_ahead = self._get_all_possible_tokens_ahead(last_head)" in t,
            "tokens ahead are scanned at the farthest head",
            "_enter_error_reporting:tokens-ahead",
            "tokens ahead are no longer scanned at the farthest head",
            node=f.node,
        )
        fe = repo.func("parglare.glr.GLRParser._finish_error_reporting")
        r.check(
            "self._expected = set((h.token_ahead.symbol for h, _ in self._for_shifter))" in unparse(fe.node),
            "expected = lookaheads whose simulation reached a shift",
            "_finish_error_reporting:expected",
            "the expected set is no longer the lookaheads of the pending shifts",
            node=fe.node,
        )
        # lookahead registration in normal operation (every token of every head)
        fl = repo.func("parglare.glr.GLRParser._find_lookaheads")
        tl = next((l for l in walk_no_nested(fl.node) if isinstance(l, ast.While) and unparse(l.test) == "tokens"), None)
        r.need(tl is not None, "_find_lookaheads: token loop not found")
        _check_registration(r, tl, "head", "token.symbol", "_find_lookaheads")
        r.check("token = tokens.pop()" in unparse(tl) and "head = head.for_token(token)" in unparse(tl),
                "every token found becomes a lookahead of (a fork of) the head", "_find_lookaheads:all-tokens",
                "_find_lookaheads no longer registers a head for every token found", node=tl)
        # recognisers at end of input
        ga = repo.func("parglare.parser.Parser._get_all_possible_tokens_ahead")
        g = cfgmod.build_func(ga)
        ctx = ga.params[1]
        rec = [n for n in g.nodes if n.ast is not None and n.kind in ("stmt", "test") and ".recognizer(" in unparse(n.ast)]
        r.floor("recogniser calls while building an error", len(rec), 1)
        bound = g.test_edges(lambda e: unparse(e) == f"{ctx}.position < len({ctx}.input_str)", "T")
        for n in rec:
            r.check(
                bool(bound) and g.dominated_by_edges(n, bound),
                "recognisers are tried only before the end of input",
                "_get_all_possible_tokens_ahead:bound",
                "recognisers can be called at (or past) the end of input while the error is built: a custom "
                "recogniser indexing input[pos] raises IndexError instead of the SyntaxError (the scanner's own "
                "guard in _next_tokens is `position < len(input)`)",
                node=n.ast,
            )
        nt = repo.func("parglare.parser.Parser._next_tokens")
        g2 = cfgmod.build_func(nt)
        sc = [n for n, c in g2.nodes_calling("_token_recognition")] + [n for n in g2.nodes if n.ast is not None and n.kind == "stmt" and "custom_token_recognition(" in unparse(n.ast)]
        b2 = g2.test_edges(lambda e: unparse(e) == "position < in_len", "T")
        for n in sc:
            r.check(bool(b2) and g2.dominated_by_edges(n, b2), "scanner runs only before the end of input",
                    "_next_tokens:bound", "the scanner can run at the end of input", node=n.ast)


def _check_registration(r, loop, head_var, key_txt, where):
    """inside `loop` the (forked) head must be stored unconditionally as
    self._active_heads_per_symbol.setdefault(<key>, {})[<head>.state.state_id] = <head>"""
    stores = [
        st for st in loop.body
        if isinstance(st, ast.Assign) and isinstance(st.targets[0], ast.Subscript)
        and "self._active_heads_per_symbol" in unparse(st.targets[0].value)
    ]
    ok = (
        len(stores) == 1
        and unparse(stores[0].targets[0].slice) == f"{head_var}.state.state_id"
        and unparse(stores[0].value) == head_var
        and re.fullmatch(
            rf"self\._active_heads_per_symbol\.setdefault\({re.escape(key_txt)}, \{{\}}\)", unparse(stores[0].targets[0].value)
        ) is not None
    )
    if ok:
        g = cfgmod.build_region(loop.body)
        sn = [n for n in g.nodes if n.ast is stores[0]]
        seen = g.reach([g.entry], avoid_nodes=sn)
        leaked = [e.tag for e in g.all_exits() if e in seen]
        r.check(
            not leaked,
            f"{where}: every iteration registers its head",
            f"{where}:registration-all-paths",
            f"{where}: some path through the loop body (exit {leaked}) skips the registration of the head: a "
            "lookahead token / possible lookahead is silently dropped",
            node=loop,
        )
    r.check(
        ok,
        f"{where}: each head is registered under [lookahead][state id]",
        f"{where}:registration",
        f"{where}: a head is no longer stored unconditionally under "
        f"_active_heads_per_symbol[{key_txt}][state id] (found {[unparse(s)[:70] for s in stores]}): when two "
        "heads offer the same lookahead only the first is kept",
        node=loop,
    )


def rule_render(rep):
    with rep.rule(
        "R10.render",
        "error rendering (SyntaxError/ParglareError construction and str(), Location, context "
        "lines) has no constant subscript on a possibly-empty sequence without a guard",
    ) as r:
        repo = rep.repo
        quals = [
            "parglare.exceptions.SyntaxError.__init__", "parglare.exceptions.ParglareError.__init__",
            "parglare.exceptions.ParglareError.__str__", "parglare.exceptions.get_context",
            "parglare.exceptions.get_line_col_at_position", "parglare.exceptions.get_indented_message",
            "parglare.exceptions.expected_symbols_str", "parglare.exceptions.disambiguation_error",
            "parglare.exceptions.DisambiguationError.__init__",
            "parglare.common.Location.__init__", "parglare.common.Location.__str__",
            "parglare.common.Location.evaluate_line_col", "parglare.common.Location.evaluate_line_col_end",
            "parglare.common.Location.is_eof", "parglare.common.pos_to_line_col", "parglare.common.position_context",
        ]
        n_sub = 0
        for q in quals:
            f = repo.func(q)
            nonempty = set()
            for st in walk_no_nested(f.node):
                if isinstance(st, ast.Assign) and isinstance(st.targets[0], ast.Name):
                    v = st.value
                    if isinstance(v, ast.BoolOp) and isinstance(v.op, ast.Or) and isinstance(v.values[-1], (ast.List, ast.Tuple)) and v.values[-1].elts:
                        nonempty.add(st.targets[0].id)
                    if isinstance(v, (ast.List, ast.Tuple)) and v.elts:
                        nonempty.add(st.targets[0].id)
            for sub in walk_no_nested(f.node):
                if not (isinstance(sub, ast.Subscript) and isinstance(sub.ctx, ast.Load)):
                    continue
                idx = sub.slice
                if isinstance(idx, ast.UnaryOp) and isinstance(idx.op, ast.USub) and isinstance(idx.operand, ast.Constant):
                    k = -idx.operand.value
                elif isinstance(idx, ast.Constant) and isinstance(idx.value, int):
                    k = idx.value
                else:
                    continue
                if not isinstance(sub.value, ast.Name):
                    continue
                n_sub += 1
                v = sub.value.id
                need = k + 1 if k >= 0 else -k
                guarded = v in nonempty and need <= 1
                if not guarded:
                    # a dominating guard: enclosing IfExp / If whose test bounds len(v) or tests v
                    node = sub
                    for a in ancestors(sub):
                        test = None
                        if isinstance(a, ast.IfExp) and any(x is node for x in ast.walk(a.body)):
                            test = a.test
                        elif isinstance(a, ast.If) and any(any(x is sub for x in ast.walk(s)) for s in a.body):
                            test = a.test
                        if test is not None:
                            t = unparse(test)
                            m = re.search(rf"len\({v}\) (>|>=) (\d+)", t)
                            if m:
                                bound = int(m.group(2)) + (1 if m.group(1) == ">" else 0)
                                if bound >= need:
                                    guarded = True
                            if need <= 1 and re.fullmatch(rf"{v}|len\({v}\)", t):
                                guarded = True
                        if isinstance(a, (ast.FunctionDef,)):
                            break
                r.check(
                    guarded,
                    f"{f.qual_in_module}: {unparse(sub)} is guarded",
                    f"{f.qual_in_module}:{unparse(sub)}",
                    f"{f.qual_in_module} evaluates `{unparse(sub)}` although `{v}` may have fewer than {need} "
                    "element(s) (e.g. the empty input): building or rendering the error raises IndexError instead "
                    "of reporting the SyntaxError",
                    node=sub,
                )
        r.floor("constant subscripts in the error-rendering code", n_sub, 3)


def rule_eof(rep):
    with rep.rule(
        "R10.eof",
        "the message says 'unexpected end of file' iff location.is_eof(), and is_eof() iff the "
        "input is known and start_position == len(input) (also for the empty input)",
    ) as r:
        repo = rep.repo
        f = repo.func("parglare.common.Location.is_eof")
        atoms = Atoms()
        atoms.add(r"self\.input_str != None", lambda v, m: v["inp"] != "none")
        atoms.add(r"self\.input_str", lambda v, m: v["inp"] == "nonempty")
        atoms.add(r"bool\(self\.input_str\)", lambda v, m: v["inp"] == "nonempty")
        atoms.add(r"len\(self\.input_str\) > 0", lambda v, m: v["inp"] == "nonempty")
        atoms.flag("self.start_position == len(self.input_str)", "at_end")
        atoms.flag("self.start_position >= len(self.input_str)", "at_end")
        space = [dict(inp=i, at_end=e) for i in ("none", "empty", "nonempty") for e in (False, True) if not (i == "none" and e) and not (i == "empty" and not e)]

        def run(atom):
            it = Interp(atom, lambda st, it: NotImplemented)
            ex = it.run(f.body)
            if ex.kind != "return":
                return None
            return it.truth(ex.value, True)

        for leaf in explore(run, space, atoms):
            for v in leaf.valuations:
                exp = v["inp"] != "none" and v["at_end"]
                r.check(
                    leaf.result == exp,
                    "is_eof row " + describe(v),
                    "Location.is_eof:" + v["inp"],
                    f"Location.is_eof() for input {v['inp']}, position at end={v['at_end']} is {leaf.result}; "
                    f"needed {exp}" + leaf.free_text(),
                    node=f.node,
                )
        s = repo.func("parglare.exceptions.SyntaxError.__init__")
        loc = s.params[1]
        atoms2 = Atoms().flag(f"{loc}.is_eof()", "eof").flag("len(self.tokens_ahead) > 1", "many")
        atoms2.flag("tokens_ahead", "ta").flag("symbols_before", "sb")

        def run2(atom):
            def eff(st, it):
                if isinstance(st, ast.Assign):
                    return None
                if isinstance(st, ast.Expr) and "super().__init__" in unparse(st):
                    return ("INIT", st.value)
                return NotImplemented
            it = Interp(atom, eff)
            it.run(s.body)
            m = it.env.get("message")
            return plain(m) if m is not None else None

        for leaf in explore(run2, [dict(eof=e, many=False, ta=True, sb=True) for e in (False, True)], atoms2):
            for v in leaf.valuations:
                says = leaf.result is not None and "unexpected end of file" in leaf.result
                r.check(
                    says == v["eof"],
                    f"message for eof={v['eof']}",
                    "SyntaxError.__init__:eof-message",
                    f"with is_eof()={v['eof']} the message is built as `{(leaf.result or '')[:70]}`" + leaf.free_text(),
                    node=s.node,
                )
        t = unparse(s.node)
        r.check(
            "super().__init__(location, message, context_message=context_message, input=input" in t,
            "the error carries location, message and the expected-symbols context",
            "SyntaxError.__init__:super",
            "SyntaxError no longer passes location/message/context/input to ParglareError",
            node=s.node,
        )


def _eval_order(e, env):
    """evaluate a comparison tree over integer stand-ins (an ordering valuation)"""
    if isinstance(e, ast.BoolOp):
        vals = [_eval_order(v, env) for v in e.values]
        return all(vals) if isinstance(e.op, ast.And) else any(vals)
    if isinstance(e, ast.UnaryOp) and isinstance(e.op, ast.Not):
        return not _eval_order(e.operand, env)
    if isinstance(e, ast.Compare):
        left = _eval_order(e.left, env)
        for op, c in zip(e.ops, e.comparators):
            right = _eval_order(c, env)
            ok = {ast.Lt: left < right, ast.LtE: left <= right, ast.Gt: left > right, ast.GtE: left >= right,
                  ast.Eq: left == right, ast.NotEq: left != right}.get(type(op))
            if ok is None:
                raise AnalysisError(f"unsupported comparison in {unparse(e)}")
            if not ok:
                return False
            left = right
        return True
    if isinstance(e, ast.BinOp) and isinstance(e.op, (ast.Add, ast.Sub)):
        a, b = _eval_order(e.left, env), _eval_order(e.right, env)
        return a + b if isinstance(e.op, ast.Add) else a - b
    if isinstance(e, ast.Constant) and isinstance(e.value, int):
        return e.value
    t = unparse(e)
    if t in env:
        return env[t]
    raise AnalysisError(f"unknown quantity `{t}` in the line selection test")


def rule_context_line(rep):
    with rep.rule(
        "R10.context-line",
        "the context line rendered with an error is the line whose half-open span [start, start + "
        "len(line)) contains the position (decided over all orderings of the position against the "
        "line's bounds); the column is the offset from the line start",
    ) as r:
        f = rep.repo.func("parglare.exceptions.get_line_col_at_position")
        pos = f.params[1]
        loop = next((s for s in f.body if isinstance(s, ast.For)), None)
        r.need(loop is not None, "get_line_col_at_position: line loop not found")
        sel = next((s for s in loop.body if isinstance(s, ast.If) and any(isinstance(x, ast.Return) for x in ast.walk(s))), None)
        r.need(sel is not None, "get_line_col_at_position: selection test not found")
        acc = [s for s in loop.body if isinstance(s, ast.AugAssign) and isinstance(s.op, ast.Add)]
        r.need(len(acc) == 1 and isinstance(acc[0].target, ast.Name) and unparse(acc[0].value) == "len(line)",
               "get_line_col_at_position: running line start is not advanced by len(line)")
        cur = acc[0].target.id
        L = 10
        for name, p in (("before the line", -5), ("first character", 0), ("inside", 5), ("first character of the next line", L), ("beyond", L + 5)):
            got = _eval_order(sel.test, {pos: p, cur: 0, "len(line)": L})
            want = 0 <= p < L
            r.check(
                got == want,
                f"position {name}: {'selected' if want else 'not selected'}",
                "get_line_col_at_position:interval",
                f"for a position that is the {name} (line start {cur}=0, len(line)={L}, {pos}={p}) the line is "
                f"{'selected' if got else 'skipped'}; needed {'selected' if want else 'skipped'}: the rendered context "
                "shows the wrong line (an error at column 0 is shown at the end of the previous line)",
                node=sel,
            )
        ret = next(x for x in ast.walk(sel) if isinstance(x, ast.Return))
        elts = ret.value.elts if isinstance(ret.value, ast.Tuple) else []
        r.check(
            len(elts) >= 2 and unparse(elts[0]) == unparse(loop.target.elts[0]) and unparse(elts[1]) in (f"{pos} - {cur}",),
            "returns (line index, position - line start, ...)",
            "get_line_col_at_position:column",
            f"get_line_col_at_position returns {unparse(ret.value)[:70]}",
            node=ret,
        )


def rule_zero_is_a_position(rep):
    with rep.rule(
        "R10.zero-position",
        "position 0 is a position: no test in the location / error code treats a start position "
        "(or a head position) as absent because it is falsy; recogniser call protocol agrees between "
        "the scanner and the error scan",
    ) as r:
        repo = rep.repo
        n_tests = 0
        quals = [f for f in repo.all_funcs() if f.module.name in ("parglare.common", "parglare.exceptions")]
        quals += [repo.func(q) for q in (
            "parglare.parser.Parser._create_error", "parglare.parser.Parser._get_all_possible_tokens_ahead",
            "parglare.glr.GLRParser._enter_error_reporting", "parglare.glr.GLRParser._finish_error_reporting",
        )]

        def truthy_uses(fn):
            """expressions evaluated for truth: if/while/ifexp tests, operands of and/or/not"""
            out = []
            for n in walk_no_nested(fn.node):
                if isinstance(n, (ast.If, ast.While, ast.IfExp)):
                    out.append(n.test)
                elif isinstance(n, ast.BoolOp):
                    out.extend(n.values)
                elif isinstance(n, ast.UnaryOp) and isinstance(n.op, ast.Not):
                    out.append(n.operand)
            flat = []
            for e in out:
                while isinstance(e, ast.UnaryOp) and isinstance(e.op, ast.Not):
                    e = e.operand
                if isinstance(e, ast.BoolOp):
                    continue
                flat.append(e)
            return flat

        for fn in quals:
            for e in truthy_uses(fn):
                t = unparse(e)
                if re.fullmatch(r"(\w+\.)*(start_position|position)", t):
                    n_tests += 1
                    r.violation(
                        f"{fn.qual_in_module}:truthiness of {t}",
                        f"{fn.qual_in_module} tests `{t}` for truth: position 0 (the empty input, an error at the first "
                        "token) is treated as 'no position' -- line and column of such an error are not computed and "
                        "the error renders as <Unknown location>",
                        node=e,
                    )
        if not n_tests:
            r.ok("no start/head position is tested for truth in the location and error code")
        # the 3-argument recogniser protocol: (context of the head, input, position) at both scan sites
        sites = 0
        for q in ("parglare.parser.Parser._token_recognition", "parglare.parser.Parser._get_all_possible_tokens_ahead"):
            fn = repo.func(q)
            ctx = fn.params[1]
            calls = [c for c in walk_no_nested(fn.node) if isinstance(c, ast.Call) and isinstance(c.func, ast.Attribute) and c.func.attr == "recognizer"]
            two = [c for c in calls if len(c.args) == 2]
            three = [c for c in calls if len(c.args) == 3]
            r.need(len(two) == 1 and len(three) == 1, f"{q}: the two recogniser call forms were not found")
            sites += 1
            r.check(
                is_name(three[0].args[0], ctx) and [unparse(a) for a in three[0].args[1:]] == [unparse(a) for a in two[0].args],
                f"{fn.name}: context form = ({ctx}, same input, same position)",
                f"{fn.qual_in_module}:recognizer-protocol",
                f"{fn.qual_in_module} calls a context-taking recogniser as `{unparse(three[0])[:80]}`; needed "
                f"({ctx}, {', '.join(unparse(a) for a in two[0].args)}): the recogniser gets another object than the "
                "parsing head (reading the head's attributes raises AttributeError while an error is being built)",
                node=three[0],
            )
        r.floor("recogniser call sites", sites, 2)


def check(rep):
    rep.explanation = (
        "C10 (partial): exception-flow analysis over the call graph of each parse(): every raise "
        "site reachable from parse is on a closed, guarded allow-list; everything in self.errors is "
        "a SyntaxError built at the head's position after layout; GLR simulates every lookahead of "
        "every farthest head; recognisers never run at the end of input; implicit-exception lint of "
        "the rendering code; EOF wording table. Not decided: that the position is the end of the "
        "longest viable prefix; exactness of symbols_expected."
    )
    rep.assumptions += ["user recognisers/actions/filters are opaque (their own exceptions are theirs)"]
    rule_discipline(rep)
    rule_errors_are_syntax_errors(rep)
    rule_expected(rep)
    rule_render(rep)
    rule_eof(rep)
    rule_context_line(rep)
    rule_zero_is_a_position(rep)
    from .C02 import rule_all_parents, rule_link_key, rule_link_no_drop, rule_revisit

    # symbols_expected is computed by running the GLR reducer on the farthest heads: every rule that makes
    # the reducer complete is necessary for 'exactly the terminals that could legally come next'
    rule_link_no_drop(rep)
    rule_revisit(rep)
    rule_link_key(rep)
    rule_all_parents(rep)
