"""C03 -- forest packs each derivation once; counting and indexing are consistent."""
from __future__ import annotations

import ast
import re

from ..core import AnalysisError, UnknownAtom, call_name, is_name, is_self_attr, plain, strip_at, unparse, walk_no_nested
from ..interp import Interp
from ..table import Atoms, describe, explore, norm_cmp
from .common import func_cfg
from .tables_region import N


def _bounds_atoms(idx):
    a = Atoms()
    I = "IDX"
    a.add(rf"0 <= {I}", lambda v, m: v["idx"] != "neg")
    a.add(rf"{I} >= 0", lambda v, m: v["idx"] != "neg")
    a.add(rf"{I} < 0", lambda v, m: v["idx"] == "neg")
    a.add(rf"0 > {I}", lambda v, m: v["idx"] == "neg")
    for n in ("self.solutions", "len(self)", "self.result.solutions"):
        e = re.escape(n)
        a.add(rf"{I} < {e}", lambda v, m: v["idx"] != "over")
        a.add(rf"{I} >= {e}", lambda v, m: v["idx"] == "over")
        a.add(rf"{e} > {I}", lambda v, m: v["idx"] != "over")
        a.add(rf"{e} <= {I}", lambda v, m: v["idx"] == "over")
        a.add(rf"{I} <= {e} - 1", lambda v, m: v["idx"] != "over")
        a.add(rf"{I} > {e} - 1", lambda v, m: v["idx"] == "over")
    return a


def rule_bounds(rep):
    with rep.rule(
        "R03.bounds",
        "every public index entry of Forest raises IndexError for an index >= len(forest) before "
        "any tree is decoded (decided completely)",
    ) as r:
        repo = rep.repo
        forest = repo.cls("parglare.trees.Forest")
        space = [dict(idx=k) for k in ("neg", "in", "over")]
        entries = ["get_tree", "get_nonlazy_tree", "__getitem__"]
        for name in entries:
            f = forest.methods.get(name)
            r.need(f is not None, f"Forest.{name} vanished")
            idx = f.params[1]
            atoms = _bounds_atoms(idx)

            def run(atom, f=f, idx=idx):
                def inline(call, it, depth=0):
                    """run a self.<helper>(...) call; returns exception name if it raises"""
                    h = forest.find_method(call.func.attr)
                    if h is None or depth > 3:
                        return None
                    env = {p: it.sub(a) for p, a in zip(h.params[1:], call.args)}
                    for k in call.keywords:
                        if k.arg:
                            env[k.arg] = it.sub(k.value)
                    sub = Interp(atom, lambda st, s: None, env=env, raises=lambda st, s: rz(st, s, depth + 1))
                    ex = sub.run(h.body)
                    if ex.kind == "raise":
                        return plain(ex.value).split("(")[0]
                    return None

                def rz(st, it, depth=0):
                    for c in ast.walk(st):
                        if isinstance(c, ast.Call) and is_self_attr(c.func) and forest.find_method(c.func.attr):
                            if c.func.attr in ("_check_index", "get_tree", "get_nonlazy_tree") or c.func.attr.startswith("_check"):
                                e = inline(c, it, depth)
                                if e:
                                    return e
                    return None

                it = Interp(atom, lambda st, it: None, env={idx: N("IDX")}, raises=rz)
                ex = it.run(f.body)
                return ex

            for leaf in explore(run, space, atoms):
                ex = leaf.result
                for v in leaf.valuations:
                    if v["idx"] == "neg":
                        continue  # the property only speaks about idx >= len
                    if v["idx"] == "over":
                        ok = ex.kind == "raise" and plain(ex.value).startswith("IndexError")
                        exp = "raise IndexError"
                    else:
                        val = plain(ex.value) if ex.value is not None else ""
                        ok = ex.kind == "return" and re.fullmatch(
                            r"(LazyTree|Tree)\(self\.result, IDX\)|self\.get_tree\(IDX\)|self\.get_nonlazy_tree\(IDX\)", val
                        ) is not None
                        exp = "return the tree decoded for that index"
                    got = f"{ex.kind} {plain(ex.value)[:60] if ex.value is not None else ''}"
                    r.check(
                        ok,
                        f"Forest.{name}: index {v['idx']}",
                        f"Forest.{name}:{v['idx']}",
                        f"Forest.{name} with an index {'>= len(forest)' if v['idx'] == 'over' else 'in range'}: "
                        f"{got}; needed: {exp} (an out-of-range index silently returns some tree: the decoder "
                        "only overruns when the root link is ambiguous)" + leaf.free_text(),
                        node=f.node,
                    )
        # the count is an unbounded int; len() of an object raises OverflowError above sys.maxsize
        n_len = 0
        for name, m in sorted(forest.methods.items()):
            for c in walk_no_nested(m.node):
                if isinstance(c, ast.Call) and is_name(c.func, "len") and c.args and is_name(c.args[0], "self"):
                    n_len += 1
                    r.violation(
                        f"Forest.{name}:len(self)",
                        f"Forest.{name} reads the number of trees through len(self): len() raises OverflowError "
                        "for a forest with more than sys.maxsize trees, so valid indexes are refused / an index "
                        "past the end raises OverflowError instead of IndexError; read self.solutions",
                        node=c,
                    )
        if not n_len:
            r.ok("no Forest method reads the count through len(self)")
        gi = forest.methods["__getitem__"]
        r.check(
            unparse(gi.node.body[-1]) == f"return self.get_tree({gi.params[1]})",
            "forest[i] is get_tree(i)",
            "Forest.__getitem__:delegate",
            "Forest.__getitem__ no longer delegates to get_tree with the same index",
            node=gi.node,
        )


def rule_one_count(rep):
    with rep.rule(
        "R03.one-count",
        "len(forest), forest.solutions, iteration (lazy and non-lazy) derive their bound from the "
        "single self.result.solutions",
    ) as r:
        forest = rep.repo.cls("parglare.trees.Forest")
        want = {
            "__len__": ["return self.solutions"],
            "solutions": ["return self.result.solutions"],
            "ambiguities": ["return self.result.ambiguities"],
            "__iter__": ["for i in range(self.solutions):\n    yield self.get_tree(i)"],
            "nonlazy_iter": ["for i in range(self.solutions):\n    yield self.get_nonlazy_tree(i)"],
        }
        for name, body in want.items():
            f = forest.methods.get(name)
            r.need(f is not None, f"Forest.{name} vanished")
            got = [unparse(s) for s in f.body if not (isinstance(s, ast.Expr) and isinstance(s.value, ast.Constant))]
            r.check(
                got == body,
                f"Forest.{name}",
                f"Forest.{name}",
                f"Forest.{name} is `{'; '.join(got)[:100]}`; needed `{body[0][:80]}` (one count for len, "
                "solutions and both iterations)",
                node=f.node,
            )


def rule_one_decoder(rep):
    with rep.rule(
        "R03.one-decoder",
        "LazyTree overrides only the deferral; alternative selection and child enumeration are "
        "Tree's; the deferred call uses the counter saved at construction; get_first_tree picks "
        "alternative 0 at every packed node",
    ) as r:
        repo = rep.repo
        trees = repo.module("parglare.trees")
        lazy, tree = trees.classes["LazyTree"], trees.classes["Tree"]
        r.check(
            set(lazy.methods) <= {"__init__", "_init_children", "__getattr__"},
            "LazyTree defines only __init__, _init_children, __getattr__",
            "LazyTree:overrides",
            f"LazyTree overrides {sorted(set(lazy.methods) - {'__init__', '_init_children', '__getattr__'})}: "
            "lazy and eager trees no longer share one decoder",
            node=lazy.node,
        )
        init = lazy.methods.get("__init__")
        r.need(init is not None, "LazyTree.__init__ vanished")
        body = [unparse(s) for s in init.body]
        r.check(
            "super().__init__(root, counter)" in body and not any(isinstance(s, (ast.If, ast.Try)) for s in init.body),
            "LazyTree.__init__ delegates unconditionally to Tree.__init__(root, counter)",
            "LazyTree.__init__:delegate",
            f"LazyTree.__init__ is `{'; '.join(body)}`",
            node=init.node,
        )
        ic = lazy.methods.get("_init_children")
        r.check(ic is not None and [unparse(s) for s in ic.body] == ["self.counter = counter"],
                "deferral saves the counter", "LazyTree._init_children",
                "LazyTree._init_children no longer just saves the counter", node=lazy.node)
        ga = lazy.methods.get("__getattr__")
        t = unparse(ga.node) if ga else ""
        r.check(
            "self._children = self._enumerate_children(self.counter)" in t and "if self._children is None and self.root.is_nonterm()" in t,
            "children are enumerated on first access with the saved counter",
            "LazyTree.__getattr__",
            "LazyTree.__getattr__ no longer enumerates the children with the saved counter",
            node=lazy.node,
        )
        ti = tree.methods["_init_children"]
        t = unparse(ti.node)
        r.check("self.children = self._enumerate_children(counter)" in t, "eager tree enumerates at construction",
                "Tree._init_children", "Tree._init_children changed", node=ti.node)
        ec = tree.methods["_enumerate_children"]
        r.check("children.append(self.__class__(c, new_counter))" in unparse(ec.node),
                "children are trees of the same kind", "Tree._enumerate_children:class",
                "children are no longer built with self.__class__(c, new_counter)", node=ec.node)
        gf = trees.classes["Forest"].methods["get_first_tree"]
        t = unparse(gf.node)
        r.check(
            "return iter([n.possibilities[0]])" in t and "visitor(self.result.possibilities[0], tree_iterator, visit)" in t,
            "get_first_tree takes alternative 0 everywhere (= forest[0])",
            "Forest.get_first_tree",
            "get_first_tree no longer takes possibilities[0] at the root and at every packed node",
            node=gf.node,
        )


def rule_count_decode(rep):
    with rep.rule(
        "R03.count-decode",
        "count = sum over alternatives / product over children; decode = cumulative subtraction "
        "over alternatives / mixed radix with the same child weights (c.solutions of every child)",
    ) as r:
        repo = rep.repo
        trees = repo.module("parglare.trees")
        # count side
        nn = repo.func("parglare.trees.NodeNonTerm.solutions")
        rets = [s for s in walk_no_nested(nn.node) if isinstance(s, ast.Return)]
        r.need(len(rets) == 1, "NodeNonTerm.solutions: return not found")
        m = re.fullmatch(
            r"reduce\(lambda x, y: x \* y, \((\w+)\.solutions for \1 in self\.children\), 1\)", unparse(rets[0].value)
        )
        r.check(m is not None, "node count = product of c.solutions over all children", "NodeNonTerm.solutions",
                f"NodeNonTerm.solutions is `{unparse(rets[0].value)[:80]}`", node=nn.node)
        nt = repo.func("parglare.trees.NodeTerm.solutions")
        r.check("return 1" in unparse(nt.node), "a terminal counts 1", "NodeTerm.solutions", "NodeTerm.solutions changed", node=nt.node)
        ps = repo.func("parglare.glr.Parent.solutions")
        t = unparse(ps.node)
        r.check(
            re.search(r"if isinstance\(node, Parent\):\s+return sum\(subresults\)\s+else:\s+return reduce\(lambda x, y: x \* y, subresults, 1\)", t) is not None
            and "return iter(node.possibilities)" in t and "return iter(node.children)" in t,
            "link count = sum over its alternatives; node count = product over its children",
            "Parent.solutions",
            "Parent.solutions no longer sums over alternatives / multiplies over children",
            node=ps.node,
        )
        # decode side
        ti = repo.func("parglare.trees.Tree.__init__")
        t = unparse(ti.node)
        ok = re.search(
            r"solutions = root\.possibilities\[possibility\]\.solutions\s+while solutions <= counter:\s+"
            r"counter -= solutions\s+possibility \+= 1\s+solutions = root\.possibilities\[possibility\]\.solutions", t
        ) is not None and "self.root = root.possibilities[possibility]" in t and "self._init_children(counter)" in t
        r.check(ok, "alternative chosen by cumulative subtraction of the alternatives' counts", "Tree.__init__:select",
                "Tree.__init__ no longer selects the alternative by cumulative subtraction of `solutions`", node=ti.node)
        ec = repo.func("parglare.trees.Tree._enumerate_children")
        w = next((s for s in ec.body if isinstance(s, ast.Assign) and is_name(s.targets[0], "weights")), None)
        r.need(w is not None, "_enumerate_children: weights not found")
        comp = w.value
        okw = (
            isinstance(comp, ast.ListComp) and len(comp.generators) == 1 and not comp.generators[0].ifs
            and unparse(comp.generators[0].iter) == "self.root.children"
            and unparse(comp.elt) == f"{unparse(comp.generators[0].target)}.solutions"
        )
        r.check(
            okw,
            "decode weights = c.solutions of every child (the factors of the count)",
            "Tree._enumerate_children:weights",
            f"decode weights are `{unparse(comp)[:90]}` but the count multiplies c.solutions of every child: "
            "index decoding and counting disagree, so forest[i] repeats trees and never reaches others",
            node=w,
        )
        t = unparse(ec.node)
        ok = re.search(
            r"for idx, c in enumerate\(self\.root\.children\):\s+factor = reduce\(lambda x, y: x \* y, weights\[idx \+ 1:\], 1\)\s+"
            r"new_counter = counter // factor\s+counter %= factor", t) is not None
        r.check(ok, "mixed radix: digit = counter // product of the later weights, remainder carried on",
                "Tree._enumerate_children:radix",
                "the mixed-radix decoding of the children changed", node=ec.node)


def rule_traversal(rep):
    with rep.rule(
        "R03.traversal",
        "forest traversals identify nodes by object identity (id()), every cycle mark is removed "
        "when its node is popped, the cycle test precedes the memo test; ambiguities counts links "
        "with more than one alternative",
    ) as r:
        repo = rep.repo
        v = repo.func("parglare.trees.visitor")
        t = unparse(v.node)
        adds = [c for c in walk_no_nested(v.node) if isinstance(c, ast.Call) and unparse(c.func) == "visiting.add"]
        rems = [c for c in walk_no_nested(v.node) if isinstance(c, ast.Call) and unparse(c.func) in ("visiting.remove", "visiting.discard")]
        r.floor("cycle marks set", len(adds), 1)
        r.check(
            len(rems) >= 1 and all(unparse(c.args[0]) == "id(node)" for c in rems),
            "every mark is removed when the node is popped",
            "visitor:mark-pairing",
            "a cycle mark set by the visitor is never removed: a node shared by two parents is then reported "
            "as a loop (LoopError although the input has finitely many derivations)",
            node=v.node,
        )
        if rems:
            # the removal must be on the pop path (StopIteration handler) before visit()
            r.check(
                re.search(r"except StopIteration:\s+stack\.pop\(\)\s+if check_cycle:\s+visiting\.remove\(id\(node\)\)", t) is not None,
                "mark removed on the pop path",
                "visitor:mark-on-pop",
                "the cycle mark is not removed on the pop path of the same node",
                node=v.node,
            )
        r.check(all(re.fullmatch(r"id\(\w+\)", unparse(c.args[0])) for c in adds), "marks are identities",
                "visitor:mark-identity", "cycle marks are not id()s", node=v.node)
        i_cycle = t.find("in visiting")
        i_memo = t.find("in cache")
        r.check(0 < i_cycle < i_memo, "cycle test precedes the memo test", "visitor:test-order",
                "the memo test precedes the cycle test", node=v.node)
        r.check("cache[id(node)] = (result, node)" in t and "id(next_elem) in cache" in t,
                "memo keyed by identity (node kept alive)", "visitor:memo-identity",
                "the visitor memo is no longer keyed by id(node) with the node kept alive", node=v.node)
        a = repo.func("parglare.glr.Parent.ambiguities")
        t = unparse(a.node)
        r.check(
            re.search(r"if id\(i\) not in visited:\s+visited\.add\(id\(i\)\)\s+yield i", t) is not None,
            "ambiguity count visits each object once, by identity",
            "Parent.ambiguities:identity",
            "Parent.ambiguities identifies visited nodes by ==/hash instead of id(): Parent.__eq__ compares "
            "the (frontier,state) id string, so distinct links are conflated and ambiguities is under-counted",
            node=a.node,
        )
        r.check(
            re.search(r"if isinstance\(node, Parent\) and len\(node\.possibilities\) > 1:\s+amb = 1\s+return sum\(subresults\) \+ amb", t) is not None,
            "a link counts iff it has more than one alternative",
            "Parent.ambiguities:count",
            "Parent.ambiguities no longer counts exactly the links with more than one alternative",
            node=a.node,
        )
        m = repo.func("parglare.glr.Parent.merge")
        t = unparse(m.node)
        r.check(
            "self.possibilities.extend(other.possibilities)" in t and "self._solutions = None" in t,
            "merging extends the alternatives and invalidates the cached count",
            "Parent.merge",
            "Parent.merge no longer extends the alternatives with all of the other link's / invalidates the count",
            node=m.node,
        )


def rule_visitor_order(rep):
    with rep.rule(
        "R03.visitor-order",
        "the generic visitor hands a node the results of its children in iteration order: every "
        "contribution to a result list (finished child, memoised child) is an append, made where "
        "the child is met",
    ) as r:
        v = rep.repo.func("parglare.trees.visitor")
        contrib = []
        other = []
        for c in walk_no_nested(v.node):
            if isinstance(c, ast.Call) and isinstance(c.func, ast.Attribute):
                recv = unparse(c.func.value)
                if recv in ("results", "stack[-1][-1]", "stack[-1][2]"):
                    (contrib if c.func.attr == "append" else other).append(c)
        r.floor("contributions to a node's result list in visitor()", len(contrib) + len(other), 2)
        r.check(
            not other,
            "sub-results are only ever appended",
            "visitor:result-order",
            f"visitor() changes a node's result list with `{unparse(other[0])[:60] if other else ''}`: a memoised (shared) "
            "child no longer takes the place where it occurs among its siblings -- actions and tree builders get "
            "their arguments in another order than the production's right-hand side",
            node=other[0] if other else None,
        )
        srt = [c for c in walk_no_nested(v.node) if isinstance(c, ast.Call) and call_name(c) in ("sorted", "reversed", "sort", "reverse")]
        r.check(not srt, "no reordering of results", "visitor:reorder",
                f"visitor() reorders with {unparse(srt[0])[:40] if srt else ''}", node=srt[0] if srt else None)


def rule_limited_rereduction(rep):
    with rep.rule(
        "R03.limited-rereduction",
        "a re-reduction that is limited to a newly added link performs only reductions whose path "
        "uses that link: an empty reduction has no path and is not repeated",
    ) as r:
        f = rep.repo.func("parglare.glr.GLRParser._do_reductions")
        r.need("update_parent" in f.params, "_do_reductions has no update_parent parameter")
        atoms = Atoms()
        atoms.flag("len(production.rhs) == 0", "empty").flag("not len(production.rhs)", "empty")
        atoms.flag("len(production.rhs) != 0", "empty", negate=True).flag("len(production.rhs)", "empty", negate=True)
        atoms.flag("update_parent == None", "limited", negate=True).flag("update_parent != None", "limited")
        atoms.flag("update_parent", "limited").flag("not update_parent", "limited", negate=True)
        atoms.const("debug", False).const("self.debug", False)
        space = [dict(empty=True, limited=a) for a in (False, True)]

        def run(atom):
            def eff(st, it):
                if isinstance(st, ast.Expr) and isinstance(st.value, ast.Call) and is_self_attr(st.value.func, "_reduce"):
                    return ("REDUCE",)
                if isinstance(st, ast.Assign):
                    return None
                return NotImplemented

            def on_loop(st, it):
                raise AnalysisError("loop reached on the empty-production path of _do_reductions")

            it = Interp(atom, eff, on_loop=on_loop)
            ex = it.run(f.body)
            return list(it.effects), ex

        for leaf in explore(run, space, atoms):
            effs, ex = leaf.result
            for v in leaf.valuations:
                exp = [] if v["limited"] else [("REDUCE",)]
                r.check(
                    effs == exp,
                    f"empty production, {'limited to a new link' if v['limited'] else 'first visit of the head'}: "
                    f"{'nothing' if not exp else 'one empty reduction'}",
                    "_do_reductions:empty-under-update" if v["limited"] else "_do_reductions:empty",
                    f"_do_reductions for an EMPTY production {'called for a newly added link (update_parent given)' if v['limited'] else 'on the first visit'} "
                    f"performs {len(effs)} reduction(s); needed {len(exp)}: the head's empty reduction was already done, "
                    "doing it again merges an identical alternative into the existing link (the forest counts and "
                    "returns the same derivation twice)" + leaf.free_text(),
                    node=f.node,
                )


def check(rep):
    rep.explanation = (
        "C03 (partial): index bounds decided completely as a decision table per public index "
        "entry (helpers inlined); one count; one decoder (LazyTree overrides only the deferral); "
        "count/decode pairing (same weights); identity-keyed traversals and cycle-mark pairing. "
        "Not decided: absence of duplicate alternatives (depends on which reductions the GLR driver "
        "performs -- an independent probe found duplicates on the unchanged tree for `S: \"b\" | S S | S S S`), "
        "pairwise distinctness of trees, big-integer arithmetic."
    )
    rule_bounds(rep)
    rule_one_count(rep)
    rule_one_decoder(rep)
    rule_count_decode(rep)
    rule_traversal(rep)
    rule_visitor_order(rep)
    rule_limited_rereduction(rep)
    from .C02 import rule_link_key, rule_revisit

    rule_link_key(rep)  # links of different root nodes are never merged into one packed node
    rule_revisit(rep)  # a stale or widened revisit set packs the same alternative twice
