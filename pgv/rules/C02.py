"""C02 -- GLR forest contains every derivation of the input (necessary structure only)."""
from __future__ import annotations

import ast
import itertools
import re

from .. import cfg as cfgmod
from ..core import AnalysisError, UnknownAtom, call_name, is_name, is_self_attr, plain, strip_at, unparse, walk_no_nested
from ..interp import Interp
from ..table import Atoms, describe, explore, norm_cmp
from .common import calls_self, func_cfg, self_attr_test
from .tables_region import N


def rule_link_no_drop(rep):
    with rep.rule(
        "R02.link-no-drop",
        "no found reduction or shift is dropped: from the construction of the link every path "
        "reaches create_link, except the dynamic filter's rejection and the 'longer token, push "
        "back and stop' exit, which re-queues the very pair it popped",
    ) as r:
        repo = rep.repo
        f, g = func_cfg(repo, "parglare.glr.GLRParser._reduce")
        cons = [n for n, c in g.nodes_calling("Parent")]
        links = [n for n, c in g.nodes_calling("create_link")]
        r.floor("_reduce: create_link sites", len(links), 2)
        r.need(len(cons) == 1, "_reduce: Parent construction not found")
        rej = g.test_edges(calls_self("_call_dynamic_filter"), "F")
        missed = g.must_pass(cons, links, exits=[g.exit], escape_edges=rej)
        r.check(
            not missed,
            "_reduce: every reduction that is not rejected by the filter becomes a link",
            "GLRParser._reduce:no-drop",
            "_reduce can return without linking the reduction it was called for (other than by the dynamic "
            "filter's rejection): a derivation is lost",
            node=cons[0].ast,
        )
        # merged or new: either the existing head gets the link, or a new head is registered and queued
        t = unparse(f.node)
        r.check(
            "active_head = self._active_heads.get(state.state_id, None)" in t
            and "created = active_head.create_link(parent)" in t,
            "an existing head of the target state on this frontier receives the link",
            "GLRParser._reduce:merge-target",
            "_reduce no longer links into the existing head of the target state",
            node=f.node,
        )
        new_link = [n for n, c in g.nodes_calling("create_link") if unparse(c.func.value) == "new_head"]
        queue = [n for n in g.nodes if n.kind == "stmt" and unparse(n.ast) == "self._for_actor.append(new_head)"]
        reg = [n for n in g.nodes if n.kind == "stmt" and unparse(n.ast) == "self._active_heads[new_head.state.state_id] = new_head"]
        for n in new_link:
            for grp, what, key in ((queue, "queued for the actor", "queue"), (reg, "registered on the frontier", "register")):
                missed = g.must_pass([n], grp, exits=[g.exit])
                r.check(
                    bool(grp) and not missed,
                    f"_reduce: a new head is {what}",
                    f"GLRParser._reduce:new-head-{key}",
                    f"_reduce can create a new head that is not {what}: its reductions/shifts are never performed",
                    node=n.ast,
                )
        # ---- _do_shifts
        f = repo.func("parglare.glr.GLRParser._do_shifts")
        loop = next((l for l in walk_no_nested(f.node) if isinstance(l, ast.While)), None)
        r.need(loop is not None, "_do_shifts: loop not found")
        g = cfgmod.build_region(loop.body)
        links = [n for n, c in g.nodes_calling("create_link")]
        r.floor("_do_shifts: create_link sites", len(links), 1)
        pops = [n for n in g.nodes if n.kind == "stmt" and isinstance(n.ast, ast.Assign) and "self._for_shifter.pop()" in unparse(n.ast.value)]
        r.need(len(pops) == 1 and isinstance(pops[0].ast.targets[0], ast.Tuple), "_do_shifts: pop of the pending shift not found")
        pair = unparse(pops[0].ast.targets[0])
        rej = g.test_edges(calls_self("_call_dynamic_filter"), "F")
        brks = [n for n in g.nodes if n.kind == "stmt" and isinstance(n.ast, ast.Break)]
        seen = g.reach([m for lab, m in pops[0].succ], avoid_nodes=links + brks, avoid_edges=rej)
        leaked = [e.tag for e in g.all_exits() if e in seen]
        r.check(
            not leaked,
            "_do_shifts: every popped shift is linked, rejected by the filter, or pushed back",
            "GLRParser._do_shifts:no-drop",
            f"a popped pending shift can be dropped (the iteration ends via {leaked} without create_link)",
            node=pops[0].ast,
        )
        reapp = [n for n in g.nodes if n.kind == "stmt" and re.fullmatch(r"self\._for_shifter\.append\(\(?" + re.escape(pair.strip("()")) + r"\)?\)", unparse(n.ast))]
        for b in brks:
            r.check(
                bool(reapp) and g.dominated_by_nodes(b, reapp),
                "_do_shifts: the pair popped last is pushed back before the loop stops",
                "GLRParser._do_shifts:pushback",
                "when a longer token ends this frontier's shifting, the popped (head, state) pair is not pushed "
                "back: that shift (and every derivation through it) is lost",
                node=b.ast,
            )
        t = unparse(f.node)
        r.check(
            "shifted_head = self._active_heads.get(to_state.state_id, None)" in t,
            "one shifted head per target state: a second head shifting into the state links to the existing one",
            "GLRParser._do_shifts:share",
            "_do_shifts no longer shares the shifted head per target state",
            node=f.node,
        )
        cr = repo.func("parglare.glr.GSSNode.create_link")
        t = unparse(cr.node)
        r.check(
            "existing_parent = self.parents.get(parent.root.id)" in t and "existing_parent.merge(parent)" in t
            and "self.parents[parent.root.id] = parent" in t and "parent.head = self" in t,
            "create_link stores a new link or merges into the link with the same root",
            "GSSNode.create_link",
            "create_link no longer either stores the link or merges it into the existing link to the same root",
            node=cr.node,
        )
        rets = [s for s in walk_no_nested(cr.node) if isinstance(s, ast.Return)]
        r.check(len(rets) == 1 and unparse(rets[0].value) == "created", "create_link reports whether a link was created",
                "GSSNode.create_link:return", "create_link no longer returns whether it created a link", node=cr.node)


def rule_revisit(rep):
    with rep.rule(
        "R02.revisit",
        "a link created under an already existing head re-triggers, through the new link only, "
        "every reduction of every already processed head that traverses that head's state on this frontier",
    ) as r:
        repo = rep.repo
        f, g = func_cfg(repo, "parglare.glr.GLRParser._reduce")
        rec = [n for n, c in g.nodes_calling("_do_reductions")]
        r.check(bool(rec), "_reduce re-triggers reductions when a link is added under an existing head",
                "GLRParser._reduce:revisit-missing",
                "_reduce never calls _do_reductions: reductions of already processed heads through a link that "
                "appears later on the same frontier are never performed (derivations are lost)", node=f.node)
        created_T = g.test_edges(lambda e: is_name(e, "created"), "T")
        for n in rec:
            r.check(
                bool(created_T) and g.dominated_by_edges(n, created_T),
                "revisit only if the link was created (not merely merged)",
                "GLRParser._reduce:revisit-created",
                "revisits are triggered although no new link was created (endless re-reduction) or are not tied to "
                "link creation",
                node=n.ast,
            )
            c = next(x for x in ast.walk(n.ast) if isinstance(x, ast.Call) and is_self_attr(x.func, "_do_reductions"))
            r.check(
                [unparse(a) for a in c.args] == ["r_head", "action.prod", "parent"],
                "revisit = reduction of the processed head, limited to the new link",
                "GLRParser._reduce:revisit-args",
                f"the revisit calls {unparse(c)}",
                node=c,
            )
        t = unparse(f.node)
        r.check(
            "to_revisit = self._states_traversed[state.state_id].intersection(self._active_heads.keys()) - set((h.state.state_id for h in self._for_actor))" in t,
            "heads to revisit = those that traversed this state, are active and already processed",
            "GLRParser._reduce:revisit-set",
            "the set of heads to revisit is no longer (states that traversed the target state) & (active heads) - "
            "(heads still waiting for the actor)",
            node=f.node,
        )
        # nothing else narrows the set between its definition and the revisit loop
        other = []
        for st in walk_no_nested(f.node):
            if isinstance(st, (ast.Assign, ast.AugAssign)):
                tg = st.targets if isinstance(st, ast.Assign) else [st.target]
                if any(is_name(x, "to_revisit") for x in tg) and not unparse(st).startswith("to_revisit = self._states_traversed["):
                    other.append(st)
            elif isinstance(st, ast.Call) and isinstance(st.func, ast.Attribute) and is_name(st.func.value, "to_revisit") \
                    and st.func.attr in ("discard", "remove", "pop", "clear", "difference_update", "intersection_update",
                                         "symmetric_difference_update", "add", "update"):
                other.append(st)
        r.check(
            not other,
            "the revisit set is used as computed",
            "GLRParser._reduce:revisit-set-narrowed",
            f"`{unparse(other[0])[:80] if other else ''}` changes the set of heads to revisit after it was computed: a "
            "processed head that traversed the state is not revisited through the new link (derivations are lost on "
            "same-frontier cycles)",
            node=other[0] if other else None,
        )
        defs = [
            n for n in g.nodes if n.kind == "stmt" and isinstance(n.ast, ast.Assign)
            and any(is_name(x, "to_revisit") for x in n.ast.targets)
        ]
        r.need(len(defs) == 1, "_reduce: definition of to_revisit not found")
        dbg = lambda e: unparse(e) in ("self.debug", "debug", "self.debug_trace", "self.debug and self.debug_trace")  # noqa: E731
        guard = g.dominating_tests(defs[0], skip=dbg)
        want = {
            ("self.dynamic_filter", None), ("active_head", "T"), ("created", "T"),
            ("state.state_id in self._states_traversed", "T"),
        }
        # the dynamic-filter early return dominates everything below it in one of two ways; ignore it
        guard = {(a, b) for a, b in guard if not a.startswith(("self.dynamic_filter", "self._call_dynamic_filter", "not self._call_dynamic_filter"))}
        want = {(a, b) for a, b in want if b is not None}
        r.check(
            guard == want,
            "revisit whenever a link was created under an existing head whose state was traversed",
            "GLRParser._reduce:revisit-guard",
            f"the heads to revisit are computed under the guard {sorted(guard)}; needed exactly {sorted(want)} "
            "(any further condition, e.g. the error-reporting mode, leaves reductions of processed heads undone: "
            "derivations, or expected terminals in an error report, are lost)",
            node=defs[0].ast,
        )
        r.check(
            re.search(r"for r_head_state in to_revisit:\s+r_head = self\._active_heads\[r_head_state\]\s+for action in \[a for a in r_head\.state\.actions\.get\(head\.token_ahead\.symbol, \[\]\) if a\.action == REDUCE\]:", t) is not None,
            "every head to revisit, every REDUCE action for the frontier's lookahead",
            "GLRParser._reduce:revisit-domain",
            "the revisit no longer ranges over every head to revisit and every REDUCE action of its cell",
            node=f.node,
        )
        # the recording of traversed states
        d = repo.func("parglare.glr.GLRParser._do_reductions")
        wl = next((l for l in walk_no_nested(d.node) if isinstance(l, ast.While) and is_name(l.test, "to_process")), None)
        r.need(wl is not None, "_do_reductions: path search loop not found")
        rec_if = [
            st for st in wl.body
            if isinstance(st, ast.If) and "states_traversed.setdefault(" in unparse(st)
        ]
        r.need(len(rec_if) == 1, "_do_reductions: recording of traversed states not found")
        atoms = Atoms().flag("node.frontier == head.frontier", "same")
        space = [dict(same=False), dict(same=True)]

        def run(atom):
            def eff(st, it):
                t2 = plain(st.value) if isinstance(st, ast.Expr) else unparse(st)
                if t2 == "states_traversed.setdefault(node.state.state_id, set()).add(head.state.state_id)" or \
                   t2 == "self._states_traversed.setdefault(node.state.state_id, set()).add(head.state.state_id)":
                    return ("RECORD",)
                return NotImplemented
            it = Interp(atom, eff)
            it.run(rec_if)
            return list(it.effects)

        for leaf in explore(run, space, atoms):
            for v in leaf.valuations:
                exp = [("RECORD",)] if v["same"] else []
                r.check(
                    leaf.result == exp,
                    f"traversal recorded iff the node is on the reducing head's frontier (same={v['same']})",
                    "GLRParser._do_reductions:record",
                    f"for a path node on the {'same' if v['same'] else 'an earlier'} frontier the traversal is "
                    f"{'recorded' if leaf.result else 'not recorded'}; needed: recorded iff same frontier -- whatever else "
                    "it depends on, heads that met the node during a limited re-reduction are not revisited when the "
                    "node gets another link, and sentences are rejected" + leaf.free_text(),
                    node=rec_if[0],
                )
        r.check("states_traversed = self._states_traversed" in unparse(d.node) or "self._states_traversed.setdefault" in unparse(d.node),
                "the record is the parser's per-sub-frontier map", "GLRParser._do_reductions:record-target",
                "traversals are recorded somewhere else than self._states_traversed", node=d.node)
        p = repo.func("parglare.glr.GLRParser.parse")
        r.check(
            re.search(r"self\._for_actor = list\(self\._active_heads\.values\(\)\)\s+self\._states_traversed = \{\}", unparse(p.node)) is not None,
            "the map starts empty for each lookahead sub-frontier",
            "GLRParser.parse:traversed-reset",
            "the traversed-states map is not reset per sub-frontier",
            node=p.node,
        )


def rule_link_key(rep):
    with rep.rule(
        "R02.link-key",
        "links of a head are keyed by the identity of the root node: GSSNode.id is an injective "
        "function of (frontier, state id)",
    ) as r:
        repo = rep.repo
        init = repo.func("parglare.glr.GSSNode.__init__")
        st = next(
            (x for x in walk_no_nested(init.node) if isinstance(x, ast.Assign) and any(is_self_attr(t, "id") for t in x.targets)),
            None,
        )
        r.need(st is not None, "GSSNode.__init__: self.id assignment not found")
        v = st.value
        ok = False
        why = unparse(v)
        if isinstance(v, ast.Tuple):
            parts = [unparse(e) for e in v.elts]
            ok = sorted(parts) == ["frontier", "state.state_id"]
        elif isinstance(v, ast.JoinedStr):
            holes = [unparse(x.value) for x in v.values if isinstance(x, ast.FormattedValue)]
            ok = sorted(holes) == ["frontier", "state.state_id"]
            # two integers: a non-digit separator between them is needed
            for a, b, c in zip(v.values, v.values[1:], v.values[2:]):
                pass
            seq = v.values
            for i, x in enumerate(seq):
                if isinstance(x, ast.FormattedValue) and i + 1 < len(seq) and isinstance(seq[i + 1], ast.FormattedValue):
                    ok = False
                    why += " (two numbers without a separator)"
            for x in seq:
                if isinstance(x, ast.Constant) and isinstance(x.value, str) and x.value and x.value.isdigit():
                    ok = False
                    why += " (digits as separator)"
        r.check(
            ok,
            "GSSNode.id = frontier and state id, separated",
            "GSSNode.__init__:id",
            f"GSSNode.id is built as `{why}`: different (frontier, state) pairs get the same id (e.g. (1, 13) and "
            "(11, 3)); create_link then merges a new link into the link of another root node, losing one "
            "derivation and inventing another",
            node=st,
        )
        cl = repo.func("parglare.glr.GSSNode.create_link")
        t = unparse(cl.node)
        r.check(
            "existing_parent = self.parents.get(parent.root.id)" in t and "self.parents[parent.root.id] = parent" in t,
            "links are looked up and stored under the root node's id",
            "GSSNode.create_link:key",
            "create_link no longer reads and writes the link table under parent.root.id",
            node=cl.node,
        )


def rule_all_parents(rep):
    with rep.rule(
        "R02.all-parents",
        "the backward walk of a reduction follows all links of every node (only the new link at "
        "its head in a limited re-reduction), exactly len(rhs) steps, and reduces every full path "
        "(in a limited walk: every full path through the new link)",
    ) as r:
        repo = rep.repo
        d = repo.func("parglare.glr.GLRParser._do_reductions")
        t = unparse(d.node)
        r.check(
            "to_process = [(head, [], prod_len, None, update_parent is None)]" in t and "prod_len = len(production.rhs)" in t,
            "the walk starts at the head with len(rhs) steps to go; 'through the new link' starts true iff unlimited",
            "GLRParser._do_reductions:init",
            "the path search no longer starts from (head, [], len(production.rhs), None, update_parent is None)",
            node=d.node,
        )
        r.check(
            re.search(r"\(?node, results, length, last_parent, traversed\)? = to_process\.pop\(\)", t) is not None and "length -= 1" in t,
            "one step per popped node",
            "GLRParser._do_reductions:step",
            "the remaining path length is no longer decremented once per popped node",
            node=d.node,
        )
        wl = next((l for l in walk_no_nested(d.node) if isinstance(l, ast.While) and is_name(l.test, "to_process")), None)
        r.need(wl is not None, "_do_reductions: path search loop not found")
        len_stores = [
            n for n in walk_no_nested(wl)
            if isinstance(n, ast.Name) and n.id == "length" and isinstance(n.ctx, ast.Store)
        ]
        r.check(
            len(len_stores) == 2,
            "the remaining length changes exactly once per step",
            "GLRParser._do_reductions:step-once",
            f"`length` is assigned {len(len_stores)} times in a step of the path search (unpacking + exactly one "
            "decrement expected): paths of the wrong length are reduced",
            node=wl,
        )
        ploop = next((l for l in wl.body if isinstance(l, ast.For)), None)
        r.need(ploop is not None, "_do_reductions: loop over the links of a node not found")
        # a test computed once per popped node, just before the loop over its links, and kept in a local that is
        # assigned nowhere else, is read as the expression it abbreviates (the rule is about which links are followed
        # from the node and what is done per link; `update_parent`, `node` and a link's head are not rebound by a step)
        from .. import equiv as _eq

        temps = {}
        for st in wl.body[: wl.body.index(ploop)]:
            if isinstance(st, ast.Assign) and len(st.targets) == 1 and isinstance(st.targets[0], ast.Name) and _eq.pure_read(st.value):
                nm = st.targets[0].id
                stores = [n for n in ast.walk(d.node) if isinstance(n, ast.Name) and n.id == nm and isinstance(n.ctx, ast.Store)]
                if len(stores) == 1:
                    temps[nm] = st.value
        if temps:
            import copy as _copy

            orig = ploop
            ploop = _copy.deepcopy(ploop)
            for _ in range(3):
                for nm, val in temps.items():
                    ploop = _eq._Subst(nm, val).visit(ploop)
            ast.copy_location(ploop, orig)
            r.note("locals read as the expressions they abbreviate: " + ", ".join(f"{k} = {unparse(v)}" for k, v in sorted(temps.items())))
        it_txt = unparse(ploop.iter)
        r.check(
            it_txt == "[update_parent] if update_parent and update_parent.head == node else list(node.parents.values())",
            "all links of the node, or only the new link at its own head",
            "GLRParser._do_reductions:parents-domain",
            f"the links followed from a node are `{it_txt}`",
            node=ploop,
        )
        g = cfgmod.build_region(ploop.body)
        exits = {e.tag for e in g.all_exits() if e in g.reachable()}
        r.check(exits <= {"next"}, "no link of a node is skipped", "GLRParser._do_reductions:parents-no-exit",
                f"the loop over a node's links can be left early ({sorted(exits - {'next'})})", node=ploop)
        # decision table of the loop body
        space = [dict(more=m, trav=tv, lim=lm) for m in (False, True) for tv in (False, True) for lm in (False, True)]
        atoms = Atoms()
        atoms.flag("LENGTH", "more").flag("TRAV", "trav")
        atoms.add(r"update_parent and update_parent\.head == node", lambda v, m: v["lim"])
        atoms.flag("update_parent", "lim")  # only meaningful together with the head test below
        atoms.add(r"update_parent\.head == node", lambda v, m: v["lim"])
        atoms.const("debug", False).const("LASTP == None", False)

        def run(atom):
            def eff(st, it):
                t2 = plain(st.value) if isinstance(st, ast.Expr) else unparse(st)
                if t2.startswith("to_process.append("):
                    c = st.value.args[0]
                    return ("PUSH", tuple(plain(e) for e in c.elts))
                if t2.startswith("self._reduce("):
                    return ("REDUCE", tuple(plain(a) for a in st.value.args))
                return NotImplemented
            it = Interp(atom, eff, env={"length": N("LENGTH"), "traversed": N("TRAV"), "last_parent": N("LASTP")})
            it.run(ploop.body)
            return list(it.effects)

        for leaf in explore(run, space, atoms):
            effs = leaf.result
            for v in leaf.valuations:
                kinds = [e[0] for e in effs]
                if v["more"]:
                    exp = ["PUSH"]
                elif v["trav"] or v["lim"]:
                    exp = ["REDUCE"]
                else:
                    exp = []
                ok = kinds == exp
                if ok and exp == ["PUSH"]:
                    a = effs[0][1]
                    ok = a[0] == "parent.root" and a[1] == "[parent] + results" and a[2] == "LENGTH"
                if ok and exp == ["REDUCE"]:
                    a = effs[0][1]
                    ok = a[:3] == ("head", "parent.root", "production")
                r.check(
                    ok,
                    "path step row " + describe(v),
                    "GLRParser._do_reductions:" + ("push" if v["more"] else "reduce" if (v["trav"] or v["lim"]) else "skip"),
                    f"at a path node with steps left={v['more']}, path already through the new link={v['trav']}, "
                    f"this is the new link={v['lim']}: the walk does {[(e[0], e[1][:3]) for e in effs]}; needed {exp}"
                    + leaf.free_text(),
                    node=ploop,
                )
        r.check(
            re.search(r"if prod_len == 0:\s+self\._reduce\(head, head, production,", t) is not None,
            "an empty production reduces with the head as its own root",
            "GLRParser._do_reductions:empty",
            "the empty reduction no longer uses the head as root",
            node=d.node,
        )


def check(rep):
    rep.explanation = (
        "C02: NECESSARY STRUCTURE ONLY -- these rules do not decide completeness of the forest (the "
        "property's own example of a lost tree cannot be found this way). Decided: no found "
        "reduction or shift link is dropped (must-pass-through with the filter / push-back "
        "escapes), a created link on a processed head re-triggers limited reductions (revisit set "
        "and recording table), the backward walk follows all links for exactly len(rhs) steps "
        "(decision table), links merge without loss, the forest root folds every accepted head."
    )
    rule_link_no_drop(rep)
    rule_revisit(rep)
    rule_link_key(rep)
    rule_all_parents(rep)
    from .C17 import rule_forest_root, rule_accumulate

    rule_forest_root(rep)
    rule_accumulate(rep)
    # a table that lacks a valid action (FIRST/FOLLOW/propagation/state faults) loses derivations
    from .C05 import rule_first, rule_nullable_scans, rule_rearm, rule_states

    rule_first(rep)
    rule_nullable_scans(rep)
    rule_rearm(rep)
    rule_states(rep)
