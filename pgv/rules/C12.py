"""C12 -- the table cache is transparent whatever its age, origin or completeness."""
from __future__ import annotations

import ast
import itertools
import re

from .. import cfg as cfgmod
from ..core import (
    AnalysisError,
    UnknownAtom,
    call_name,
    dotted,
    is_name,
    is_self_attr,
    plain,
    strip_at,
    unparse,
    walk_no_nested,
)
from ..interp import Exit, Interp, exc_matches
from ..table import Atoms, describe, explore, norm_cmp
from .common import arg_of, func_cfg, kw

TABLE_SHAPING_EXEMPT = {
    "grammar": "keyed by the grammar file path (cache file name) and the mtimes of all grammar files",
    "debug": "output only: guards print statements",
    "start_production": "constant 1 whenever in_layout is false (checked at the call sites); in-layout tables are never cached",
    "force_create": "decision input, not passed to create_table",
    "force_load": "decision input, not passed to create_table",
    "in_layout": "decision input; in-layout tables are never cached",
}


def _writer_facts(repo):
    """what save_table can leave on disk: atomic? ascii only?"""
    f = repo.func("parglare.tables.persist.save_table")
    txt = unparse(f.node)
    atomic = "os.replace(" in txt or "os.rename(" in txt
    dumps = [c for c in walk_no_nested(f.node) if isinstance(c, ast.Call) and call_name(c) in ("dump", "dumps")]
    if not dumps:
        raise AnalysisError("save_table no longer calls json.dump")
    ea = kw(dumps[0], "ensure_ascii")
    ascii_only = ea is None or (isinstance(ea, ast.Constant) and ea.value is True)
    return f, atomic, ascii_only, dumps[0]


def rule_decision(rep):
    with rep.rule(
        "R12.decision",
        "create_load_table == documented cache decision table (create when no file / absent / "
        "stale / forced / undecodable; load when fresh or force_load and present; never cache "
        "layout tables; save only after create and only with a file path)",
    ) as r:
        repo = rep.repo
        f = repo.func("parglare.tables.create_load_table")
        ct = repo.func("parglare.tables.create_table")
        _, atomic, ascii_only, _ = _writer_facts(repo)
        r.fact("writer_atomic", atomic)
        r.fact("writer_ascii_only", ascii_only)
        fail_kinds = [None]
        if not atomic:
            fail_kinds.append("JSONDecodeError")
            if not ascii_only:
                fail_kinds.append("UnicodeDecodeError")
        for p in ("force_create", "in_layout"):
            for n in ast.walk(f.node):
                if isinstance(n, ast.Name) and n.id == p and isinstance(n.ctx, ast.Store):
                    raise AnalysisError(f"parameter {p} is reassigned in create_load_table")

        space = []
        for in_layout, has_path, fc, fl in itertools.product((False, True), repeat=4):
            for exists in (False, True) if has_path else (False,):
                for newer in (False, True) if exists else (False,):
                    for fail in fail_kinds if exists else (None,):
                        space.append(
                            dict(in_layout=in_layout, has_path=has_path, fc=fc, fl=fl,
                                 exists=exists, newer=newer, fail=fail)
                        )

        atoms = Atoms()
        atoms.flag("in_layout", "in_layout").const("debug", False)
        atoms.flag("grammar.file_path", "has_path").flag("grammar.file_path != None", "has_path")
        atoms.flag("force_create", "fc").flag("force_load", "fl")
        atoms.add(r"os\.path\.exists\(f'.*\.pgc'\)", lambda v, m: v["exists"])
        atoms.add(r"os\.path\.isfile\(f'.*\.pgc'\)", lambda v, m: v["exists"])
        atoms.add(r"(__at\(\d+, )?(load_table|create_table)\(.*\)\)? == None", lambda v, m: False)
        atoms.add(r"(__at\(\d+, )?(load_table|create_table)\(.*\)\)? != None", lambda v, m: True)
        atoms.add(r"(__at\(\d+, )?(load_table|create_table)\(.*\)\)?", lambda v, m: True)
        atoms.flag("NEWER", "newer")

        def on_loop(st, it):
            """the staleness loop: existential flag loop over grammar.imported_files"""
            if not (isinstance(st, ast.For) and isinstance(st.target, ast.Name)):
                raise AnalysisError("unsupported loop in create_load_table")
            dom = unparse(it.sub(st.iter))
            var = st.target.id
            body = st.body
            ok_shape = (
                len(body) == 1 and isinstance(body[0], ast.If) and not body[0].orelse
                and isinstance(body[0].test, ast.Compare) and len(body[0].test.ops) == 1
            )
            if not ok_shape:
                raise AnalysisError("staleness loop has an unknown shape")
            test = body[0].test
            left = unparse(it.sub(test.left))
            right = unparse(strip_at(it.sub(test.comparators[0]))[0])
            op = type(test.ops[0]).__name__
            problems = []
            if dom not in ("grammar.imported_files", "grammar.imported_files.keys()", "list(grammar.imported_files)"):
                problems.append(f"staleness is checked over {dom}, not over all grammar files (grammar.imported_files)")
            if left != f"os.path.getmtime({var})":
                problems.append(f"grammar file timestamp is {left}, not its modification time")
            if not re.fullmatch(r"os\.path\.getmtime\(f'.*\.pgc'\)", right):
                problems.append(f"cache timestamp is {right}, not the modification time of the table file")
            if op not in ("Gt", "GtE"):
                problems.append(f"staleness comparison is {op}: a grammar file newer than the cache must invalidate it")
            assigns = [s for s in body[0].body if isinstance(s, ast.Assign) and isinstance(s.targets[0], ast.Name)]
            if not assigns or not all(isinstance(s.value, ast.Constant) for s in assigns):
                raise AnalysisError("staleness loop body has an unknown shape")
            it.effects.append(("STALE-TEST", tuple(problems)))
            if it.truth(ast.Name(id="NEWER", ctx=ast.Load()), True):
                for s in assigns:
                    it.env[s.targets[0].id] = s.value
            return None

        def raises(st, it):
            for c in ast.walk(st):
                if isinstance(c, ast.Call) and call_name(c) == "load_table":
                    v = current["v"]
                    return None  # decided per valuation below
            return None

        current = {}

        # the load may fail: treat "load fails" as an atom consulted when the load statement runs
        def run(atom):
            def rz(st, it):
                for c in ast.walk(st):
                    if isinstance(c, ast.Call) and call_name(c) == "load_table":
                        for kind in ("JSONDecodeError", "UnicodeDecodeError"):
                            if atom(ast.Name(id=f"LOADFAILS_{kind}", ctx=ast.Load()), it):
                                it.effects.append(("CALL", "load_table", c))
                                return kind
                return None

            def eff(st, it):
                return NotImplemented

            it = Interp(atom, eff, on_loop=on_loop, raises=rz, watch={"create_table", "load_table", "save_table"},
                        local_mutations_ok=True)
            ex = it.run(f.body)
            return list(it.effects), ex

        atoms.add(r"LOADFAILS_(\w+)", lambda v, m: v["fail"] == m.group(1))

        rows = 0
        for leaf in explore(run, space, atoms):
            effs, ex = leaf.result
            calls = [e[1] for e in effs if e[0] == "CALL"]
            stale = [e for e in effs if e[0] == "STALE-TEST"]
            for v in leaf.valuations:
                if v["fc"] and v["fl"]:
                    continue  # don't-care: both force flags
                rows += 1
                if v["in_layout"]:
                    exp = ["create_table"]
                elif not v["has_path"]:
                    exp = ["create_table"]
                else:
                    if v["fc"]:
                        load = False
                    elif v["fl"]:
                        load = v["exists"]
                    else:
                        load = v["exists"] and not v["newer"]
                    if load:
                        exp = ["load_table"] + (["create_table", "save_table"] if v["fail"] else [])
                    else:
                        exp = ["create_table", "save_table"]
                ok = calls == exp and ex.kind == "return"
                if ex.kind == "raise":
                    got = f"raises {unparse(ex.value)}"
                else:
                    got = f"calls {calls}"
                cls = (
                    "layout" if v["in_layout"] else "no-path" if not v["has_path"] else
                    "force_create" if v["fc"] else "force_load" if v["fl"] else "default"
                )
                if v["fail"]:
                    cls += ":undecodable"
                r.check(
                    ok,
                    "cache decision row " + describe(v),
                    f"create_load_table:{cls}",
                    f"for {describe(v)}: {got}; documented {exp}" + leaf.free_text(),
                    node=f.node,
                )
                # returned table is the last created/loaded one
                if ok:
                    rv = unparse(ex.value) if ex.value is not None else ""
                    last = "create_table(" if "create_table" in exp else "load_table("
                    r.check(
                        last in rv,
                        "returns the table just obtained",
                        f"create_load_table:return:{cls}",
                        f"for {describe(v)}: returns {rv[:80]}",
                        node=f.node,
                    )
            for e in stale:
                for p in e[1]:
                    r.violation("create_load_table:staleness", p, node=f.node)
        r.floor("cache decision rows", rows, 30)
        # arguments of both create_table calls and of save/load
        for c in walk_no_nested(f.node):
            if isinstance(c, ast.Call) and is_name(c.func, "create_table"):
                for pname in ("grammar", "itemset_type", "start_production", "prefer_shifts", "prefer_shifts_over_empty"):
                    a = arg_of(c, ct, pname)
                    r.check(
                        a is not None and is_name(a, pname),
                        f"create_table receives {pname}",
                        f"create_load_table:pass:{pname}",
                        f"create_table is called with {unparse(a)} for parameter {pname}",
                        node=c,
                    )
            if isinstance(c, ast.Call) and is_name(c.func, "save_table"):
                r.check(
                    len(c.args) == 2 and is_name(c.args[0], "table_file_name") and is_name(c.args[1], "table"),
                    "save_table(table_file_name, table)",
                    "create_load_table:save-args",
                    f"save call is {unparse(c)}",
                    node=c,
                )
            if isinstance(c, ast.Call) and is_name(c.func, "load_table"):
                r.check(
                    len(c.args) == 2 and is_name(c.args[0], "table_file_name") and is_name(c.args[1], "grammar"),
                    "load_table(table_file_name, grammar)",
                    "create_load_table:load-args",
                    f"load call is {unparse(c)}",
                    node=c,
                )
        # cache file name derives from the grammar file path only
        names = [
            st for st in walk_no_nested(f.node)
            if isinstance(st, ast.Assign) and is_name(st.targets[0], "table_file_name")
            and isinstance(st.value, ast.JoinedStr)
        ]
        r.floor("cache file name definitions", len(names), 1)


def rule_key(rep):
    with rep.rule(
        "R12.key",
        "every table-shaping option handed to create_table/LRTable is part of the cache file "
        "name, the validity test or saved-and-compared content",
    ) as r:
        repo = rep.repo
        f = repo.func("parglare.tables.create_load_table")
        ct = repo.func("parglare.tables.create_table")
        lrt = repo.func("parglare.tables.LRTable.__init__")
        # options = named parameters passed on + keywords that call sites send through **kwargs
        options = {}
        for p in f.params:
            options[p] = f"parameter of create_load_table"
        has_kwargs = f.node.args.kwarg is not None
        sites = []
        for fn in repo.all_funcs():
            for c in walk_no_nested(fn.node):
                if isinstance(c, ast.Call) and call_name(c) == "create_load_table":
                    sites.append((fn, c))
                    for k in c.keywords:
                        if k.arg and k.arg not in options and has_kwargs:
                            options[k.arg] = f"sent through **kwargs at {repo.loc(c)}"
        r.floor("create_load_table call sites", len(sites), 2)
        # what flows into create_table / LRTable
        passed = set()
        for c in walk_no_nested(f.node):
            if isinstance(c, ast.Call) and is_name(c.func, "create_table"):
                for a in list(c.args) + [k.value for k in c.keywords if k.arg]:
                    for n in ast.walk(a):
                        if isinstance(n, ast.Name) and n.id in options:
                            passed.add(n.id)
                if any(k.arg is None for k in c.keywords):
                    passed |= {o for o, why in options.items() if "kwargs" in why}
        # the key: names read by the cache file name, the validity tests and the load call
        key_names = set()
        for st in walk_no_nested(f.node):
            if isinstance(st, ast.Assign) and any(
                is_name(t, "table_file_name") or is_name(t, "file_basename") for t in ast.walk(st.targets[0])
            ):
                key_names |= {n.id for n in ast.walk(st.value) if isinstance(n, ast.Name)}
            if isinstance(st, ast.Call) and call_name(st) == "load_table":
                key_names |= {n.id for n in ast.walk(st) if isinstance(n, ast.Name)}
            if isinstance(st, (ast.If, ast.For)):
                src = st.test if isinstance(st, ast.If) else st.iter
                if "debug" != unparse(src):
                    key_names |= {n.id for n in ast.walk(src) if isinstance(n, ast.Name)}
        # saved-and-compared content: options written by save_table and compared on load
        persist = repo.module("parglare.tables.persist")
        saved = set()
        for o in options:
            if re.search(rf"\b{re.escape(o)}\b", unparse(persist.tree)):
                saved.add(o)
        r.fact("options", sorted(options))
        r.fact("passed_to_create_table", sorted(passed))
        r.fact("key_names", sorted(key_names & set(options)))
        charged = []
        for o in sorted(options):
            if o in TABLE_SHAPING_EXEMPT:
                r.ok(f"option {o}: exempt", TABLE_SHAPING_EXEMPT[o])
                continue
            if o not in passed:
                r.ok(f"option {o}: not handed to table construction")
                continue
            keyed = o in key_names or o in saved
            if not keyed:
                charged.append(o)
            r.check(
                keyed,
                f"option {o} is keyed",
                f"create_load_table:param {o}",
                f"table-shaping option {o!r} ({options[o]}) reaches create_table/LRTable but is not "
                "part of the cache file name, the validity test or the saved content: a .pgc written "
                "under another value of it is loaded as if it were current",
                node=f.node,
            )
        r.floor("options handed to table construction", len(passed), 4)
        # discharge of start_production by constant propagation at the Parser call site
        init = repo.func("parglare.parser.Parser.__init__")
        ok = False
        for st in walk_no_nested(init.node):
            if isinstance(st, ast.If) and unparse(st.test) == "self.in_layout":
                ok = any(
                    isinstance(s, ast.Assign) and is_name(s.targets[0], "start_production")
                    and isinstance(s.value, ast.Constant) and s.value.value == 1
                    for s in st.orelse
                )
        site = next((c for fn, c in sites if fn is init), None)
        r.need(site is not None, "Parser.__init__ no longer calls create_load_table")
        ok = ok and unparse(kw(site, "in_layout")) == "self.in_layout" and unparse(kw(site, "start_production")) == "start_production"
        r.check(
            ok,
            "start_production is 1 whenever in_layout is false at the Parser call site",
            "Parser.__init__:start_production",
            "start_production is no longer the constant 1 for cached (non-layout) tables but is not keyed",
            node=site,
        )
        # debug really is output-only in create_table
        for st in walk_no_nested(ct.node):
            if isinstance(st, ast.If) and unparse(st.test) == "debug":
                pure = all(
                    isinstance(s, ast.Expr) and isinstance(s.value, ast.Call)
                    and call_name(s.value) in ("h_print", "a_print", "prints", "print")
                    for s in st.body
                ) and not st.orelse
                r.check(pure, "debug guards prints only", "create_table:debug",
                        "a `debug` branch of create_table does more than printing", node=st)


def rule_stale_domain(rep):
    with rep.rule(
        "R12.stale-domain",
        "every cache-validity test compares the cache's mtime with every file of the grammar's "
        "registry (root and imports): .pgc (in R12.decision) and the .pgec hint cache",
    ) as r:
        repo = rep.repo
        f = repo.func("parglare.parser.Parser._custom_error_hints")
        tests = [
            st for st in walk_no_nested(f.node)
            if isinstance(st, ast.If) and "hints_file_compiled" in unparse(st.test) and "st_mtime" in unparse(st.test)
        ]
        r.floor(".pgec validity tests", len(tests), 1)
        t = tests[0].test
        parts = t.values if isinstance(t, ast.BoolOp) and isinstance(t.op, ast.Or) else [t]
        txts = [unparse(p) for p in parts]
        r.check(
            any(x == "not hints_file_compiled.exists()" for x in txts),
            "recompile when the .pgec is absent",
            "_custom_error_hints:absent",
            "the hint cache validity test no longer recompiles when the .pgec file is absent",
            node=t,
        )
        dom_ok = False
        for p in parts:
            if isinstance(p, ast.Call) and is_name(p.func, "any") and p.args and isinstance(p.args[0], (ast.GeneratorExp, ast.ListComp)):
                ge = p.args[0]
                dom = unparse(ge.generators[0].iter)
                cmp = ge.elt
                if (
                    dom in ("self.grammar.imported_files", "self.grammar.imported_files.keys()")
                    and isinstance(cmp, ast.Compare) and isinstance(cmp.ops[0], (ast.Gt, ast.GtE))
                    and "st_mtime" in unparse(cmp.left) and ge.generators[0].target.id in unparse(cmp.left)
                    and unparse(cmp.comparators[0]) == "hints_file_compiled.stat().st_mtime"
                    and not ge.generators[0].ifs
                ):
                    dom_ok = True
        r.check(
            dom_ok,
            "staleness of the hint cache ranges over all grammar files",
            "_custom_error_hints:domain",
            "the .pgec validity test does not compare with the mtime of every grammar file "
            "(root and imported): stale LR state ids are used after an imported grammar changes",
            node=t,
        )
        r.check(
            any(x.replace(" ", "") == "hints_file.stat().st_mtime>hints_file_compiled.stat().st_mtime" for x in txts),
            "recompile when the .pge file is newer",
            "_custom_error_hints:pge",
            "the .pgec validity test no longer looks at the .pge file's mtime",
            node=t,
        )
        # the hint cache's keys survive the round trip: writer and reader are an inverse pair
        t2 = unparse(f.node)
        w = re.search(r"serializable = \{(.+?): v for k, v in compiled_hints\.items\(\)\}", t2)
        rd = re.search(r"compiled_hints = \{(.+?): v for k, v in loaded\.items\(\)\}", t2)
        pair = (w.group(1) if w else None, rd.group(1) if rd else None)
        inverse = {("str(k)", "ast.literal_eval(k)"), ("repr(k)", "ast.literal_eval(k)")}
        r.check(
            pair in inverse,
            "hint keys: writer and reader are an inverse pair (str/repr <-> ast.literal_eval)",
            "_custom_error_hints:key-codec",
            f"hint-cache keys are written as `{pair[0]}` and read back as `{pair[1]}`: not a known inverse pair -- a key "
            "(state, lookahead names...) whose names contain the separator / quotes does not survive the round "
            "trip, so the second parser construction finds other hints than the first",
            node=f.node,
        )
        hk = repo.func("parglare.parser.hint_key")
        r.check(
            "return (state,) + tuple(lookaheads)" in unparse(hk.node) and "sorted([t.symbol.name for t in tokens_ahead])" in unparse(hk.node),
            "hint key = (state, sorted lookahead names...)",
            "hint_key",
            "hint_key changed",
            node=hk.node,
        )
        # registry is filled for every PGFile with a path
        pg = repo.func("parglare.grammar.PGFile.__init__")
        reg = [
            st for st in walk_no_nested(pg.node)
            if isinstance(st, ast.Assign) and "imported_files[self.file_path]" in unparse(st.targets[0])
        ]
        r.check(
            len(reg) == 1,
            "every grammar file with a path registers in grammar.imported_files",
            "PGFile.__init__:registry",
            "PGFile no longer registers its path in grammar.imported_files (staleness domain incomplete)",
            node=pg.node,
        )


def _const_keys_written(func, var=None):
    """[(key, conditional?, stmt)] for  X["key"] = ...  in func"""
    out = []
    for st in walk_no_nested(func.node):
        if isinstance(st, ast.Assign) and isinstance(st.targets[0], ast.Subscript):
            t = st.targets[0]
            if isinstance(t.slice, ast.Constant) and isinstance(t.slice.value, str) and isinstance(t.value, ast.Name):
                cond = any(isinstance(a, ast.If) for a in _anc_until(st, func.node))
                out.append((t.slice.value, cond, st))
    return out


def _anc_until(n, stop):
    from ..core import ancestors
    for a in ancestors(n):
        if a is stop:
            return
        yield a


def persist_order_checks(r, repo):
    ds = repo.func("parglare.tables.persist._dump_state")
    da = repo.func("parglare.tables.persist._dump_actions")
    rd = repo.func("parglare.tables.persist.table_from_serializable")
    # order preservation: loops over actions / cells iterate the container itself
    for fn in (ds, da, rd, repo.func("parglare.tables.persist.table_to_serializable")):
        for lp in walk_no_nested(fn.node):
            iters = []
            if isinstance(lp, ast.For):
                iters.append(lp.iter)
            if isinstance(lp, (ast.ListComp, ast.GeneratorExp)):
                iters += [g.iter for g in lp.generators]
            for itx in iters:
                t = unparse(itx)
                bad = re.match(r"(sorted|reversed|set|frozenset)\(", t) or ".sort(" in t
                r.check(
                    not bad,
                    f"{fn.name}: iteration over {t[:40]} keeps the stored order",
                    f"persist:{fn.name}:order",
                    f"{fn.name} iterates {t[:80]}: the order of actions/cells in the file then "
                    "differs from the order in memory, so a loaded table is not the computed one "
                    "(first action of a cell, conflict reports, forest order)",
                    node=lp,
                )


def rule_schema(rep):
    with rep.rule(
        "R12.schema",
        "keys written by _dump_state/_dump_actions == keys read by table_from_serializable "
        "(conditional keys read conditionally); symbols by fqn, productions by prod_id, states by "
        "state_id; writer and reader keep the order of actions and cells",
    ) as r:
        repo = rep.repo
        ds = repo.func("parglare.tables.persist._dump_state")
        da = repo.func("parglare.tables.persist._dump_actions")
        rd = repo.func("parglare.tables.persist.table_from_serializable")
        w_state = _const_keys_written(ds)
        w_act = _const_keys_written(da)
        r.floor("state record keys written", len(w_state), 5)
        r.floor("action record keys written", len(w_act), 3)
        reads = {}
        in_tests = set()
        for n in walk_no_nested(rd.node):
            if isinstance(n, ast.Subscript) and isinstance(n.slice, ast.Constant) and isinstance(n.slice.value, str) and isinstance(n.value, ast.Name):
                reads.setdefault(n.value.id, set()).add(n.slice.value)
            if isinstance(n, ast.Compare) and isinstance(n.ops[0], ast.In) and isinstance(n.left, ast.Constant):
                in_tests.add(n.left.value)
        read_state = reads.get("json_state", set())
        read_act = reads.get("json_action", set())
        r.check(
            {k for k, _, _ in w_state} == read_state,
            "state record keys agree",
            "persist:state-keys",
            f"state record: written {sorted(k for k, _, _ in w_state)}, read {sorted(read_state)}",
            node=rd.node,
        )
        r.check(
            {k for k, _, _ in w_act} == read_act,
            "action record keys agree",
            "persist:action-keys",
            f"action record: written {sorted(k for k, _, _ in w_act)}, read {sorted(read_act)}",
            node=rd.node,
        )
        for k, cond, st in w_act:
            if cond:
                r.check(
                    k in in_tests,
                    f"conditional key {k!r} is read under an `in` test",
                    f"persist:conditional:{k}",
                    f"key {k!r} is written conditionally but read unconditionally",
                    node=st,
                )
        # value forms
        def val_of(keys, k):
            return next((unparse(st.value) for kk, _, st in keys if kk == k), None)
        forms = {
            "state_id": (val_of(w_state, "state_id"), "state.state_id"),
            "symbol": (val_of(w_state, "symbol"), "state.symbol.fqn"),
            "finish_flags": (val_of(w_state, "finish_flags"), "state.finish_flags"),
            "a.action": (val_of(w_act, "action"), "action.action"),
            "a.state_id": (val_of(w_act, "state_id"), "action.state.state_id"),
            "a.prod_id": (val_of(w_act, "prod_id"), "action.prod.prod_id"),
        }
        for k, (got, want) in forms.items():
            r.check(got == want, f"writer stores {want} under {k}", f"persist:value:{k}",
                    f"writer stores {got} under {k!r}, reader expects {want}", node=ds.node)
        rtxt = unparse(rd.node)
        for want, what in (
            ("grammar.get_symbol(json_state['symbol'])", "state symbol resolved by fqn"),
            ("grammar.productions[json_action['prod_id']]", "production resolved by prod_id"),
            ("states_dict[json_action['state_id']]", "shift target resolved by state_id"),
            ("grammar.get_terminal(terminal_fqn)", "action terminal resolved by fqn"),
            ("grammar.get_nonterminal(nonterm_fqn)", "goto symbol resolved by fqn"),
            ("Action(json_action['action'], act_state, act_prod)", "Action(kind, state, prod) rebuilt"),
        ):
            r.check(want in rtxt, what, f"persist:reader:{what}", f"reader no longer does: {want}", node=rd.node)
        persist_order_checks(r, repo)
        # cell keys are fully qualified names (the reader looks them up by fqn)
        for k in ("actions", "gotos"):
            st = next((st for kk, _, st in w_state if kk == k), None)
            elt = st.value.elt if st is not None and isinstance(st.value, ast.ListComp) else None
            first = unparse(elt.elts[0]) if isinstance(elt, ast.List) and elt.elts else None
            r.check(
                first is not None and first.endswith(".fqn"),
                f"{k}: cells keyed by the symbol's fqn",
                f"persist:cellkey:{k}",
                f"{k} cells are written under {first}; the reader resolves them with "
                "get_terminal/get_nonterminal(fqn) -- imported symbols would not be found or be confused",
                node=st,
            )
        # cells are serialised as lists (ordered), not dicts
        for k in ("actions", "gotos"):
            v = val_of(w_state, k)
            r.check(
                v is not None and v.startswith("["),
                f"{k} serialised as an ordered list",
                f"persist:list:{k}",
                f"{k} is serialised as {v[:60] if v else None}: sort_keys=True would reorder a dict",
                node=ds.node,
            )


def rule_fields(rep):
    with rep.rule(
        "R12.fields",
        "each LRState field read at parse time is persisted or recomputed on the load path; "
        "conflicts and dynamic marks are recomputed on every LRTable construction",
    ) as r:
        repo = rep.repo
        f, g = func_cfg(repo, "parglare.tables.LRTable.__init__")
        calc = [n for n, c in g.nodes_calling("calc_conflicts_and_dynamic_terminals")]
        r.check(
            bool(calc) and g.dominated_by_nodes(g.exit, calc),
            "every LRTable construction recomputes conflicts and dynamic marks",
            "LRTable.__init__:calc_conflicts",
            "some path through LRTable.__init__ skips calc_conflicts_and_dynamic_terminals "
            "(a loaded table would have no conflicts / dynamic marks)",
            node=f.node,
        )
        rd = repo.func("parglare.tables.persist.table_from_serializable")
        assigned = {
            t.attr
            for st in walk_no_nested(rd.node) if isinstance(st, ast.Assign)
            for t in st.targets if isinstance(t, ast.Attribute) and is_name(t.value, "state")
        }
        st_init = repo.func("parglare.tables.LRState.__init__")
        inited = {
            t.attr
            for st in walk_no_nested(st_init.node) if isinstance(st, ast.Assign)
            for t in st.targets if isinstance(t, ast.Attribute) and is_name(t.value, "self")
        }
        # fields of a state read by the drivers
        read = set()
        for mod in ("parglare.parser", "parglare.glr"):
            for n in ast.walk(repo.module(mod).tree):
                if isinstance(n, ast.Attribute) and isinstance(n.ctx, ast.Load):
                    base = unparse(n.value)
                    if base.endswith("state") or base in ("cur_state", "to_state", "from_state", "next_state"):
                        read.add(n.attr)
        slots = set(repo.cls("parglare.tables.LRState").slots() or [])
        read &= slots
        r.floor("LRState fields read by the drivers", len(read), 5)
        for fld in sorted(read):
            recomputed = fld == "dynamic"
            ok = fld in assigned or (fld in inited and fld in ("grammar", "state_id", "symbol")) or recomputed
            r.check(
                ok,
                f"LRState.{fld} available on a loaded table",
                f"persist:field:{fld}",
                f"LRState.{fld} is read at parse time but neither restored by table_from_serializable "
                "nor recomputed",
                node=rd.node,
            )
        # loaded tables must not be re-sorted / re-flagged differently: calc_finish_flags=False
        cons = [c for c in walk_no_nested(rd.node) if isinstance(c, ast.Call) and call_name(c) == "LRTable"]
        r.need(len(cons) == 1, "table_from_serializable: LRTable construction not found")
        cff = kw(cons[0], "calc_finish_flags")
        r.check(
            isinstance(cff, ast.Constant) and cff.value is False,
            "loaded table keeps the stored order and flags",
            "persist:no-resort",
            "a loaded table is re-sorted / re-flagged (calc_finish_flags is not False)",
            node=cons[0],
        )


def rule_loader_actions(rep):
    with rep.rule(
        "R12.loader-actions",
        "the loader rebuilds every action from its own record only: target state iff the record "
        "has `state_id`, production iff it has `prod_id`, nothing carried over from the previous "
        "action of the cell",
    ) as r:
        rd = rep.repo.func("parglare.tables.persist.table_from_serializable")
        loops = [
            n for n in walk_no_nested(rd.node)
            if isinstance(n, ast.For) and isinstance(n.target, ast.Name)
            and any(isinstance(c, ast.Call) and call_name(c) == "Action" for c in walk_no_nested(n))
        ]
        # innermost loop that builds Action objects
        loops = [lp for lp in loops if not any(o is not lp and o in list(ast.walk(lp)) for o in loops)]
        r.need(len(loops) == 1, "table_from_serializable: loop building the actions not found")
        loop = loops[0]
        rec = loop.target.id
        carried = {
            n.id for st in loop.body for n in ast.walk(st)
            if isinstance(n, ast.Name) and isinstance(n.ctx, ast.Store)
        }
        atoms = Atoms()
        atoms.flag(f"'state_id' in {rec}", "has_state").flag(f"'state_id' not in {rec}", "has_state", negate=True)
        atoms.flag(f"'prod_id' in {rec}", "has_prod").flag(f"'prod_id' not in {rec}", "has_prod", negate=True)
        space = [dict(has_state=a, has_prod=b) for a in (False, True) for b in (False, True)]

        def run(atom):
            def eff(st, it):
                if isinstance(st, ast.Expr) and isinstance(st.value, ast.Call):
                    for c in ast.walk(st.value):
                        if isinstance(c, ast.Call) and call_name(c) == "Action":
                            return ("ACTION", tuple(plain(a) for a in c.args), tuple((k.arg, plain(k.value)) for k in c.keywords))
                return NotImplemented

            # what an earlier iteration left in the body's own variables is not this record's
            env = {n: ast.Name(id=f"__STALE_{n}", ctx=ast.Load()) for n in carried}
            it = Interp(atom, eff, env=env)
            it.run(loop.body)
            return list(it.effects)

        init = rep.repo.func("parglare.tables.Action.__init__")
        params = init.params[1:]
        for leaf in explore(run, space, atoms):
            effs = leaf.result
            for v in leaf.valuations:
                ok = len(effs) == 1
                got = {}
                if ok:
                    _, args, kws = effs[0]
                    got = dict(zip(params, args))
                    got.update(dict(kws))
                want = {
                    "action": f"{rec}['action']",
                    "state": f"states_dict[{rec}['state_id']]" if v["has_state"] else "None",
                    "prod": f"grammar.productions[{rec}['prod_id']]" if v["has_prod"] else "None",
                }
                bad = {k: got.get(k, "None") for k in want if got.get(k, "None") != want[k]}
                r.check(
                    ok and not bad,
                    f"record with state_id={v['has_state']}, prod_id={v['has_prod']}",
                    "table_from_serializable:action-fields",
                    f"for an action record {'with' if v['has_state'] else 'without'} state_id and "
                    f"{'with' if v['has_prod'] else 'without'} prod_id the loader builds "
                    f"{ {k: str(x).replace('__STALE_', 'left over from the previous action: ') for k, x in bad.items()} }; needed {want} "
                    "(a REDUCE loaded after a SHIFT of the same cell would carry the SHIFT's state: the loaded table "
                    "differs from the computed one)" + leaf.free_text(),
                    node=loop,
                )


def rule_roundtrip_encoding(rep):
    with rep.rule(
        "R12.codec",
        "writer and reader of the .pgc agree on the text encoding; JSON decode errors of an "
        "incomplete file are ValueError subclasses covered by the loader's handler",
    ) as r:
        repo = rep.repo
        sv, atomic, ascii_only, dump = _writer_facts(repo)
        ld = repo.func("parglare.tables.persist.load_table")

        def enc(fn):
            for c in walk_no_nested(fn.node):
                if isinstance(c, ast.Call) and is_name(c.func, "open"):
                    e = kw(c, "encoding")
                    return unparse(e) if e is not None else None
            raise AnalysisError(f"{fn.name}: open() not found")
        r.check(
            enc(sv) == enc(ld),
            "same encoding on both sides",
            "persist:encoding",
            f"save_table opens with encoding {enc(sv)}, load_table with {enc(ld)}",
            node=ld.node,
        )
        r.fact("ensure_ascii", ascii_only)


def check(rep):
    rep.explanation = (
        "C12 (partial): the complete decision table of create_load_table (including an "
        "undecodable cache file and the staleness loop's domain, operands and comparison) is "
        "extracted and compared with the documented table; option flow into the cache key; "
        "writer/reader schema, value forms and order preservation; fields needed at parse time; "
        ".pgec staleness domain. Not decided: behavioural equality of loaded and computed tables."
    )
    rep.assumptions += [
        "a byte-prefix of a JSON list never decodes as complete JSON (so every truncated .pgc raises a decode error)",
        "json.dump with ensure_ascii (default) writes ASCII only",
    ]
    rule_decision(rep)
    rule_key(rep)
    rule_stale_domain(rep)
    rule_schema(rep)
    rule_fields(rep)
    rule_loader_actions(rep)
    rule_roundtrip_encoding(rep)
