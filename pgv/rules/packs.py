"""Rule packs shared between properties.

The blind evaluations (DESIGN section 8) showed one dominant reason for a missed change: the
rule that sees it existed, but only under another property.  Most properties are statements
about what `Parser` / `GLRParser` return for *every* grammar and input, so they rest on the
same machinery: the table builder, the scanner, the two drivers, the layout skipper, the
action runner, the import resolver, the caches.  A defect in one of those breaks every
property whose statement quantifies over the behaviour it produces.  A pack is the list of
rules that keep one piece of machinery correct; a property includes the packs its statement
rests on (the reason is given at the inclusion, in `PROPERTY_PACKS` below).

Rules with an open known finding are not in any pack (they run under the property that lists
the finding only).  A rule already run by the property's own `check()` is not run twice.
"""
from __future__ import annotations

import importlib
import inspect
import re

_ID = {}


def _rule_id(fn):
    if fn not in _ID:
        m = re.search(r'rep\.rule\(\s*(?:rule_id|"(R\d\d\.[\w\-]+)")', inspect.getsource(fn))
        rid = m.group(1) if m and m.group(1) else None
        if rid is None:
            d = inspect.signature(fn).parameters.get("rule_id")
            if d is not None and isinstance(d.default, str):
                rid = d.default
        _ID[fn] = rid
    return _ID[fn]


def _get(spec):
    mod, name = spec.split(".")
    return getattr(importlib.import_module(f"pgv.rules.{mod}"), name)


PACKS = {
    # the LR(1)-family table: FIRST/FOLLOW, closure, LALR propagation, state discovery, reduce
    # filling, S/R and R/R resolution, conflict recording, start production handling
    "table": [
        "C05.rule_first", "C05.rule_nullable_scans", "C05.rule_rearm", "C05.rule_monotone", "C05.rule_states",
        "C05.rule_reduce_fill", "C05.rule_closure_shape", "C15.rule_swap_restore", "C06.rule_table",
        "C06.rule_shift_prior", "C04.rule_conflict_table", "C04.rule_cell_order",
    ],
    # grammar meta-data reaching the productions the table builder reads
    "meta": ["C06.rule_meta_map", "C06.rule_production_fields", "C13.rule_groups"],
    # the scanner: action order, finish flags, scan loop, longest match / prefer, STOP offering,
    # recognisers returning slices of the input
    "scan": [
        "C07.rule_sort_key", "C07.rule_finish", "C07.rule_scan_loop", "C07.rule_longest_prefer", "C07.rule_cardinality",
        "C07.rule_gate", "C17.rule_stop_offer", "C08.rule_value_is_slice",
    ],
    # the LR driver
    "lr": ["C04.rule_gate", "C04.rule_driver_select", "C17.rule_lr_fallback", "C08.rule_roles_lr"],
    # the GLR driver and the forest it builds
    "glr": [
        "C01.rule_shift_order", "C01.rule_main_loop", "C02.rule_link_no_drop", "C02.rule_revisit", "C02.rule_link_key",
        "C02.rule_all_parents", "C17.rule_accumulate", "C17.rule_forest_root", "C08.rule_roles_glr", "C16.rule_driver_order",
    ],
    # layout skipping
    "layout": [
        "C14.rule_skip_before_fetch", "C08.rule_layout_slice", "C14.rule_skipws_stateless", "C14.rule_subparser",
        "C14.rule_regex_literals",
    ],
    # running semantic actions
    "actions": [
        "C09.rule_siblings", "C09.rule_terminals", "C09.rule_alt_index", "C09.rule_builtins", "C09.rule_protocol",
        "C03.rule_visitor_order", "C15.rule_actions_reset", "C15.rule_action_precedence",
    ],
    # error objects
    "errors": [
        "C10.rule_discipline", "C10.rule_errors_are_syntax_errors", "C10.rule_expected", "C10.rule_render", "C10.rule_eof",
        "C10.rule_context_line", "C10.rule_zero_is_a_position",
    ],
    # grammar files, imports, qualified names
    "imports": [
        "C20.rule_load_once", "C20.rule_register_first", "C20.rule_resolution", "C20.rule_collect_once", "C13.rule_fqn_format",
    ],
    # the table / hint caches (R12.key has an open finding and stays under C12)
    "cache": [
        "C12.rule_decision", "C12.rule_stale_domain", "C12.rule_schema", "C12.rule_fields", "C12.rule_loader_actions",
        "C12.rule_roundtrip_encoding",
        "C16.rule_dump",
    ],
    # no state carried between parses / parsers / into the grammar
    "reuse": [
        "C15.rule_reinit", "C15.rule_shared_writes", "C15.rule_args_pure", "C15.rule_actions_reset", "C15.rule_markers",
        "C15.rule_table_readonly", "C15.rule_defaults",
    ],
    # nothing survives in module-level objects / default arguments from one grammar or parser to the next
    "purity": ["C15.rule_module_state", "C15.rule_defaults"],
    "sugar": ["C13.rule_fqn_format", "C13.rule_expansion", "C13.rule_op_map", "C13.rule_groups", "C09.rule_builtins"],
    "dynamic": ["C18.rule_init", "C18.rule_bypass", "C18.rule_dominance_glr", "C18.rule_lr_filter", "C18.rule_marks"],
    "determinism": ["C16.rule_taint", "C16.rule_sanitiser", "C16.rule_dump", "C16.rule_driver_order"],
}

# property -> [(pack, why a defect there breaks the property)]
PROPERTY_PACKS = {
    "C01": [("glr", "the property is the GLR driver's soundness and completeness"),
            ("table", "GLR explores exactly the actions of the table: a missing action rejects a sentence"),
            ("scan", "GLR sees the tokens the scanner offers"), ("layout", "a lookahead fetched before layout is skipped rejects sentences")],
    "C02": [("glr", "every derivation = nothing dropped by the driver"), ("table", "a missing action loses derivations"),
            ("scan", "a token not offered loses derivations")],
    "C03": [("glr", "what the forest contains is what the driver packed")],
    "C04": [("lr", "the property is the LR driver's"), ("table", "exactness needs the faithful table"), ("scan", "tokens"),
            ("glr", "the exactness clause compares with GLRParser"), ("layout", "inputs have arbitrary layout")],
    "C05": [("table", "the property")],
    "C06": [("table", "priorities/associativity act in the table builder"), ("meta", "declared meta-data must reach the productions"),
            ("lr", "the tree is the LR driver's"), ("glr", "GLRParser must return exactly that tree"), ("scan", "tokens")],
    "C07": [("scan", "the property"), ("lr", "which of the offered tokens is used"), ("glr", "GLR follows every lexical alternative"),
            ("table", "finish flags and action order are table data")],
    "C08": [("lr", "LR node positions"), ("glr", "GLR node positions"), ("scan", "values are slices"), ("layout", "layout_content")],
    "C09": [("actions", "the property"), ("lr", "what an LR action receives"), ("glr", "what the GLR tree holds"), ("sugar", "built-in actions of the sugar"),
            ("reuse", "which action runs is decided per parser")],
    "C10": [("errors", "the property"), ("glr", "symbols_expected is computed by the reducer"), ("lr", "LR error position"),
            ("scan", "tokens ahead"), ("table", "default reductions must not consume the offending token"), ("layout", "position after layout")],
    "C11": [("errors", "the recorded errors"), ("glr", "GLR resumes with the driver"), ("lr", "LR resumes with the driver"), ("scan", "the resume token")],
    "C12": [("cache", "the property"), ("determinism", "a cached table must equal a computed one")],
    "C13": [("sugar", "the property"), ("table", "greedy is associativity; emptiness is structural"), ("meta", "helper rules inherit meta-data"),
            ("actions", "built-in actions"), ("imports", "sugar in imported grammars")],
    "C14": [("layout", "the property"), ("lr", "LR carries layout"), ("glr", "GLR carries layout"), ("table", "the layout table"), ("scan", "token boundaries"),
            ("cache", "the layout table is built by the in_layout branch of create_load_table with the layout parser's options")],
    "C15": [("reuse", "the property"), ("table", "tables built one after another on one grammar"), ("cache", "files written by one construction are read by the next"),
            ("actions", "actions resolved onto shared symbols")],
    "C16": [("determinism", "the property"), ("table", "the table bytes are the table builder's"), ("cache", "cached tables"), ("glr", "forest order is the driver's order")],
    "C17": [("glr", "all prefixes = completeness with STOP next to real tokens"), ("lr", "STOP fallback"), ("scan", "STOP offering"), ("table", "actions on STOP")],
    "C18": [("dynamic", "the property"), ("lr", "LR takes the kept actions"), ("glr", "GLR takes the kept actions"), ("table", "dynamic marks are table data"),
            ("meta", "the `dynamic` meta-data")],
    "C19": [("scan", "how string terminals compete"), ("imports", "inline terminals are per file"), ("meta", "terminal meta-data")],
    "C20": [("imports", "the property"), ("cache", "the cached table of a split grammar must notice every file"), ("actions", "per-alternative actions index productions per symbol"),
            ("sugar", "helper rules are shared by name across files")],
}


def run_packs(rep):
    prop = rep.prop
    ran = []
    packs = list(PROPERTY_PACKS.get(prop, []))
    if any(p == "table" for p, _ in packs) and not any(p == "cache" for p, _ in packs):
        packs.append(("cache", "for a grammar file the table a parser uses may come from the .pgc cache: a stale or wrongly "
                      "loaded one implements another grammar / other options than the ones the property speaks about"))
    packs = packs + [
        ("purity", "every property compares a parser with what a fresh process would give: hidden module state breaks that")
    ]
    for pack, why in packs:
        for spec in PACKS[pack]:
            fn = _get(spec)
            rid = _rule_id(fn)
            if rid is not None and any(r.rule_id == rid for r in rep.rules):
                continue
            fn(rep)
            ran.append(spec)
    rep.extra["packs"] = [{"pack": p, "why": w} for p, w in packs]
    return ran
